"""Hand-written mutants (one broken rule instance each) and behaviour-preserving variants.

Each mutant: props = properties whose check must report it; edits = [(module, old, new)] applied to
the current tree's source text (a mutant whose `old` text no longer occurs exactly once is reported
as stale, not as a failure).  All mutants still byte-compile.
"""

MUTANTS = {}
BENIGN = {}


def M(mid, props, *edits, why=''):
    MUTANTS[mid] = {'props': props, 'edits': list(edits), 'why': why}


def B(bid, *edits, why=''):
    BENIGN[bid] = {'edits': list(edits), 'why': why}


RT = 'runtime'
AC = 'asyncoro'
TH = 'thresha'

# ---------------------------------------------------------------- PC family
M('revert-fix-mod-nopc', ['C08', 'C09'],
  (RT, "    @asyncoro.mpc_coro\n    async def mod(self, a, b):", "    @asyncoro.mpc_coro_no_pc\n    async def mod(self, a, b):"),
  why='Runtime.mod without own pc forks from a task step')
M('revert-fix-np_roll-nopc', ['C08', 'C09', 'C37'],
  (RT, "    @asyncoro.mpc_coro\n    async def np_roll(", "    @asyncoro.mpc_coro_no_pc\n    async def np_roll("))
M('in_prod-nopc', ['C08', 'C09'],
  (RT, "    @asyncoro.mpc_coro  # no_pc possible if no reshare and no trunc\n", "    @asyncoro.mpc_coro_no_pc\n"))
M('scalar_mul-nopc', ['C08', 'C09'],
  (RT, "    @asyncoro.mpc_coro\n    async def scalar_mul(", "    @asyncoro.mpc_coro_no_pc\n    async def scalar_mul("))
M('np_update-mul-after-await', ['C08'],
  (RT, "        a.__setitem__(key, value)\n        return a", "        a.__setitem__(key, value)\n        self._prss_uci()\n        return a"),
  why='pc increment from a no_pc task step')
M('sum-operator-after-await', ['C08'],
  (RT, "        x = await self.gather(x)\n        s = sum(a.value for a in x)\n        return stype.field(s)",
       "        y = x[0] * x[0]\n        x = await self.gather(x)\n        s = sum(a.value for a in x)\n        return stype.field(s)"),
  why='operator * on secure operands after the first await of a no_pc coroutine')
M('pcw-no-restore', ['C08'],
  (AC, "            finally:\n                self.runtime._program_counter = pc\n", "            finally:\n                pass\n"))
M('pcw-restore-not-finally', ['C08'],
  (AC, "            else:\n                self.pc = self.runtime._program_counter\n            finally:\n                self.runtime._program_counter = pc\n",
       "            else:\n                self.pc = self.runtime._program_counter\n                self.runtime._program_counter = pc\n"),
  why='restore skipped when the coroutine finishes or raises')
M('pcw-no-saveback', ['C08'],
  (AC, "            else:\n                self.pc = self.runtime._program_counter\n", "            else:\n                pass\n"))
M('pcw-save-hoisted', ['C08'],
  (AC, "        while True:\n            pc = self.runtime._program_counter\n            self.runtime._program_counter = self.pc\n",
       "        pc = self.runtime._program_counter\n        while True:\n            self.runtime._program_counter = self.pc\n"))
M('fork-no-increment', ['C08', 'C09'],
  (AC, "        rt._program_counter[0] += 1\n        self.pc =", "        self.pc ="))
M('fork-increment-after', ['C08', 'C09'],
  (AC, "        rt._program_counter[0] += 1\n        self.pc = [_hop(rt._program_counter), rt._program_counter[1]+1]  # fork\n",
       "        self.pc = [_hop(rt._program_counter), rt._program_counter[1]+1]  # fork\n        rt._program_counter[0] += 1\n"))
M('fork-depth-same', ['C08', 'C09'],
  (AC, "rt._program_counter[1]+1]  # fork", "rt._program_counter[1]]  # fork"))
M('hop-partial', ['C08', 'C09'],
  (AC, "    return hash(tuple(a))", "    return hash(a[0])"))
M('task-unwrapped', ['C08', 'C09'],
  (AC, "        if pc:\n            coro = _wrap_in_coro(_ProgramCounterWrapper(runtime, coro))",
       "        if not pc:\n            coro = _wrap_in_coro(_ProgramCounterWrapper(runtime, coro))"))
M('recv-label-depth', ['C08', 'C09'],
  (RT, "protocol.receive(self._program_counter[0])", "protocol.receive(self._program_counter[1])"))
M('send-label-depth-both', ['C08', 'C09'],
  (RT, "protocol.receive(self._program_counter[0])", "protocol.receive(self._program_counter[1])"),
  (RT, "protocol.send(self._program_counter[0], data)", "protocol.send(self._program_counter[1], data)"))
M('buffers-wrong-key', ['C08', 'C09'],
  (AC, "                self.buffers[pc] = payload\n", "                self.buffers[payload_size] = payload\n"))
M('uci-no-increment', ['C08', 'C11', 'C15', 'C18'],
  (RT, "        self._program_counter[0] += 1\n        return self._program_counter[0].to_bytes", "        return self._program_counter[0].to_bytes"))
M('uci-reused-in-loop', ['C08', 'C18'],
  (RT, "            while h > 0:\n                rs = thresha.pseudorandom_share(field, m, self.pid, prfs, self._prss_uci(), h)",
       "            uci = self._prss_uci()\n            while h > 0:\n                rs = thresha.pseudorandom_share(field, m, self.pid, prfs, uci, h)"))
M('prss-wrong-pid', ['C08', 'C11', 'C15'],
  (RT, "        x = thresha.pseudorandom_share(field, m, self.pid, self.prfs(bound), self._prss_uci(), n)",
       "        x = thresha.pseudorandom_share(field, m, 0, self.prfs(bound), self._prss_uci(), n)"))
M('fork-under-pid', ['C08'],
  (RT, "            if self.pid in senders:\n                x = [field(secrets.randbelow(bound)) for _ in range(n)]\n            else:\n                x = [field(0)] * n\n            x = self.input(x, senders=senders)",
       "            if self.pid in senders:\n                x = [field(secrets.randbelow(bound)) for _ in range(n)]\n                x = self.input(x, senders=senders)\n            else:\n                x = [field(0)] * n\n                x = [[a] for a in x]"),
  why='input() forks only at the senders')
M('gather-tally-unpaired', ['C08'],
  (AC, "                    self.tally += 1\n                    obj.share.add_done_callback(self._decrement)", "                    self.tally += 1"))
M('gather-no-immediate-result', ['C08'],
  (AC, "        if not self.tally:\n            self.set_result(_get_results(obj))\n        else:\n            self.obj = obj", "        self.obj = obj"))
M('send-in-callback', ['C08', 'C09'],
  (AC, "    def connection_lost(self, exc):", "    def eof_received(self):\n        self.runtime._send_message(self.peer_pid, b'')\n\n    def connection_lost(self, exc):"))
M('two-sends-one-label', ['C09'],
  (RT, "                if peer_pid != self.pid:\n                    self._send_message(peer_pid, marshal(data))\n                else:\n                    own_share = data",
       "                if peer_pid != self.pid:\n                    self._send_message(peer_pid, marshal(data))\n                    self._send_message((peer_pid + 1) % m, marshal(data))\n                else:\n                    own_share = data"))
M('send-peer-loop-invariant', ['C09'],
  (RT, "            if peer_pid != self.pid:\n                self._send_message(peer_pid, indata)", "            if peer_pid != self.pid:\n                self._send_message(my_receivers[0], indata)"))

# ---------------------------------------------------------------- benign variants (must stay silent everywhere)
# ---------------------------------------------------------------- OP6
M('revert-fix-ufunc-reflected', ['C37', 'C01'], ('sectypes', "            if rop := reflected_ops.get(op):  # e.g., a < b iff b > a\n                return rop(inputs[1], inputs[0])\n\n", ""))
M('ufunc-mirror-wrong', ['C37', 'C01'], ('sectypes', "operator.gt: operator.lt, operator.ge: operator.le}", "operator.gt: operator.le, operator.ge: operator.lt}"))
M('ufunc-reflected-method-wrong', ['C37'], ('sectypes', "operator.floordiv: '__rfloordiv__', operator.mod: '__rmod__',", "operator.floordiv: '__rmod__', operator.mod: '__rfloordiv__',"))
M('ufunc-drop-reflected-methods', ['C37'], ('sectypes', "            if rname := reflected_methods.get(op):\n                return getattr(inputs[1], rname)(inputs[0])\n\n", ""))

# ---------------------------------------------------------------- FX1: first-element flags (revert parts of fix 791be17)
M('revert-fix-list-flags-vector_add', ['C03'], (RT, "            x_integral = all(a.integral for a in x)\n            y_integral = all(isinstance(b, int) or\n                             isinstance(b, self.SecureObject) and b.integral for b in y)\n            await self.returnType((stype, x_integral and y_integral), n)\n\n        x, y = await self.gather(x, y)\n        for i in range(n):\n            x[i] = x[i] + y[i]", "            y0_integral = (isinstance(y[0], int) or\n                           isinstance(y[0], self.SecureObject) and y[0].integral)\n            await self.returnType((stype, x[0].integral and y0_integral), n)\n\n        x, y = await self.gather(x, y)\n        for i in range(n):\n            x[i] = x[i] + y[i]"))
M('revert-fix-list-flags-schur', ['C03'], (RT, "                x_integral = all(a.integral for a in x)\n                y_integral = all(b.integral for b in y)\n                await self.returnType((sftype, x_integral and y_integral), n)", "                x_integral = x[0].integral\n                y_integral = y[0].integral\n                await self.returnType((sftype, x_integral and y_integral), n)"))
M('revert-fix-list-flags-matrix', ['C03'], (RT, "            A_integral = all(a.integral for r in A for a in r)", "            A_integral = A[0][0].integral"))
M('revert-fix-list-flags-reshare', ['C03'], (RT, "                else:\n                    rettype = (sftype, all(a.integral for a in x))\n            if x_is_list:", "                else:\n                    rettype = (sftype, x[0].integral)\n            if x_is_list:"))
M('revert-fix-list-flags-ifelse', ['C03'], (RT, "            await self.returnType((stype, all(b.integral for b in x + y)), n)", "            await self.returnType((stype, x[0].integral and y[0].integral), n)"))
M('list-flags-ifelse-half', ['C03'], (RT, "            await self.returnType((stype, all(b.integral for b in x + y)), n)", "            await self.returnType((stype, all(b.integral for b in x)), n)"))
M('sum-first-element-flag', ['C03'], (RT, "            await self.returnType((stype, all(a.integral for a in x)))", "            await self.returnType((stype, x[0].integral))"))

# ---------------------------------------------------------------- SC1 (a violation other than the listed known finding must still be reported)
M('norm-scale-other-site', ['C02'], (RT, "        return (s*2 - 1) * nf * (2**(f - (l-1)))  # NB: f <= l\n\n    def _rec(self, a):", "        return (s*2 - 1) * nf * (2**(f - l))  # NB: f <= l\n\n    def _rec(self, a):"))

# ---------------------------------------------------------------- CV (C06)
M('convert-two-ucis', ['C06'], (RT, "            t_r = thresha.pseudorandom_share(t_field, m, self.pid, prfs, uci, n)", "            t_r = thresha.pseudorandom_share(t_field, m, self.pid, prfs, self._prss_uci(), n)"))
M('convert-same-field-twice', ['C06'], (RT, "            t_r = thresha.pseudorandom_share(t_field, m, self.pid, prfs, uci, n)", "            t_r = thresha.pseudorandom_share(s_field, m, self.pid, prfs, uci, n)"))
M('convert-noprss-fresh-target', ['C06'], (RT, "                t_r = [t_field(a) for a in r]\n                del r", "                t_r = [t_field(secrets.randbelow(bound)) for a in r]\n                del r"))
M('convert-offset-not-removed', ['C06'], (RT, "                x[i] = self._mod(t_type(x[i]), s_field.modulus)\n            x[i] = x[i] - offset", "                x[i] = self._mod(t_type(x[i]), s_field.modulus)\n            x[i] = x[i]"))
M('convert-unmask-with-source-share', ['C06'], (RT, "            x[i] = x[i].value - t_r[i]\n            if s_is_SecureFiniteField:", "            x[i] = x[i].value - int(s_r[i])\n            if s_is_SecureFiniteField:"))
M('convert-mask-other-element', ['C06'], (RT, "            x[i] = x[i].value - t_r[i]\n            if s_is_SecureFiniteField:", "            x[i] = x[i].value - t_r[0]\n            if s_is_SecureFiniteField:"))
M('convert-trunc-wrong-sign', ['C06'], (RT, "        if d < 0:\n            x = await self.trunc(x, f=-d, l=s_type.bit_length)", "        if d > 0:\n            x = await self.trunc(x, f=d, l=s_type.bit_length)"))
M('convert-shift-always', ['C06'], (RT, "        if d > 0 and not s_is_SecureFiniteField:\n            for i in range(n):\n                x[i] <<= d", "        if not s_is_SecureFiniteField:\n            for i in range(n):\n                x[i] <<= d"))
M('convert-d-reversed', ['C06'], (RT, "        d = t_type.frac_length - s_type.frac_length  # TODO: use integral attribute fxp", "        d = s_type.frac_length - t_type.frac_length"))
M('convert-narrow-intermediate', ['C06'], (RT, "            size = max(s_type.field.order, t_type.field.order)", "            size = min(s_type.field.order, t_type.field.order)"))
M('convert-mask-bound-small', ['C06', 'C18'], (RT, "                bound = (1<<(k + l)) // math.comb(m, t) + 1", "                bound = (1<<l) // math.comb(m, t) + 1"))

# ---------------------------------------------------------------- SN (C29, np_sort part of C37)
M('sort-step-inner-list', ['C29'], (RT, "                        x[i], x[i + d] = self.if_swap(key(a) < key(b), b, a)\n                d, q, r = q - p, q >> 1, p", "                        x[i], x[i + d] = self.if_swap(key(a) < key(b), b, a)\n                d, q, r = q - p, q >> 1, 0"))
M('sort-index-predicate-np', ['C29', 'C37'], (RT, "                I = np.fromiter((i for i in range(n - d) if i & p == r), dtype=int)", "                I = np.fromiter((i for i in range(n - d) if i & p == 0), dtype=int)"))
M('sort-swap-orientation-list', ['C29'], (RT, "                        x[i], x[i + d] = self.if_swap(key(a) < key(b), b, a)", "                        x[i], x[i + d] = self.if_swap(key(a) < key(b), a, b)"))
M('sort-write-other-position', ['C29'], (RT, "                        x[i], x[i + d] = self.if_swap(key(a) < key(b), b, a)", "                        x[i], x[i + p] = self.if_swap(key(a) < key(b), b, a)"))
M('sort-np-orientation', ['C29', 'C37'], (RT, "                h = (key(b1) < key(b0)) * (b1 - b0)", "                h = (key(b0) < key(b1)) * (b1 - b0)"))
M('sort-np-view', ['C29', 'C37'], (RT, "        if axis is None:\n            a = self.np_flatten(a)\n            axis = 0", "        if axis is None:\n            a = self.np_reshape(a, (-1,))\n            axis = 0"))
M('argmin-ties-last', ['C29'], (RT, "        c = key(min1) < key(min0)", "        c = key(min1) <= key(min0)"))
M('argmax-ties-last', ['C29'], (RT, "        c = key(max0) < key(max1)\n        a = self.if_else(c, i1, i0)\n        m = self.if_else(c, max1, max0)", "        c = key(max1) < key(max0)\n        a = self.if_else(c, i0, i1)\n        m = self.if_else(c, max0, max1)"))
M('argmin-no-offset', ['C29'], (RT, "        i0, min0 = self._argmin(x[:n//2], key)\n        i1, min1 = self._argmin(x[n//2:], key)\n        i1 += n//2", "        i0, min0 = self._argmin(x[:n//2], key)\n        i1, min1 = self._argmin(x[n//2:], key)\n        i1 += (n+1)//2"))
M('max-selects-min', ['C29'], (RT, "        return self.if_else(key(max0) < key(max1), max1, max0)", "        return self.if_else(key(max0) < key(max1), max0, max1)"))
M('min-halves-gap', ['C29'], (RT, "        min0 = self.min(x[:n//2], key=key)\n        min1 = self.min(x[n//2:], key=key)", "        min0 = self.min(x[:n//2], key=key)\n        min1 = self.min(x[(n+1)//2:], key=key)"))
M('argmax-index-not-following', ['C29'], (RT, "        c = key(max0) < key(max1)\n        a = self.if_else(c, i1, i0)", "        c = key(max0) < key(max1)\n        a = self.if_else(key(max0) <= key(max1), i1, i0)"))
M('sorted-in-place', ['C29'], (RT, "        self._sort(x, key)  # TODO: stable sort &  vectorization of <'s\n        if reverse:\n            x.reverse()", "        self._sort(x, key)  # TODO: stable sort &  vectorization of <'s\n        if not reverse:\n            x.reverse()"))

M('revert-fix-np_lsb-await', ['C37'], (RT, "        r = self._np_randoms(Zp, a.size, 1 << (l + k - 1))\n        if self.options.no_prss:\n            r = await r\n        r = r.value.reshape(a.shape)\n",
                                            "        r = self._np_randoms(Zp, a.size, 1 << (l + k - 1)).reshape(*a.shape)\n        if self.options.no_prss:\n            r = (await r)[0]\n        r = r.value\n"))
M('np_trunc-use-before-await', ['C37'], (RT, "        r_divf = self._np_randoms(Zp, n, 1 << k + l - f)\n        if self.options.no_prss:\n            r_divf = await r_divf\n        r_divf = r_divf.value\n",
                                             "        r_divf = self._np_randoms(Zp, n, 1 << k + l - f)\n        r_divf = r_divf.value\n"))
M('sum-drop-copy', ['C01'], (RT, "        if iter(x) is x:\n            x = list(x)\n        else:\n            x = x[:]\n        if x == []:\n            return start\n\n        x[0] = x[0] + start",
                                 "        if iter(x) is x:\n            x = list(x)\n        if x == []:\n            return start\n\n        x[0] = x[0] + start"))
M('lsb-use-before-await', ['C01'], (RT, "        r = self._random(Zp, 1 << (l + k - 1))\n        if self.options.no_prss:\n            r = (await r)[0]\n        r = r.value\n        c = await self.output(a + ((1<<l) + (r << 1) + b.value))\n        x = 1 - b",
                                        "        r = self._random(Zp, 1 << (l + k - 1))\n        r = r.value\n        c = await self.output(a + ((1<<l) + (r << 1) + b.value))\n        x = 1 - b"))
M('revert-fix-np_unit_vector-inplace', ['C37'], (RT, "        a = a >> f  # NB: no in-place rshift!\n        R = self._random(type(a), 1<<self.options.sec_param)", "        a >>= f\n        R = self._random(type(a), 1<<self.options.sec_param)"))
M('scalar_mul-inplace-shift', ['C37'], (RT, "            a = a >> f  # NB: no in-place rshift!\n        for i in range(n):\n            x[i] = x[i] * a", "            a >>= f\n        for i in range(n):\n            x[i] = x[i] * a"))
M('shutdown-future-after-sync', ['C08', 'C09', 'C35'], (RT, "        self.parties[self.pid].protocol = Future(loop=self._loop)\n        logging.debug('Synchronize with all parties before shutdown')\n        await self.transfer(self.pid)\n",
                                                             "        logging.debug('Synchronize with all parties before shutdown')\n        await self.transfer(self.pid)\n        self.parties[self.pid].protocol = Future(loop=self._loop)\n"))
M('revert-fix-min_max-key', ['C29'], (RT, "            x[i], x[-1-i] = self.if_swap(key(a) >= key(b), a, b)", "            x[i], x[-1-i] = self.if_swap(a >= b, a, b)"))
M('sort-compare-without-key', ['C29'], (RT, "                        x[i], x[i + d] = self.if_swap(key(a) < key(b), b, a)", "                        x[i], x[i + d] = self.if_swap(a < b, b, a)"))

B('rename-local-pcw',
  (AC, "            pc = self.runtime._program_counter\n            self.runtime._program_counter = self.pc\n",
       "            saved = self.runtime._program_counter\n            self.runtime._program_counter = self.pc\n"),
  (AC, "            finally:\n                self.runtime._program_counter = pc\n", "            finally:\n                self.runtime._program_counter = saved\n"))
B('hoist-threshold-local',
  (RT, "        m = len(self.parties)\n        uci = self._program_counter[0] % m  # for basic load balancing\n",
       "        m = len(self.parties)\n        pc0 = self._program_counter[0]\n        uci = pc0 % m  # for basic load balancing\n"))
B('swap-and-operands-mul',
  (RT, "            await self.returnType((stype, a_integral and (b_integral or z == f)))\n",
       "            await self.returnType((stype, (b_integral or z == f) and a_integral))\n"))
B('reformat-add',
  (RT, "        a, b = await self.gather(a, b)\n        return a + b\n\n    @asyncoro.mpc_coro_no_pc\n    async def sub(",
       "        a, b = await self.gather(a, b)\n        c = a + b\n        return c\n\n    @asyncoro.mpc_coro_no_pc\n    async def sub("))
B('comment-and-docstring',
  (AC, '        """Receive payload labeled with given pc from the peer."""', '        """Receive the payload labelled pc from the peer (or a Future for it)."""'))

# ---------------------------------------------------------------- FR / HS / KEY / CR
M('hdr-format-writer', ['C10'], (AC, "struct.pack(f'<qI{payload_size}s'", "struct.pack(f'<qi{payload_size}s'"))
M('hdr-format-wider', ['C10'], (AC, "struct.unpack_from('<qI', data)", "struct.unpack_from('<qQ', data)"))
M('hdr-size-literal', ['C10'], (AC, "            len_packet = payload_size + 12\n", "            len_packet = payload_size + 16\n"))
M('loop-guard-strict', ['C10', 'C08'], (AC, "        while len(data) >= 12:", "        while len(data) > 12:"))
M('frame-guard-le', ['C10', 'C08'], (AC, "            if len(data) < len_packet:\n                break", "            if len(data) <= len_packet:\n                break"))
M('frame-guard-dropped', ['C10', 'C36'], (AC, "            if len(data) < len_packet:\n                break\n", ""))
M('handshake-guard-short', ['C10', 'C16', 'C36'], (AC, "                if len(data) < len_packet + 2:", "                if len(data) < len_packet:"))
M('handshake-del-long', ['C10', 'C16'], (AC, "                del data[:len_packet]\n            rt.set_protocol", "                del data[:len_packet + 2]\n            rt.set_protocol"))
M('pid-guard-dropped', ['C10', 'C36'], (AC, "            if len(data) < 2:\n                return\n\n", ""))
M('receive-truthiness', ['C10', 'C36'], (AC, "        if payload is None:\n            # Data not yet", "        if not payload:\n            # Data not yet"))
M('receive-get', ['C10', 'C36'], (AC, "        payload = self.buffers.pop(pc, None)", "        payload = self.buffers.get(pc, None)"))
M('future-not-popped', ['C10', 'C36'], (AC, "                self.buffers.pop(pc).set_result(payload)", "                self.buffers[pc].set_result(payload)"))
B('frame-break-to-return', (AC, "            if len(data) < len_packet:\n                break", "            if len(data) < len_packet:\n                return"),
  why='data aliases self.bytes, so skipping the store-back after the loop changes nothing')
M('reader-filter-noswap', ['C10', 'C16'], (RT, "            if subset[0] == peer_pid and self.pid in subset:", "            if subset[0] == self.pid and peer_pid in subset:"))
M('reader-filter-weak', ['C10', 'C16'], (RT, "            if subset[0] == peer_pid and self.pid in subset:", "            if subset[0] == peer_pid:"))
M('writer-filter-weak', ['C10', 'C16'], (RT, "            if subset[0] == self.pid and peer_pid in subset:\n                keys.append", "            if subset[0] == self.pid:\n                keys.append"))
M('key-width-reader', ['C10', 'C16'], (RT, "                len_packet += 16", "                len_packet += 8"))
M('key-hoisted', ['C16'], (RT, "        keys = {}\n        for subset in itertools.combinations(range(m), m - t):\n            if subset[0] == self.pid:\n                keys[subset] = secrets.token_bytes(16)  # 128-bit key",
                           "        keys = {}\n        key = secrets.token_bytes(16)  # 128-bit key\n        for subset in itertools.combinations(range(m), m - t):\n            if subset[0] == self.pid:\n                keys[subset] = key"))
M('key-owner-last', ['C16'], (RT, "            if subset[0] == self.pid:\n                keys[subset] = secrets", "            if subset[-1] == self.pid:\n                keys[subset] = secrets"))
M('cache-not-cleared', ['C16'], (RT, "        self.prfs.cache_clear()\n", ""))
M('keys-subsets-size', ['C16', 'C10'], (RT, "        t = self.threshold\n        len_packet = 0\n        for subset in itertools.combinations(range(m), m - t):", "        t = self.threshold\n        len_packet = 0\n        for subset in itertools.combinations(range(m), t + 1):"))
M('pid-bytes-order', ['C10'], (AC, "pid_keys = [rt.pid.to_bytes(2, 'little')]", "pid_keys = [rt.pid.to_bytes(2, 'big')]"))
M('connect-all', ['C16'], (RT, "        for peer in self.parties[self.pid + 1:]:\n            logging.debug(f'Connecting to {peer}')", "        for peer in self.parties[self.pid:]:\n            logging.debug(f'Connecting to {peer}')"))
M('lost-swallowed', ['C36'], (AC, "        if exc:\n            raise exc\n", "        if exc:\n            pass\n"))
M('output-points-filtered', ['C36'], (RT, "for j in range(t)]\n            points.append((self.pid + 1, x))", "for j in range(t) if shares[j]]\n            points.append((self.pid + 1, x))"))
B('rename-len-packet', (AC, "            len_packet = payload_size + 12\n            if len(data) < len_packet:\n                break\n            payload = struct.unpack_from(f'{payload_size}s', data, 12)[0]\n            del data[:len_packet]",
                            "            frame_len = payload_size + 12\n            if len(data) < frame_len:\n                break\n            payload = struct.unpack_from(f'{payload_size}s', data, 12)[0]\n            del data[:frame_len]"))
B('guard-reordered', (AC, "                if len(data) < len_packet + 2:", "                if len(data) < 2 + len_packet:"))

# ---------------------------------------------------------------- LV
M('level-not-released-stopiter', ['C35'], (AC, "            except StopIteration as exc:\n                runtime._pc_level -= 1\n                return exc.value\n\n            except Exception:\n                runtime._pc_level -= 1\n                raise\n\n        if runtime.options.no_async:",
                                       "            except StopIteration as exc:\n                return exc.value\n\n            except Exception:\n                runtime._pc_level -= 1\n                raise\n\n        if runtime.options.no_async:"))
M('reconcile-late-release', ['C35'], (AC, "    runtime._pc_level -= 1\n    if decl is None:\n        return\n", "    if decl is None:\n        return\n\n    runtime._pc_level -= 1\n"))
M('no-done-callback-level', ['C35'], (AC, "        task.add_done_callback(lambda t: _reconcile(decl, t))\n", "        task.add_done_callback(lambda t: __reconcile(decl, t.result()))\n"))
M('shutdown-wait-via-barrier', ['C35', 'C09'], (RT, "        # Wait for all parties behind a barrier.\n        while self._pc_level > self._program_counter[1]:\n            await asyncio.sleep(0)\n",
                                               "        # Wait for all parties behind a barrier.\n        await self.barrier(name='shutdown')\n"))
M('shutdown-no-wait', ['C35', 'C09'], (RT, "        # Wait for all parties behind a barrier.\n        while self._pc_level > self._program_counter[1]:\n            await asyncio.sleep(0)\n", ""))
M('shutdown-no-sync', ['C35'], (RT, "        await self.transfer(self.pid)\n\n        # Close connections", "        # Close connections"))
M('shutdown-close-all', ['C35'], (RT, "        for peer in self.parties[self.pid + 1:]:\n            peer.protocol.close_connection()", "        for peer in self.parties[self.pid + 2:]:\n            peer.protocol.close_connection()"))
M('barrier-ge', ['C35'], (RT, "            while self._pc_level > self._program_counter[1]:\n                await asyncio.sleep(0)", "            while self._pc_level >= self._program_counter[1] + 1 and False:\n                await asyncio.sleep(0)"))
M('barrier-hop-component', ['C35'], (RT, "            while self._pc_level > self._program_counter[1]:\n                await asyncio.sleep(0)", "            while self._pc_level > self._program_counter[0]:\n                await asyncio.sleep(0)"))
M('barrier-inverted-option', ['C35'], (RT, "        if not self.options.no_async:\n            while self._pc_level", "        if self.options.no_async:\n            while self._pc_level"))
M('lost-no-unset', ['C35'], (AC, "        self.runtime.unset_protocol(self.peer_pid)\n\n    def close_connection", "        pass\n\n    def close_connection"))

# ---------------------------------------------------------------- SS / MK
M('output-xcoord-shift', ['C07', 'C11', 'C01'], (RT, "points = [((self.pid - t + j) % m + 1, unmarshal(shares[j])) for j in range(t)]", "points = [((self.pid - t + j + 1) % m, unmarshal(shares[j])) for j in range(t)]"))
M('output-own-xcoord', ['C07', 'C11', 'C01'], (RT, "            points.append((self.pid + 1, x))\n            y = recombine(field, points)\n            if shape is None:\n                y = [field(a) for a in y]\n            elif self.options.mix32_64bit:\n                y = [field.array(y).reshape(shape)]\n            else:\n                y = [y.reshape(shape)]\n            if issubclass(sftype",
                                    "            points.append((self.pid, x))\n            y = recombine(field, points)\n            if shape is None:\n                y = [field(a) for a in y]\n            elif self.options.mix32_64bit:\n                y = [field.array(y).reshape(shape)]\n            else:\n                y = [y.reshape(shape)]\n            if issubclass(sftype"))
M('output-send-le-lt', ['C07', 'C11', 'C01'], (RT, "            if 0 < (peer_pid - self.pid) % m <= t:", "            if 0 < (peer_pid - self.pid) % m < t:"))
M('output-recv-other-side', ['C07', 'C11', 'C01'], (RT, "            shares = [self._receive_message((self.pid - t + j) % m) for j in range(t)]", "            shares = [self._receive_message((self.pid + 1 + j) % m) for j in range(t)]"))
M('reshare-guard-nomod', ['C07', 'C11', 'C01'], (RT, "        if (self.pid - uci) % m <= 2*t:", "        if self.pid - uci <= 2*t:"))
M('reshare-window-short', ['C07', 'C11', 'C01'], (RT, "        for peer_pid in range(uci, uci + 2*t+1):", "        for peer_pid in range(uci, uci + 2*t):"))
M('reshare-point-offbyone', ['C07', 'C11', 'C01'], (RT, "        points = [((uci + j) % m + 1, unmarshal(s)) for j, s in enumerate(shares) if s is not None]", "        points = [((uci + j + 1) % m + 1, unmarshal(s)) for j, s in enumerate(shares) if s is not None]"))
M('distribute-slot-otherpid', ['C07'], (RT, "                    if other_pid == self.pid:\n                        shares[i] = data", "                    if other_pid == self.pid:\n                        shares[other_pid] = data"))
M('transfer-cross-swapped', ['C07'], (RT, "            my_senders = senders if self.pid in receivers else []\n            my_receivers = receivers if self.pid in senders else []", "            my_senders = senders if self.pid in senders else []\n            my_receivers = receivers if self.pid in receivers else []"))
M('transfer-receivers-falsy', ['C19', 'C07'], (RT, "            if receivers is None:\n                receivers = range(m)  # default\n            receivers = [receivers] if isinstance(receivers, int) else list(receivers)\n            my_senders", "            if not receivers:\n                receivers = range(m)  # default\n            receivers = [receivers] if isinstance(receivers, int) else list(receivers)\n            my_senders"))
M('output-send-all', ['C19', 'C07'], (RT, "        for peer_pid in receivers:\n            if 0 < (peer_pid - self.pid) % m <= t:", "        for peer_pid in range(m):\n            if 0 < (peer_pid - self.pid) % m <= t:"))
M('secflt-output-all', ['C19'], ('sectypes', "        x_s = await runtime.output(x_s, receivers, threshold)", "        x_s = await runtime.output(x_s, threshold=threshold)"))
M('secgrp-output-all', ['C19'], ('secgroups', "        y = await runtime.output(x, receivers, threshold)", "        y = await runtime.output(x, threshold=threshold)"))
M('secflt-leader-any', ['C19'], ('sectypes', "            s_0 = runtime.input(s_0, senders=leader)", "            s_0 = runtime.input(s_0, senders=0)"))
M('revert-fix-transfer-none', ['C07'], (RT, "            outdata = outdata[0] if outdata else None  # NB: None for parties not receiving", "            outdata = outdata[0]"))
M('split-coeffs-hoisted', ['C13', 'C14', 'C12'], (TH, "    for h, s_h in enumerate(s):\n        if T_is_field:\n            s_h = s_h.value\n        c = [secrets.randbelow(order) for _ in range(t)]\n",
                                                  "    c = [secrets.randbelow(order) for _ in range(t)]\n    for h, s_h in enumerate(s):\n        if T_is_field:\n            s_h = s_h.value\n"))
M('split-coeffs-short', ['C13', 'C14', 'C12'], (TH, "        c = [secrets.randbelow(order) for _ in range(t)]", "        c = [secrets.randbelow(order) for _ in range(t - 1)]"))
M('split-coeffs-small', ['C13', 'C14'], (TH, "        c = [secrets.randbelow(order) for _ in range(t)]", "        c = [secrets.randbelow(2) for _ in range(t)]"))
M('split-horner-wrong', ['C13', 'C12'], (TH, "                y = (y + c_j) * i1\n            shares[i1-1][h]", "                y = y * i1 + c_j\n            shares[i1-1][h]"), why='last coefficient not multiplied by x: constant term = s + c[t-1]')
M('split-row-shift', ['C12'], (TH, "            shares[i1-1][h] = (y + s_h) % p", "            shares[i1 % m][h] = (y + s_h) % p"))
M('npsplit-order-modulus', ['C13', 'C14'], (TH, "    _randbelow = secrets.randbelow\n    order = field.order", "    _randbelow = secrets.randbelow\n    order = int(p)"))
M('npsplit-vander-degree', ['C13', 'C12', 'C14'], (TH, "N=t+1, increasing=True)", "N=t, increasing=True)"))
M('npsplit-points-int', ['C12'], (TH, "np.array([tp(i) for i in range(1, m+1)], dtype='O')", "np.arange(1, m+1, dtype='O')"))
M('distribute-options-threshold', ['C14', 'C11'], (RT, "                t = self.threshold\n                m = len(self.parties)\n                if shape is not None:", "                t = self.options.threshold\n                m = len(self.parties)\n                if shape is not None:"))
M('reshare-threshold-half', ['C14', 'C11'], (RT, "            shares = random_split(field, x, t, m)\n            for peer_pid, data in enumerate(shares):", "            shares = random_split(field, x, t // 2, m)\n            for peer_pid, data in enumerate(shares):"))
M('distribute-send-raw', ['C14'], (RT, "                    if other_pid == self.pid:\n                        shares[i] = data\n                    else:\n                        self._send_message(other_pid, data)", "                    if other_pid == self.pid:\n                        shares[i] = data\n                    else:\n                        self._send_message(other_pid, marshal(x))"))
M('lagrange-sign', ['C12'], (TH, "                coefficient_d *= (x_i - x_j)", "                coefficient_d *= (x_j - x_i)"))
M('lagrange-guard', ['C12'], (TH, "            if i != j:\n                coefficient_n", "            if i < j:\n                coefficient_n"))
M('fS-points-noshift', ['C15', 'C12'], (TH, "    points = [(0, [1])] + [(x+1, [0]) for x in range(m) if x not in S]", "    points = [(0, [1])] + [(x, [0]) for x in range(m) if x not in S]"))
M('zero-degree-d', ['C15'], (TH, "        d = m - len(S)\n        prl = prf_S(uci, n * d)", "        d = len(S) - 1\n        prl = prf_S(uci, n * d)"))
M('zero-horner-short', ['C15', 'C18'], (TH, "            for j in range(d):\n                y = (y + prl[h * d + j]) * i1", "            for j in range(1, d):\n                y = (y + prl[h * d + j]) * i1"))
M('npzero-powers', ['C15'], (TH, "    i1s = np.array([vtype(i+1)**j for j in range(1, d+1)], dtype='O')", "    i1s = np.array([vtype(i+1)**j for j in range(d)], dtype='O')"))
M('keyreader-slice', ['C15', 'C16', 'C10'], (RT, "                    self._prss_keys[subset] = data[len_packet:len_packet + 16]", "                    self._prss_keys[subset] = data[len_packet:16]"))
M('secgrp-lambda-index', ['C28'], ('secgroups', "    lambda_i = _recombination_vector(field, range(1, m+1), 0)[runtime.pid]\n    x_i = await runtime.gather(x)\n    e_i = int(lambda_i * x_i)", "    lambda_i = _recombination_vector(field, range(m), 0)[runtime.pid]\n    x_i = await runtime.gather(x)\n    e_i = int(lambda_i * x_i)"))
B('reshare-window-reordered', (RT, "        for peer_pid in range(uci, uci + 2*t+1):", "        for peer_pid in range(uci, 2*t + uci + 1):"))
B('output-guard-equivalent', (RT, "            if 0 < (peer_pid - self.pid) % m <= t:", "            if 1 <= (peer_pid - self.pid) % m <= t:"))
B('split-local-rename', (TH, "        c = [secrets.randbelow(order) for _ in range(t)]\n        # polynomial f(X) = s[h] + c[t-1] X + c[t-2] X^2 + ... + c[0] X^t\n        for i1 in range(1, m+1):\n            y = _0\n            for c_j in c:",
                         "        coefs = [secrets.randbelow(order) for _ in range(t)]\n        # polynomial f(X) = s[h] + c[t-1] X + c[t-2] X^2 + ... + c[0] X^t\n        for i1 in range(1, m+1):\n            y = _0\n            for c_j in coefs:"))

# ---------------------------------------------------------------- FX / PAI
M('add-integral-or', ['C03'], (RT, "            await self.returnType((stype, a.integral and b.integral))\n        a, b = await self.gather(a, b)\n        return a + b", "            await self.returnType((stype, a.integral or b.integral))\n        a, b = await self.gather(a, b)\n        return a + b"))
M('mul-flag-drop-a', ['C03', 'C02'], (RT, "            await self.returnType((stype, a_integral and (b_integral or z == f)))", "            await self.returnType((stype, b_integral or z == f))"))
M('in_prod-flag-any', ['C03'], (RT, "            x_integral = all(a.integral for a in x)\n            y_integral = all(a.integral for a in y)\n            await self.returnType((stype, x_integral and y_integral))", "            x_integral = any(a.integral for a in x)\n            y_integral = all(a.integral for a in y)\n            await self.returnType((stype, x_integral and y_integral))"))
M('prod-internal-or', ['C03'], (RT, "                integral[n%2:] = [integral[i] and integral[i+1] for i in range(n%2, n, 2)]", "                integral[n%2:] = [integral[i] or integral[i+1] for i in range(n%2, n, 2)]"))
M('schur-shift-and', ['C03', 'C02'], (RT, "            if f and (x_integral or y_integral):\n                x[i] >>= f  # NB: in-place rshift", "            if f and (x_integral and y_integral):\n                x[i] >>= f  # NB: in-place rshift"))
M('matrix-trunc-or', ['C03', 'C02'], (RT, "        if f and not A_integral and not B_integral:\n            C = self.trunc(C, f=f, l=stype.bit_length)", "        if f and not (A_integral and B_integral):\n            C = self.trunc(C, f=f, l=stype.bit_length)"))
M('mul-shift-unlicensed', ['C03', 'C02'], (RT, "        if f and (a_integral or b_integral) and z != f:\n            c >>= f - z  # NB: in-place rshift\n        if shb:\n            c = self._reshare(c)  # a la [GRR98]\n        if f and not (a_integral or b_integral) and z != f:\n            c = self.trunc(stype(c), f=f - z)",
                                           "        if f and z != f:\n            c >>= f - z  # NB: in-place rshift\n        if shb:\n            c = self._reshare(c)  # a la [GRR98]"))
M('mul-shift-amount', ['C03', 'C02'], (RT, "            c >>= f - z  # NB: in-place rshift\n        if shb:\n            c = self._reshare(c)  # a la [GRR98]", "            c >>= f  # NB: in-place rshift\n        if shb:\n            c = self._reshare(c)  # a la [GRR98]"))
M('sgn-no-scale', ['C03'], (RT, "                z = await self._reshare(z)\n\n        z <<= stype.frac_length\n        return z", "                z = await self._reshare(z)\n\n        return z"))
M('ctor-approx-integral', ['C03'], ('sectypes', "                    integral = value.is_integer()", "                    integral = abs(value - round(value)) < 2**-self.frac_length"))
M('ctor-int-not-true', ['C03'], ('sectypes', "            if isinstance(value, int):\n                if integral is None:\n                    integral = True\n                value = self.field(value << self.frac_length)", "            if isinstance(value, int):\n                integral = True\n                value = self.field(value << self.frac_length)"))
M('revert-fix-np_sum-initial', ['C03'], (RT, "                rettype = (sectype, a.integral and initial.integral)", "                rettype = (sectype, a.integral)"))
M('np_update-drop-value', ['C03', 'C37'], (RT, "            rettype = (stype, a.integral and value.integral, shape)", "            rettype = (stype, a.integral, shape)"))
M('mul-reshare-elif', ['C02', 'C01', 'C11'], (RT, "            c >>= f - z  # NB: in-place rshift\n        if shb:\n            c = self._reshare(c)  # a la [GRR98]", "            c >>= f - z  # NB: in-place rshift\n        elif shb:\n            c = self._reshare(c)  # a la [GRR98]"))
M('prod-no-reshare', ['C01', 'C11', 'C02'], (RT, "            x[n%2:] = await self._reshare(h)\n            if f:\n                z = []", "            x[n%2:] = h\n            if f:\n                z = []"))
M('iszero-threshold-weak', ['C01', 'C04', 'C11'], (RT, "        field_relative_size = field.order.bit_length() // self.options.sec_param\n        if field_relative_size == 0 and self.options.no_prss:\n            threshold = self.threshold  # will suffice due to reshare below\n        else:\n            threshold = 2 * self.threshold\n\n        if field_relative_size >= 2:  # large fields\n            r = self._random(field)",
                                                   "        field_relative_size = field.order.bit_length() // self.options.sec_param\n        if field_relative_size < 2 and self.options.no_prss:\n            threshold = self.threshold  # will suffice due to reshare below\n        else:\n            threshold = 2 * self.threshold\n\n        if field_relative_size >= 2:  # large fields\n            r = self._random(field)"))
M('is_zero-output-default-thr', ['C01', 'C11'], (RT, "        c = await self.output(c, threshold=2*self.threshold)\n        for i in range(k):", "        c = await self.output(c)\n        for i in range(k):"))
M('reciprocal-no-threshold', ['C04', 'C11'], (RT, "            ar = await self.output(ar, threshold=threshold)\n            if ar:", "            ar = await self.output(ar)\n            if ar:"))
M('mod-xor-on-share', ['C01', 'C11'], (RT, "            e[i] = Zp(s_sign + r_i - c_i + 3*sumXors)\n            sumXors += 1 - r_i if c_i else r_i\n        e[l] = Zp(s_sign + 1 + 3*sumXors)", "            e[i] = Zp(s_sign + r_i - c_i + 3*sumXors)\n            sumXors += r_i ^ c_i\n        e[l] = Zp(s_sign + 1 + 3*sumXors)"))
M('lsb-branch-on-share', ['C01', 'C11'], (RT, "        x = 1 - b if c.value & 1 else b  # xor", "        x = 1 - b if b.value & 1 else b  # xor"))
M('sgn-mask-dropped', ['C18'], (RT, "        c = await self.output(a_rmodl + (r_divl << l))\n        c = c.value % (1<<l)\n\n        if not EQ:", "        c = await self.output(a_rmodl)\n        c = c.value % (1<<l)\n\n        if not EQ:"))
M('sgn-mask-short', ['C18'], (RT, "        r_divl = self._random(Zp, 1<<k)\n        r_bits = await r_bits", "        r_divl = self._random(Zp, 1<<8)\n        r_bits = await r_bits"))
M('trunc-mask-short', ['C18', 'C02'], (RT, "        r_divf = self._randoms(Zp, n, 1 << k + l - f)", "        r_divf = self._randoms(Zp, n, 1 << k - f)"))
M('tobits-mask-k', ['C18'], (RT, "        r_divl = self._random(field, 1<<(stype.bit_length + k - l))\n        if self.options.no_prss:\n            r_divl = (await r_divl)[0]\n        r_divl = r_divl.value\n        a = await self.gather(a)\n        if rshift_f:", "        r_divl = self._random(field, 1<<k)\n        if self.options.no_prss:\n            r_divl = (await r_divl)[0]\n        r_divl = r_divl.value\n        a = await self.gather(a)\n        if rshift_f:"))
M('revert-fix-np_pow-bound', ['C18'], (RT, "            bound = (1<<(l + k)) // (t+1)", "            bound = 1<<(l + k) // (t+1)"))
M('revert-fix-mod-mask', ['C18'], (RT, "        r_divb = self._random(Zp, (1 << k + l) // b)  # NB: k bits beyond the range of a // b", "        r_divb = self._random(Zp, 1 << k)"))
M('reciprocal-no-blinding', ['C18'], (RT, "            ar = await self.gather(a) * r\n            threshold = 2 * self.threshold", "            ar = await self.gather(a) * 1\n            threshold = 2 * self.threshold"))
M('convert-mask-l', ['C18'], (RT, "                bound = (1<<(k + l)) // math.comb(m, t) + 1", "                bound = (1<<l) // math.comb(m, t) + 1"))
M('lsb-open-unmasked-bit', ['C18'], (RT, "        c = await self.output(a + ((1<<l) + (r << 1) + b.value))\n        x = 1 - b if c.value & 1 else b  # xor", "        c = await self.output(a + ((1<<l) + b.value))\n        x = 1 - b if c.value & 1 else b  # xor"))
B('mul-guard-demorgan', (RT, "        if f and not (a_integral or b_integral) and z != f:\n            c = self.trunc(stype(c), f=f - z)", "        if f and not a_integral and not b_integral and z != f:\n            c = self.trunc(stype(c), f=f - z)"))
B('sgn-mask-reordered', (RT, "        c = await self.output(a_rmodl + (r_divl << l))\n        c = c.value % (1<<l)\n\n        if not EQ:", "        c = await self.output((r_divl << l) + a_rmodl)\n        c = c.value % (1<<l)\n\n        if not EQ:"))
B('in_prod-flag-swapped', (RT, "            await self.returnType((stype, x_integral and y_integral))\n\n        if x is y:", "            await self.returnType((stype, y_integral and x_integral))\n\n        if x is y:"))

# ---------------------------------------------------------------- CF / PF / G1 / OP / SG
FF = 'finfields'
ST = 'sectypes'
M('revert-fix-scalar-cmp-array', ['C37'], (ST, "        # self > other <=> other < self\n        if isinstance(other, SecureArray):\n            return NotImplemented\n\n        return runtime.lt(other, self)",
                                                "        # self > other <=> other < self\n        return runtime.lt(other, self)"))
M('scalar-add-unfiltered', ['C37'], (ST, "        other = self._coerce(other)\n        if other is NotImplemented:\n            return NotImplemented\n\n        return runtime.add(self, other)",
                                          "        return runtime.add(self, other)"))
M('setup-threshold-le-half', ['C39'], (RT, "    assert 2*options.threshold < m, f'threshold", "    assert options.threshold <= m//2, f'threshold"))
M('setup-threshold-le', ['C39'], (RT, "    assert 2*options.threshold < m, f'threshold", "    assert 2*options.threshold <= m, f'threshold"))
M('setup-no-check', ['C39'], (RT, "    assert 2*options.threshold < m, f'threshold {options.threshold} too large for {m} parties'\n", ""))
M('lift-degree-m', ['C39', 'C26'], (ST, "        e = math.ceil(math.log(m+1, q))  # ensure q**e > m with e>=2", "        e = max(2, math.ceil(math.log(m, q)))  # ensure q**e > m with e>=2"))
M('lift-cond-le', ['C39', 'C26'], (ST, "    if t == 0 or m < q:  # TODO: cover case m=q using MDS codes", "    if t == 0 or m <= q:  # TODO: cover case m=q using MDS codes"))
M('lift-no-outconv', ['C39'], (ST, "        secfld._output_conversion = out_conv\n", ""))
M('pfield-accept-short', ['C26'], (ST, "    elif p.bit_length() <= l + f + k + 1:", "    elif p.bit_length() < l + f + k + 1:"))
M('pfield-request-short', ['C26'], (ST, "        p = finfields.find_prime_root(l + f + k + 2, n=n)", "        p = finfields.find_prime_root(l + f + k + 1, n=n)"))
M('prime-step-2n', ['C26'], (FF, "            p += 4*n", "            p += 2*n"))
M('prime-blum-test', ['C26'], (FF, "            while p%4 != 3:", "            while p%4 != 1:"))
M('prf-memo', ['C17'], (TH, "            dk = shake_128(self.key + s).digest(n_ * l)", "            if getattr(self, '_last', None) != s:\n                self._last, self._dk = s, shake_128(self.key + s).digest(n_ * l)\n            dk = self._dk"))
M('prf-no-mod', ['C17'], (TH, "            iterable = (from_bytes(dk[i:i + l], byteorder) % bound for i in range(0, n_ * l, l))", "            iterable = (from_bytes(dk[i:i + l], byteorder) >> 1 for i in range(0, n_ * l, l))"))
M('prf-float-pow2', ['C17'], (TH, "        if bound & (bound - 1):  # no power of 2", "        if not math.log2(bound).is_integer():  # no power of 2"), (TH, "from math import prod\n", "from math import prod\nimport math\n"))
M('prf-entropy', ['C17'], (TH, "            dk = shake_128(self.key + s).digest(n_ * l)", "            dk = shake_128(self.key + s + secrets.token_bytes(1)).digest(n_ * l)"))
M('prf-count', ['C17'], (TH, "        n_ = 1 if n is None else n", "        n_ = n or 1"))
M('secgrp-transfer-subset', ['C28'], ('secgroups', "    c = await runtime.transfer(c_i)\n", "    c = await runtime.transfer(c_i, senders=range(runtime.threshold + 1))\n"))
M('secgrp-nopc', ['C28', 'C08'], ('secgroups', "@asyncoro.mpc_coro\nasync def repeat_public_base_secret_output(a, x, secgrp):", "@asyncoro.mpc_coro_no_pc\nasync def repeat_public_base_secret_output(a, x, secgrp):"))
M('secgrp-range-m', ['C28'], ('secgroups', "    lambda_i = _recombination_vector(field, range(1, m+1), 0)[runtime.pid]\n    x_i = await runtime.gather(x)\n    e_i = [int", "    lambda_i = _recombination_vector(field, range(m), 0)[runtime.pid]\n    x_i = await runtime.gather(x)\n    e_i = [int"))
M('gfpx-rsub-swapped', ['C20', 'C23'], ('gfpx', "        return cls(cls._sub(other, self.value), check=False)", "        return cls(cls._sub(self.value, other), check=False)"))
M('ff-rsub-unswapped', ['C20'], (FF, "            return type(self)(other - self.value)\n\n        return NotImplemented\n\n    def __isub__", "            return type(self)(self.value - other)\n\n        return NotImplemented\n\n    def __isub__"))
M('ff-ilshift-unreduced', ['C20'], (FF, "        self.value <<= other\n        self.value %= self.modulus\n        return self", "        self.value <<= other\n        return self"))
M('ffa-irshift-unreduced', ['C20'], (FF, "        self.value *= self._reciprocal(1 << other)\n        self.value %= self.field.modulus\n        return self", "        self.value *= self._reciprocal(1 << other)\n        return self"))
M('pfe-init-noreduce', ['C20'], (FF, "        value = value.__mod__(self.modulus)\n        super().__init__(value)", "        super().__init__(value)"))
M('gfpx-gt-unswapped', ['C23', 'C20'], ('gfpx', '        """Strictly greater-than comparison."""\n        other = self._coerce(other)\n        if other is NotImplemented:\n            return NotImplemented\n\n        return self._lt(other, self.value)', '        """Strictly greater-than comparison."""\n        other = self._coerce(other)\n        if other is NotImplemented:\n            return NotImplemented\n\n        return self._lt(self.value, other)'))
M('bytes-width-reader', ['C22'], (FF, "        return [from_bytes(data[i:i+r], 'little') for i in range(0, len(data), r)]", "        return [from_bytes(data[i:i+r], 'big') for i in range(0, len(data), r)]"))
M('bytelen-short', ['C22'], (FF, "    GFq.byte_length = (GFq.order.bit_length() + 7) >> 3", "    GFq.byte_length = (GFq.order.bit_length() + 6) >> 3"))
M('pgf-lru', ['C22'], (FF, "@functools.cache\ndef pGF(p, n, w):", "@functools.lru_cache\ndef pGF(p, n, w):"))
M('reduce-args-order', ['C22'], (FF, "        return (PrimeFieldElement.createGF, (self.modulus, self.nth, self.root),", "        return (PrimeFieldElement.createGF, (self.modulus, self.root, self.nth),"))
M('signed-threshold', ['C22'], (FF, "        if v > self.modulus >> 1:\n            v -= self.modulus", "        if v >= self.modulus >> 2:\n            v -= self.modulus"))
M('binpoly-drop-override', ['C23'], ('gfpx', "    _sub = _add\n", "    _sub = Polynomial._sub\n"))
M('revert-fix-np_trunc', ['C37', 'C18'], (RT, "            if issubclass(sftype, self.SecureFixedPointArray):\n                l += f", "            if issubclass(sftype, self.SecureFixedPoint):\n                l += f"))
M('revert-fix-np_pow-integral-kw', ['C37'], (RT, "            if b.frac_length:\n                r_1 = type(b)(shape=(2, b.size), integral=True)\n            else:\n                r_1 = type(b)(shape=(2, b.size))", "            r_1 = type(b)(shape=(2, b.size), integral=True)"))
M('np_iszero-or', ['C37', 'C11'], (RT, "        field_relative_size = field.order.bit_length() // self.options.sec_param\n        if field_relative_size == 0 and self.options.no_prss:\n            threshold = self.threshold  # will suffice due to reshare below\n        else:\n            threshold = 2 * self.threshold\n\n        n = a.size",
                                  "        field_relative_size = field.order.bit_length() // self.options.sec_param\n        if field_relative_size == 0 or self.options.no_prss:\n            threshold = self.threshold  # will suffice due to reshare below\n        else:\n            threshold = 2 * self.threshold\n\n        n = a.size"))
M('np_sgn-mask-short', ['C37', 'C18'], (RT, "        r_divl = self._np_randoms(Zp, n, 1<<k)\n        r_bits = (await r_bits).value", "        r_divl = self._np_randoms(Zp, n, 1<<(k-8))\n        r_bits = (await r_bits).value"))
M('np_randoms-divisor', ['C37', 'C02'], (RT, "            d = t+1 if self.options.no_prss else math.comb(m, t)\n            bound = 1 << max(0, (bound // d).bit_length() - 1)  # NB: rounded power of 2\n        if self.options.no_prss:\n            uci = self._program_counter[0] % m\n            senders = tuple((uci + i) % m for i in range(t+1))  # TODO: sort out load balancing\n            if self.pid in senders:\n                x = field.array(",
                                        "            d = t+1 if self.options.no_prss else 1\n            bound = 1 << max(0, (bound // d).bit_length() - 1)  # NB: rounded power of 2\n        if self.options.no_prss:\n            uci = self._program_counter[0] % m\n            senders = tuple((uci + i) % m for i in range(t+1))  # TODO: sort out load balancing\n            if self.pid in senders:\n                x = field.array("))
M('prod-marks-misaligned', ['C03'], (RT, "integral[n%2:] = [integral[i] and integral[i+1] for i in range(n%2, n, 2)]", "integral[n%2:] = [integral[i] and integral[i+1] for i in range(0, n - 1, 2)]"),
  why='for an odd number of factors the integrality marks are combined for other pairs than the products (FX6)')
M('np_sgn-bits-oversubscribed', ['C18'], (RT, "r_bits = self.np_random_bits(Zp, (l + int(not EQ)) * n)", "r_bits = self.np_random_bits(Zp, (l + int(LT)) * n)"),
  why='for the plain sign (neither LT nor EQ) the sign masks alias the top bits of the additive mask (RB1)')
M('poly-mod-exit-leq', ['C23'], ('gfpx', "        m = len(a)\n        n = len(b)\n        if m < n:\n            return a\n", "        m = len(a)\n        n = len(b)\n        if m <= n:\n            return a\n"),
  why='operands of equal degree are returned unreduced: deg r = deg b (OP8)')
M('poly-mul-guard-longer', ['C23'], ('gfpx', "        # len(a) <= len(b)\n        if not a:\n            return []\n", "        # len(a) <= len(b)\n        if not b:\n            return []\n"),
  why='the zero test looks at the longer operand: 0 * b allocates len(b) - 1 zero coefficients, a second representation of zero (OP9)')
B('poly-sq-guard-max', ('gfpx', "        p = cls.p\n        if not a:\n            return []\n\n        c = [0] * (2*len(a) - 1)", "        p = cls.p\n        c = [0] * max(0, 2*len(a) - 1)"),
  why='squaring zero without the early exit: max(0, -1) = 0 allocates [], the same result (OP9 must stay silent)')
B('poly-mul-guard-both', ('gfpx', "        # len(a) <= len(b)\n        if not a:\n            return []\n", "        # len(a) <= len(b)\n        if not a or not b:\n            return []\n"),
  why='redundant second emptiness test: same behaviour (OP9 must stay silent)')
M('ext-rshift-raw-shift', ['C20'], (FF, "        return self * self._reciprocal(1 << other)\n", "        return type(self)(self.value >> other)\n"),
  why='a >> n drops low-order coefficients while a >>= n divides by 2**n (OP10)')
M('array-irshift-reciprocal-of-n', ['C20'], (FF, "        self.value *= self._reciprocal(1 << other)\n        self.value %= self.field.modulus", "        self.value *= self._reciprocal(other)\n        self.value %= self.field.modulus"),
  why='a >>= n divides by n, a >> n by 2**n (OP10)')
B('ext-rshift-temp', (FF, "        return self * self._reciprocal(1 << other)\n", "        r = self._reciprocal(1 << other)\n        return self * r\n"),
  why='named temporary for the reciprocal: same operation (OP10 must stay silent)')
B('prime-irshift-temp', (FF, "        self.value *= self._reciprocal2(other)\n        self.value %= self.modulus", "        inv = self._reciprocal2(other)\n        self.value = self.value * inv\n        self.value %= self.modulus"),
  why='in-place shift written as plain assignment with a temporary (OP10 must stay silent)')
B('poly-mul-lengths-named', ('gfpx', "        if len(a) > len(b):\n            a, b = b, a\n        # len(a) <= len(b)\n        if not a:\n            return []\n\n        c = [0] * (len(a) + len(b) - 1)",
                                     "        m, n = len(a), len(b)\n        if n < m:\n            a, b, m, n = b, a, n, m\n        if m == 0:\n            return []\n\n        c = [0] * (m + n - 1)"),
  why='lengths held in locals that follow the swap; emptiness tested as m == 0 (OP9 must stay silent)')
B('poly-mul-zero-first', ('gfpx', "        p = cls.p\n        if len(a) > len(b):\n            a, b = b, a\n        # len(a) <= len(b)\n        if not a:\n            return []\n",
                                  "        p = cls.p\n        if not a or not b:\n            return []\n\n        if len(a) > len(b):\n            a, b = b, a\n"),
  why='both operands tested for zero before the swap (OP9 must stay silent)')
M('poly-mul-zero-first-only-a', ['C23'], ('gfpx', "        p = cls.p\n        if len(a) > len(b):\n            a, b = b, a\n        # len(a) <= len(b)\n        if not a:\n            return []\n",
                                          "        p = cls.p\n        if not a:\n            return []\n\n        if len(a) > len(b):\n            a, b = b, a\n"),
  why='the zero test runs before the swap and sees the first operand only: b = 0 with a longer a allocates len(a) - 1 zeros (OP9)')
M('sqrt-chunks-by-completion', ['C37'], (FF, "                    tasks = {executor.submit(gmpy2.powmod_base_list, s[i*n//W:(i+1)*n//W], p4, p): i\n                             for i in range(W)}\n                s = np.empty(n, dtype='O')\n                for task in concurrent.futures.as_completed(tasks):\n                    i = tasks[task]\n",
                                             "                    tasks = [executor.submit(gmpy2.powmod_base_list, s[i*n//W:(i+1)*n//W], p4, p)\n                             for i in range(W)]\n                s = np.empty(n, dtype='O')\n                i = -1\n                for task in concurrent.futures.as_completed(tasks):\n                    i += 1\n"),
  why='chunk position from a running counter of completions (WK1)')
B('sqrt-chunks-bounds-lookup', (FF, "                    tasks = {executor.submit(gmpy2.powmod_base_list, s[i*n//W:(i+1)*n//W], p4, p): i\n                             for i in range(W)}\n                s = np.empty(n, dtype='O')\n                for task in concurrent.futures.as_completed(tasks):\n                    i = tasks[task]\n                    s[i*n//W:(i+1)*n//W] = task.result()",
                                    "                    tasks = {executor.submit(gmpy2.powmod_base_list, s[i*n//W:(i+1)*n//W], p4, p): (i*n//W, (i+1)*n//W)\n                             for i in range(W)}\n                s = np.empty(n, dtype='O')\n                for done in concurrent.futures.as_completed(tasks):\n                    lo, hi = tasks[done]\n                    s[lo:hi] = done.result()"),
  why='chunk bounds stored with the future and looked up on completion (WK1 must stay silent)')
B('sqrt-chunks-submission-order', (FF, "                    tasks = {executor.submit(gmpy2.powmod_base_list, s[i*n//W:(i+1)*n//W], p4, p): i\n                             for i in range(W)}\n                s = np.empty(n, dtype='O')\n                for task in concurrent.futures.as_completed(tasks):\n                    i = tasks[task]\n                    s[i*n//W:(i+1)*n//W] = task.result()",
                                       "                    tasks = [executor.submit(gmpy2.powmod_base_list, s[i*n//W:(i+1)*n//W], p4, p)\n                             for i in range(W)]\n                s = np.empty(n, dtype='O')\n                for i, task in enumerate(tasks):\n                    s[i*n//W:(i+1)*n//W] = task.result()"),
  why='results taken in submission order (no as_completed at all): same array (WK1 must stay silent, count 0)')
B('poly-mul-short-long', ('gfpx', "        if len(a) > len(b):\n            a, b = b, a\n        # len(a) <= len(b)\n        if not a:\n            return []\n\n        c = [0] * (len(a) + len(b) - 1)\n        for i, a_i in enumerate(a):\n            if a_i:\n                for j, b_j in enumerate(b):",
                                  "        short, long = (b, a) if len(a) > len(b) else (a, b)\n        if not short:\n            return []\n\n        c = [0] * (len(short) + len(long) - 1)\n        for i, a_i in enumerate(short):\n            if a_i:\n                for j, b_j in enumerate(long):"),
  why='operands ordered by a conditional expression over tuples (held-out R43-3; OP9 must stay silent)')
M('poly-mul-short-long-wrong-test', ['C23'], ('gfpx', "        if len(a) > len(b):\n            a, b = b, a\n        # len(a) <= len(b)\n        if not a:\n            return []\n\n        c = [0] * (len(a) + len(b) - 1)\n        for i, a_i in enumerate(a):\n            if a_i:\n                for j, b_j in enumerate(b):",
                                  "        short, long = (b, a) if len(a) > len(b) else (a, b)\n        if not long:\n            return []\n\n        c = [0] * (len(short) + len(long) - 1)\n        for i, a_i in enumerate(short):\n            if a_i:\n                for j, b_j in enumerate(long):"),
  why='same ordering, zero test on the longer operand (OP9)')
M('normalize-identity-not-selected', ['C28'], ('secgroups', "            c = zis0.if_else([field(0), field(1)], [x, y])\n            c = runtime.scalar_mul(z_inv, c)\n", "            c = runtime.scalar_mul(z_inv, [x, y])\n"),
  why='a computed identity (0 : y : 0) is normalised to (0, y, 0) instead of (0, 1, 0): equality with the identity fails (ID1)')
B('normalize-identity-per-coordinate', ('secgroups', "            c = zis0.if_else([field(0), field(1)], [x, y])\n            c = runtime.scalar_mul(z_inv, c)\n            return cls(c + [1 - zis0])",
                                        "            x0 = zis0.if_else(field(0), x)\n            y0 = zis0.if_else(field(1), y)\n            xy = runtime.scalar_mul(z_inv, [x0, y0])\n            one_or_zero = 1 - zis0\n            return cls(xy + [one_or_zero])"),
  why='selection per coordinate with temporaries (ID1 must stay silent)')
B('normalize-identity-arith-mask', ('secgroups', "            c = zis0.if_else([field(0), field(1)], [x, y])\n", "            nz = 1 - zis0\n            c = [x * nz, y * nz + zis0]\n"),
  why='arithmetic selection instead of if_else: same values (ID1 must stay silent)')
M('powmod-negative-not-negated', ['C23'], ('gfpx', "            a = cls._invert(a, modulus)\n            n = -n\n        b = a\n", "            a = cls._invert(a, modulus)\n        b = a\n"),
  why='negative exponent scanned in two\'s complement after the inversion (SR1)')
B('powmod-negative-abs', ('gfpx', "            a = cls._invert(a, modulus)\n            n = -n\n        b = a\n", "            a = cls._invert(a, modulus)\n            n = abs(n)\n        b = a\n"),
  why='abs(n) for -n under n < 0 (SR1 must stay silent)')
M('matrix_pow-negative-not-negated', ['C20'], (FF, "            A = np.linalg.inv(A)\n            n = -n\n", "            A = np.linalg.inv(A)\n"),
  why='negative matrix exponent scanned in two\'s complement after the inversion (SR1)')
