"""Developer tool: metamorphic sweeps.  For every function that some check analyses, build a variant of its module in which ONE
kind of behaviour-preserving rewriting is applied to that function everywhere it applies, and run the checks that analyse the
function.  Every alarm (exit 1) or analysis error (exit 2) on such a variant is a false alarm of the checker.

    python -m mpv.metatest <kind> [Cxx ...] [function-substring ...]

kinds:  flip     if C: A else: B          ->  if not C: B else: A                      (every if with an else branch)
        orient   a < b                    ->  b > a                                      (call-free operands only)
        tmptest  if C: ...                ->  _c1 = C; if _c1: ...                       (first `if` of each block; not elif)
        ifexp    x = A if C else B        ->  if C: x = A else: x = B                    (statement level, one name target)
        unifexp  if C: x = A else: x = B  ->  x = A if C else B                          (both branches one assignment to one name)
        rename   every local v            ->  v_rn                                       (see renametest.py)
"""
import ast
import copy
import json
import os
import sys
from concurrent.futures import ProcessPoolExecutor

from .core import load_sources, REPO
from .mutants import _run_one
from .props import PROPS
from .renametest import rename_locals, _functions

VERIF = os.path.dirname(os.path.dirname(os.path.abspath(__file__)))


class Flip(ast.NodeTransformer):
    n = 0

    def visit_If(self, node):
        self.generic_visit(node)
        if node.orelse:
            self.n += 1
            t = node.test
            nt = t.operand if isinstance(t, ast.UnaryOp) and isinstance(t.op, ast.Not) else ast.UnaryOp(op=ast.Not(), operand=t)
            return ast.copy_location(ast.If(test=nt, body=node.orelse, orelse=node.body), node)
        return node


class Orient(ast.NodeTransformer):
    n = 0
    M = {ast.Lt: ast.Gt, ast.Gt: ast.Lt, ast.LtE: ast.GtE, ast.GtE: ast.LtE}

    def visit_Compare(self, node):
        self.generic_visit(node)
        if len(node.ops) == 1 and type(node.ops[0]) in self.M and not any(isinstance(x, (ast.Call, ast.Await, ast.NamedExpr)) for x in ast.walk(node)):
            self.n += 1
            return ast.copy_location(ast.Compare(left=node.comparators[0], ops=[self.M[type(node.ops[0])]()], comparators=[node.left]), node)
        return node


class TmpTest(ast.NodeTransformer):
    """hoist the test of an `if` statement into a fresh temporary (only ifs that are direct statements of a block, not elif arms)"""
    n = 0

    def _block(self, stmts):
        out = []
        for s in stmts:
            s = self.visit(s)
            if isinstance(s, ast.If) and not any(isinstance(x, (ast.NamedExpr, ast.Await)) for x in ast.walk(s.test)):
                self.n += 1
                nm = f'_c{self.n}'
                out.append(ast.copy_location(ast.Assign(targets=[ast.Name(id=nm, ctx=ast.Store())], value=s.test), s))
                s.test = ast.Name(id=nm, ctx=ast.Load())
            out.append(s)
        return out

    def generic_visit(self, node):
        for f in ('body', 'orelse', 'finalbody'):
            b = getattr(node, f, None)
            if isinstance(b, list) and b and isinstance(b[0], ast.stmt):
                if f == 'orelse' and isinstance(node, ast.If) and len(b) == 1 and isinstance(b[0], ast.If):
                    b[0] = self.visit_elif(b[0])      # an elif arm: its test must stay where it is
                else:
                    setattr(node, f, self._block(b))
        for h in getattr(node, 'handlers', []) or []:
            h.body = self._block(h.body)
        return node

    def visit_elif(self, node):
        self.generic_visit(node)
        return node

    def visit_Lambda(self, node):
        return node

    visit_ListComp = visit_SetComp = visit_DictComp = visit_GeneratorExp = visit_Lambda


class IfExpLift(ast.NodeTransformer):
    n = 0

    def visit_Assign(self, node):
        if len(node.targets) == 1 and isinstance(node.targets[0], ast.Name) and isinstance(node.value, ast.IfExp):
            v = node.value
            if not any(isinstance(x, ast.Name) and x.id == node.targets[0].id for x in ast.walk(v.test)):
                self.n += 1
                mk = lambda e: ast.copy_location(ast.Assign(targets=[ast.Name(id=node.targets[0].id, ctx=ast.Store())], value=e), node)
                return ast.copy_location(ast.If(test=v.test, body=[mk(v.body)], orelse=[mk(v.orelse)]), node)
        return node


class IfExpUnlift(ast.NodeTransformer):
    n = 0

    def visit_If(self, node):
        self.generic_visit(node)
        b, o = node.body, node.orelse
        if len(b) == 1 and len(o) == 1 and isinstance(b[0], ast.Assign) and isinstance(o[0], ast.Assign) and len(b[0].targets) == 1 == len(o[0].targets) \
                and isinstance(b[0].targets[0], ast.Name) and isinstance(o[0].targets[0], ast.Name) and b[0].targets[0].id == o[0].targets[0].id \
                and not any(isinstance(x, (ast.Await, ast.Yield)) for x in ast.walk(node)):
            self.n += 1
            return ast.copy_location(ast.Assign(targets=[ast.Name(id=b[0].targets[0].id, ctx=ast.Store())],
                                                value=ast.IfExp(test=node.test, body=b[0].value, orelse=o[0].value)), node)
        return node


KINDS = {'flip': Flip, 'orient': Orient, 'tmptest': TmpTest, 'ifexp': IfExpLift, 'unifexp': IfExpUnlift}


def rewrite(src, fn, kind):
    """module source with function fn rewritten by the transformer of `kind` (the function is re-printed by ast.unparse)"""
    if kind == 'rename':
        return rename_locals(src, fn)
    tr = KINDS[kind]()
    new = tr.visit(copy.deepcopy(fn))
    if not tr.n:
        return None
    ast.fix_missing_locations(new)
    text = ast.unparse(new)
    lines = src.splitlines(keepends=True)
    first = min([fn.lineno] + [d.lineno for d in fn.decorator_list])
    indent = ' ' * fn.col_offset
    body = ''.join(indent + l + '\n' if l.strip() else '\n' for l in text.splitlines())
    out = ''.join(lines[:first - 1]) + body + ''.join(lines[fn.end_lineno:])
    try:
        ast.parse(out)
    except SyntaxError:
        return None
    return out


def main(argv):
    if not argv or (argv[0] not in KINDS and argv[0] != 'rename'):
        print(__doc__)
        return 2
    kind, argv = argv[0], argv[1:]
    props = [p for p in argv if p in PROPS] or sorted(PROPS)
    only = [a for a in argv if a not in PROPS]
    wanted = {}
    for pid in props:
        try:
            ev = json.load(open(os.path.join(VERIF, 'evidence', f'{pid}.json')))
        except Exception:
            continue
        for c in ev['coverage'].get('constructs_analysed', []):
            f, q = c.split('::', 1)
            mod = os.path.basename(f)[:-3]
            top = '.'.join(q.split('.')[:2]) if q.split('.')[0][0].isupper() else q.split('.')[0]
            wanted.setdefault((mod, top), set()).add(pid)
    sources = load_sources(REPO)
    jobs, idx = [], []
    for mod, src in sorted(sources.items()):
        tree = ast.parse(src)
        for q, node in _functions(tree):
            pids = wanted.get((mod, q))
            if not pids or (only and not any(o in f'{mod}::{q}' for o in only)):
                continue
            new = rewrite(src, node, kind)
            if new is None:
                continue
            for pid in sorted(pids):
                jobs.append((pid, {mod: new}))
                idx.append((mod, q, pid))
    print(f'{kind}: {len({(m, q) for m, q, _ in idx})} functions rewritten, {len(jobs)} check runs')
    with ProcessPoolExecutor(max_workers=min(16, os.cpu_count() or 4)) as ex:
        res = list(ex.map(_run_one, jobs, chunksize=2))
    bad = {}
    for (mod, q, pid), (code, hits) in zip(idx, res):
        if code != 0:
            bad.setdefault((mod, q), []).append((pid, code, hits[:2]))
    for (mod, q), v in sorted(bad.items()):
        print(f'{mod}::{q}: ALARM')
        for pid, code, hits in v:
            print(f'     {pid} exit={code} {hits}')
    print(f'{kind}: {len(bad)} functions whose rewritten variant makes a check alarm')
    return 1 if bad else 0


if __name__ == '__main__':
    sys.exit(main(sys.argv[1:]))
