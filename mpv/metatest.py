"""Developer tool: metamorphic sweeps.  For every function that some check analyses, build a variant of its module in which ONE
kind of behaviour-preserving rewriting is applied to that function everywhere it applies, and run the checks that analyse the
function.  Every alarm (exit 1) or analysis error (exit 2) on such a variant is a false alarm of the checker.

    python -m mpv.metatest <kind> [Cxx ...] [function-substring ...]

kinds:  flip     if C: A else: B          ->  if not C: B else: A                      (every if with an else branch)
        orient   a < b                    ->  b > a                                      (call-free operands only)
        tmptest  if C: ...                ->  _c1 = C; if _c1: ...                       (first `if` of each block; not elif)
        ifexp    x = A if C else B        ->  if C: x = A else: x = B                    (statement level, one name target)
        unifexp  if C: x = A else: x = B  ->  x = A if C else B                          (both branches one assignment to one name)
        rename   every local v            ->  v_rn                                       (see renametest.py)
        comp2loop / loop2comp   x = [E for v in it if c]  <->  x = []; for v in it: if c: x.append(E)
        unelse / addelse   if C: ..; return  else: B  <->  if C: ..; return   B
        earlyexit  trailing `if C: A` of a loop / function body  ->  `if not C: continue / return`; A
        nestand / andnest   if A and B: X  <->  if A: if B: X
        demorgan   not (a and b) <-> not a or not b
        tmpexpr    f(a + 1), x[i - 1]     ->  _e = a + 1; f(_e)                          (call-free arithmetic operands)
        rangeoff   for i in range(a, b)   ->  for i_0 in range(b - a): i = i_0 + a
        whiletrue  while C: B             ->  while True: if not C: break; B
        tuplesplit / tuplemerge   a, b = X, Y  <->  a = X; b = Y
        k1+k2[+k3]  the kinds applied one after the other to the same function (only functions to which all of them apply)
"""
import ast
import copy
import json
import os
import sys
from concurrent.futures import ProcessPoolExecutor

from .core import load_sources, REPO
from .mutants import _run_one
from .props import PROPS
from .renametest import rename_locals, _functions

VERIF = os.path.dirname(os.path.dirname(os.path.abspath(__file__)))


class Flip(ast.NodeTransformer):
    n = 0

    def visit_If(self, node):
        self.generic_visit(node)
        if node.orelse:
            self.n += 1
            t = node.test
            nt = t.operand if isinstance(t, ast.UnaryOp) and isinstance(t.op, ast.Not) else ast.UnaryOp(op=ast.Not(), operand=t)
            return ast.copy_location(ast.If(test=nt, body=node.orelse, orelse=node.body), node)
        return node


class Orient(ast.NodeTransformer):
    n = 0
    M = {ast.Lt: ast.Gt, ast.Gt: ast.Lt, ast.LtE: ast.GtE, ast.GtE: ast.LtE}

    def visit_Compare(self, node):
        self.generic_visit(node)
        if len(node.ops) == 1 and type(node.ops[0]) in self.M and not any(isinstance(x, (ast.Call, ast.Await, ast.NamedExpr)) for x in ast.walk(node)):
            self.n += 1
            return ast.copy_location(ast.Compare(left=node.comparators[0], ops=[self.M[type(node.ops[0])]()], comparators=[node.left]), node)
        return node


class TmpTest(ast.NodeTransformer):
    """hoist the test of an `if` statement into a fresh temporary (only ifs that are direct statements of a block, not elif arms)"""
    n = 0

    def _block(self, stmts):
        out = []
        for s in stmts:
            s = self.visit(s)
            if isinstance(s, ast.If) and not any(isinstance(x, (ast.NamedExpr, ast.Await)) for x in ast.walk(s.test)):
                self.n += 1
                nm = f'_c{self.n}'
                out.append(ast.copy_location(ast.Assign(targets=[ast.Name(id=nm, ctx=ast.Store())], value=s.test), s))
                s.test = ast.Name(id=nm, ctx=ast.Load())
            out.append(s)
        return out

    def generic_visit(self, node):
        for f in ('body', 'orelse', 'finalbody'):
            b = getattr(node, f, None)
            if isinstance(b, list) and b and isinstance(b[0], ast.stmt):
                if f == 'orelse' and isinstance(node, ast.If) and len(b) == 1 and isinstance(b[0], ast.If):
                    b[0] = self.visit_elif(b[0])      # an elif arm: its test must stay where it is
                else:
                    setattr(node, f, self._block(b))
        for h in getattr(node, 'handlers', []) or []:
            h.body = self._block(h.body)
        return node

    def visit_elif(self, node):
        self.generic_visit(node)
        return node

    def visit_Lambda(self, node):
        return node

    visit_ListComp = visit_SetComp = visit_DictComp = visit_GeneratorExp = visit_Lambda


class IfExpLift(ast.NodeTransformer):
    n = 0

    def visit_Assign(self, node):
        if len(node.targets) == 1 and isinstance(node.targets[0], ast.Name) and isinstance(node.value, ast.IfExp):
            v = node.value
            if not any(isinstance(x, ast.Name) and x.id == node.targets[0].id for x in ast.walk(v.test)):
                self.n += 1
                mk = lambda e: ast.copy_location(ast.Assign(targets=[ast.Name(id=node.targets[0].id, ctx=ast.Store())], value=e), node)
                return ast.copy_location(ast.If(test=v.test, body=[mk(v.body)], orelse=[mk(v.orelse)]), node)
        return node


class IfExpUnlift(ast.NodeTransformer):
    n = 0

    def visit_If(self, node):
        self.generic_visit(node)
        b, o = node.body, node.orelse
        if len(b) == 1 and len(o) == 1 and isinstance(b[0], ast.Assign) and isinstance(o[0], ast.Assign) and len(b[0].targets) == 1 == len(o[0].targets) \
                and isinstance(b[0].targets[0], ast.Name) and isinstance(o[0].targets[0], ast.Name) and b[0].targets[0].id == o[0].targets[0].id \
                and not any(isinstance(x, (ast.Await, ast.Yield)) for x in ast.walk(node)):
            self.n += 1
            return ast.copy_location(ast.Assign(targets=[ast.Name(id=b[0].targets[0].id, ctx=ast.Store())],
                                                value=ast.IfExp(test=node.test, body=b[0].value, orelse=o[0].value)), node)
        return node


def _stored_names(fn):
    return {n.id for n in ast.walk(fn) if isinstance(n, ast.Name) and isinstance(n.ctx, (ast.Store, ast.Del))} | \
        {a.arg for f in ast.walk(fn) if isinstance(f, (ast.FunctionDef, ast.AsyncFunctionDef, ast.Lambda)) for a in f.args.args + f.args.kwonlyargs + f.args.posonlyargs}


class _BlockRewriter(ast.NodeTransformer):
    """base: rewrite statement lists (body / orelse / finalbody / handlers) through self.block(stmts, owner, field)"""
    n = 0

    def generic_visit(self, node):
        super().generic_visit(node)
        for f in ('body', 'orelse', 'finalbody'):
            b = getattr(node, f, None)
            if isinstance(b, list) and b and isinstance(b[0], ast.stmt):
                setattr(node, f, self.block(b, node, f))
        return node

    def visit_Lambda(self, node):
        return node


class Comp2Loop(_BlockRewriter):
    """x = [E for v in it if c]  ->  x = []; for v in it: if c: x.append(E)     (one generator; v not otherwise bound in the function)"""

    def __init__(self, fn):
        self.fn = fn
        self.counts = {}
        for n in ast.walk(fn):
            if isinstance(n, ast.Name) and isinstance(n.ctx, ast.Store):
                self.counts[n.id] = self.counts.get(n.id, 0) + 1
        self.params = {a.arg for f in ast.walk(fn) if isinstance(f, (ast.FunctionDef, ast.AsyncFunctionDef, ast.Lambda))
                       for a in f.args.args + f.args.kwonlyargs + f.args.posonlyargs}

    def block(self, stmts, owner, field):
        out = []
        for s in stmts:
            if isinstance(s, ast.Assign) and len(s.targets) == 1 and isinstance(s.targets[0], ast.Name) and isinstance(s.value, ast.ListComp) \
                    and len(s.value.generators) == 1 and not s.value.generators[0].is_async:
                g = s.value.generators[0]
                x = s.targets[0].id
                tv = [n.id for n in ast.walk(g.target) if isinstance(n, ast.Name)]
                inner = [n for n in ast.walk(s.value) if isinstance(n, (ast.ListComp, ast.GeneratorExp, ast.SetComp, ast.DictComp, ast.Lambda, ast.Await, ast.NamedExpr))]
                uses_x = any(isinstance(n, ast.Name) and n.id == x for n in ast.walk(s.value))
                if len(inner) == 1 and not uses_x:
                    self.n += 1
                    # the loop variable of a `for` statement is visible afterwards, that of a comprehension is not: use fresh names
                    ren = {v: f'{v}_c{self.n}' for v in tv}

                    class Rn(ast.NodeTransformer):
                        def visit_Name(self, n):
                            return ast.copy_location(ast.Name(id=ren.get(n.id, n.id), ctx=n.ctx), n)
                    it = g.iter
                    g = ast.comprehension(target=Rn().visit(g.target), iter=it, ifs=[Rn().visit(c) for c in g.ifs], is_async=0)
                    s = ast.copy_location(ast.Assign(targets=s.targets, value=ast.ListComp(elt=Rn().visit(s.value.elt), generators=[g])), s)
                    app = ast.Expr(value=ast.Call(func=ast.Attribute(value=ast.Name(id=x, ctx=ast.Load()), attr='append', ctx=ast.Load()), args=[s.value.elt], keywords=[]))
                    body = [app]
                    for c in reversed(g.ifs):
                        body = [ast.If(test=c, body=body, orelse=[])]
                    out.append(ast.copy_location(ast.Assign(targets=[ast.Name(id=x, ctx=ast.Store())], value=ast.List(elts=[], ctx=ast.Load())), s))
                    out.append(ast.copy_location(ast.For(target=g.target, iter=g.iter, body=body, orelse=[]), s))
                    continue
            out.append(s)
        return out


class Loop2Comp(_BlockRewriter):
    """x = []; for v in it: [if c:] x.append(E)   ->   x = [E for v in it if c]      (v not used after the loop)"""

    def __init__(self, fn):
        self.fn = fn

    def block(self, stmts, owner, field):
        out = []
        i = 0
        while i < len(stmts):
            s = stmts[i]
            nx = stmts[i + 1] if i + 1 < len(stmts) else None
            if isinstance(s, ast.Assign) and len(s.targets) == 1 and isinstance(s.targets[0], ast.Name) and isinstance(s.value, ast.List) and not s.value.elts \
                    and isinstance(nx, ast.For) and not nx.orelse and len(nx.body) == 1:
                x = s.targets[0].id
                b, ifs = nx.body[0], []
                while isinstance(b, ast.If) and not b.orelse and len(b.body) == 1:
                    ifs.append(b.test)
                    b = b.body[0]
                tv = {n.id for n in ast.walk(nx.target) if isinstance(n, ast.Name)}
                if isinstance(b, ast.Expr) and isinstance(b.value, ast.Call) and isinstance(b.value.func, ast.Attribute) and b.value.func.attr == 'append' \
                        and isinstance(b.value.func.value, ast.Name) and b.value.func.value.id == x and len(b.value.args) == 1 \
                        and not any(isinstance(n, (ast.Await, ast.NamedExpr, ast.Yield)) for n in ast.walk(nx)) \
                        and not any(isinstance(n, ast.Name) and n.id == x for e in [b.value.args[0], nx.iter] + ifs for n in ast.walk(e)) \
                        and not any(isinstance(n, ast.Name) and n.id in tv and not any(n is y for y in ast.walk(nx)) for n in ast.walk(self.fn)):
                    self.n += 1
                    comp = ast.ListComp(elt=b.value.args[0], generators=[ast.comprehension(target=nx.target, iter=nx.iter, ifs=ifs, is_async=0)])
                    out.append(ast.copy_location(ast.Assign(targets=[ast.Name(id=x, ctx=ast.Store())], value=comp), s))
                    i += 2
                    continue
            out.append(s)
            i += 1
        return out


class UnElse(_BlockRewriter):
    """if C: ...; return/raise/continue/break  else: B   ->   if C: ...; return   B"""

    def block(self, stmts, owner, field):
        out = []
        for s in stmts:
            if isinstance(s, ast.If) and s.orelse and s.body and isinstance(s.body[-1], (ast.Return, ast.Raise, ast.Continue, ast.Break)):
                self.n += 1
                out.append(ast.copy_location(ast.If(test=s.test, body=s.body, orelse=[]), s))
                out.extend(s.orelse)
            else:
                out.append(s)
        return out


class AddElse(_BlockRewriter):
    """if C: ...; return/raise/continue/break   B   ->   if C: ...; return  else: B"""

    def block(self, stmts, owner, field):
        for k, s in enumerate(stmts):
            if isinstance(s, ast.If) and not s.orelse and s.body and isinstance(s.body[-1], (ast.Return, ast.Raise, ast.Continue, ast.Break)) and stmts[k + 1:] \
                    and not any(isinstance(x, (ast.FunctionDef, ast.AsyncFunctionDef, ast.ClassDef)) for x in stmts[k + 1:]):
                self.n += 1
                return stmts[:k] + [ast.copy_location(ast.If(test=s.test, body=s.body, orelse=stmts[k + 1:]), s)]
        return stmts


class EarlyExit(_BlockRewriter):
    """last statement of a loop body `if C: A` (no else)  ->  `if not C: continue; A`; of a function body -> `if not C: return; A`"""

    def block(self, stmts, owner, field):
        if field == 'body' and isinstance(owner, (ast.For, ast.While, ast.FunctionDef, ast.AsyncFunctionDef)) and stmts:
            s = stmts[-1]
            is_fn = isinstance(owner, (ast.FunctionDef, ast.AsyncFunctionDef))
            if isinstance(s, ast.If) and not s.orelse and not (is_fn and any(isinstance(n, (ast.Yield, ast.YieldFrom)) for n in ast.walk(owner))) \
                    and not (isinstance(owner, (ast.For, ast.While)) and owner.orelse):
                self.n += 1
                t = s.test
                nt = t.operand if isinstance(t, ast.UnaryOp) and isinstance(t.op, ast.Not) else ast.UnaryOp(op=ast.Not(), operand=t)
                ex = ast.Return(value=None) if is_fn else ast.Continue()
                return stmts[:-1] + [ast.copy_location(ast.If(test=nt, body=[ex], orelse=[]), s)] + s.body
        return stmts


class NestAnd(_BlockRewriter):
    """if A and B: X  (no else)  ->  if A: if B: X"""

    def block(self, stmts, owner, field):
        out = []
        for s in stmts:
            if isinstance(s, ast.If) and not s.orelse and isinstance(s.test, ast.BoolOp) and isinstance(s.test.op, ast.And) and not (
                    field == 'orelse' and isinstance(owner, ast.If) and len(stmts) == 1):
                self.n += 1
                vs = s.test.values
                inner = ast.If(test=vs[-1] if len(vs) == 2 else ast.BoolOp(op=ast.And(), values=vs[1:]), body=s.body, orelse=[])
                out.append(ast.copy_location(ast.If(test=vs[0], body=[inner], orelse=[]), s))
            else:
                out.append(s)
        return out


class AndNest(_BlockRewriter):
    """if A: if B: X  (no else on either)  ->  if A and B: X"""

    def block(self, stmts, owner, field):
        out = []
        for s in stmts:
            if isinstance(s, ast.If) and not s.orelse and len(s.body) == 1 and isinstance(s.body[0], ast.If) and not s.body[0].orelse \
                    and not any(isinstance(n, ast.NamedExpr) for n in ast.walk(s.test)):
                self.n += 1
                out.append(ast.copy_location(ast.If(test=ast.BoolOp(op=ast.And(), values=[s.test, s.body[0].test]), body=s.body[0].body, orelse=[]), s))
            else:
                out.append(s)
        return out


class WhileTrue(ast.NodeTransformer):
    """while C: B  (no else, C not a constant)  ->  while True: if not C: break; B"""
    n = 0

    def visit_While(self, node):
        self.generic_visit(node)
        if not node.orelse and not isinstance(node.test, ast.Constant) and not any(isinstance(x, ast.NamedExpr) for x in ast.walk(node.test)):
            self.n += 1
            t = node.test
            nt = t.operand if isinstance(t, ast.UnaryOp) and isinstance(t.op, ast.Not) else ast.UnaryOp(op=ast.Not(), operand=t)
            brk = ast.If(test=nt, body=[ast.Break()], orelse=[])
            return ast.copy_location(ast.While(test=ast.Constant(value=True), body=[brk] + node.body, orelse=[]), node)
        return node


class TupleSplit(_BlockRewriter):
    """a, b = X, Y  ->  a = X; b = Y   (names only; no later value reads an earlier target)"""

    def block(self, stmts, owner, field):
        out = []
        for s in stmts:
            if isinstance(s, ast.Assign) and len(s.targets) == 1 and isinstance(s.targets[0], ast.Tuple) and isinstance(s.value, ast.Tuple) \
                    and len(s.targets[0].elts) == len(s.value.elts) and all(isinstance(t, ast.Name) for t in s.targets[0].elts) \
                    and not any(isinstance(x, (ast.Await, ast.Call, ast.Starred)) for x in ast.walk(s.value)):
                tg, vs = s.targets[0].elts, s.value.elts
                if all(not ({x.id for x in ast.walk(vs[k]) if isinstance(x, ast.Name)} & {t.id for t in tg[:k]}) for k in range(1, len(vs))):
                    self.n += 1
                    out.extend(ast.copy_location(ast.Assign(targets=[t], value=v), s) for t, v in zip(tg, vs))
                    continue
            out.append(s)
        return out


class TupleMerge(_BlockRewriter):
    """a = X; b = Y  (consecutive, names, call-free, Y does not read a, X does not read b)  ->  a, b = X, Y"""

    def block(self, stmts, owner, field):
        out = []
        i = 0
        while i < len(stmts):
            s = stmts[i]
            nx = stmts[i + 1] if i + 1 < len(stmts) else None

            def simple(z):
                return isinstance(z, ast.Assign) and len(z.targets) == 1 and isinstance(z.targets[0], ast.Name) \
                    and not any(isinstance(x, (ast.Await, ast.Call, ast.Lambda, ast.NamedExpr, ast.Yield)) for x in ast.walk(z.value))
            if simple(s) and simple(nx) and s.targets[0].id != nx.targets[0].id \
                    and s.targets[0].id not in {x.id for x in ast.walk(nx.value) if isinstance(x, ast.Name)} \
                    and nx.targets[0].id not in {x.id for x in ast.walk(s.value) if isinstance(x, ast.Name)}:
                self.n += 1
                out.append(ast.copy_location(ast.Assign(targets=[ast.Tuple(elts=[s.targets[0], nx.targets[0]], ctx=ast.Store())],
                                                        value=ast.Tuple(elts=[s.value, nx.value], ctx=ast.Load())), s))
                i += 2
                continue
            out.append(s)
            i += 1
        return out


class DeMorgan(ast.NodeTransformer):
    """not (a and b) -> not a or not b;  not (a or b) -> not a and not b;  and the converse for `not a or not b`"""
    n = 0

    def visit_UnaryOp(self, node):
        self.generic_visit(node)
        if isinstance(node.op, ast.Not) and isinstance(node.operand, ast.BoolOp):
            self.n += 1
            b = node.operand
            neg = [v.operand if isinstance(v, ast.UnaryOp) and isinstance(v.op, ast.Not) else ast.UnaryOp(op=ast.Not(), operand=v) for v in b.values]
            return ast.copy_location(ast.BoolOp(op=ast.Or() if isinstance(b.op, ast.And) else ast.And(), values=neg), node)
        return node

    def visit_BoolOp(self, node):
        self.generic_visit(node)
        if all(isinstance(v, ast.UnaryOp) and isinstance(v.op, ast.Not) for v in node.values):
            self.n += 1
            inner = ast.BoolOp(op=ast.Or() if isinstance(node.op, ast.And) else ast.And(), values=[v.operand for v in node.values])
            return ast.copy_location(ast.UnaryOp(op=ast.Not(), operand=inner), node)
        return node


class TmpExpr(_BlockRewriter):
    """hoist call-free arithmetic arguments / subscripts of simple statements into temporaries evaluated just before the statement"""

    def block(self, stmts, owner, field):
        out = []
        for s in stmts:
            if isinstance(s, (ast.Assign, ast.Expr, ast.Return, ast.AugAssign)) and s.value is not None \
                    and not any(isinstance(n, (ast.NamedExpr, ast.Await, ast.Yield, ast.YieldFrom, ast.Lambda, ast.ListComp, ast.SetComp, ast.DictComp, ast.GeneratorExp,
                                               ast.IfExp, ast.BoolOp)) for n in ast.walk(s.value)):
                # candidates: BinOp nodes that are direct call arguments or subscript indices, made of names / constants / attributes only
                cands = []
                for n in ast.walk(s.value):
                    subs = list(n.args) if isinstance(n, ast.Call) else ([n.slice] if isinstance(n, ast.Subscript) and isinstance(n.ctx, ast.Load) else [])
                    for a in subs:
                        if isinstance(a, ast.BinOp) and all(isinstance(y, (ast.BinOp, ast.Name, ast.Constant, ast.Attribute, ast.operator, ast.expr_context, ast.UnaryOp, ast.unaryop))
                                                            for y in ast.walk(a)):
                            cands.append(a)
                # evaluation order: only when nothing before the candidate in the statement is a call (a call could change what it reads)
                calls_before = False
                if cands:
                    a = cands[0]
                    order = list(ast.walk(s.value))
                    # conservative: the statement's value must contain exactly one call, the one the candidate is an argument of (or none)
                    ncalls = sum(isinstance(n, ast.Call) for n in order)
                    if ncalls <= 1:
                        self.n += 1
                        nm = f'_e{self.n}'
                        out.append(ast.copy_location(ast.Assign(targets=[ast.Name(id=nm, ctx=ast.Store())], value=a), s))

                        class R(ast.NodeTransformer):
                            def visit(self, n):
                                if n is a:
                                    return ast.Name(id=nm, ctx=ast.Load())
                                return super().visit(n)
                        s.value = R().visit(s.value)
            out.append(s)
        return out


class RangeOffset(ast.NodeTransformer):
    """for i in range(a, b): B   ->   for i_0 in range(b - a): i = i_0 + a; B          (i not assigned in B)"""
    n = 0

    def visit_For(self, node):
        self.generic_visit(node)
        it = node.iter
        if isinstance(it, ast.Call) and isinstance(it.func, ast.Name) and it.func.id == 'range' and len(it.args) == 2 and isinstance(node.target, ast.Name) \
                and not any(isinstance(n, ast.Name) and n.id == node.target.id and isinstance(n.ctx, ast.Store) for b in node.body for n in ast.walk(b)) \
                and not any(isinstance(n, (ast.Call, ast.Await)) for a in it.args for n in ast.walk(a)):
            self.n += 1
            i = node.target.id
            a, b = it.args
            new_it = ast.Call(func=ast.Name(id='range', ctx=ast.Load()), args=[ast.BinOp(left=b, op=ast.Sub(), right=a)], keywords=[])
            first = ast.Assign(targets=[ast.Name(id=i, ctx=ast.Store())], value=ast.BinOp(left=ast.Name(id=i + '_0', ctx=ast.Load()), op=ast.Add(), right=a))
            return ast.copy_location(ast.For(target=ast.Name(id=i + '_0', ctx=ast.Store()), iter=new_it, body=[first] + node.body, orelse=node.orelse), node)
        return node


KINDS = {'flip': Flip, 'orient': Orient, 'tmptest': TmpTest, 'ifexp': IfExpLift, 'unifexp': IfExpUnlift,
         'comp2loop': Comp2Loop, 'loop2comp': Loop2Comp, 'unelse': UnElse, 'addelse': AddElse, 'earlyexit': EarlyExit, 'nestand': NestAnd, 'andnest': AndNest,
         'demorgan': DeMorgan, 'tmpexpr': TmpExpr, 'rangeoff': RangeOffset, 'whiletrue': WhileTrue, 'tuplesplit': TupleSplit, 'tuplemerge': TupleMerge}
NEEDS_FN = ('comp2loop', 'loop2comp')


def rewrite(src, fn, kind):
    """module source with function fn rewritten by the transformer of `kind` (the function is re-printed by ast.unparse)"""
    if kind == 'rename':
        return rename_locals(src, fn)
    fn = copy.deepcopy(fn)
    tr = KINDS[kind](fn) if kind in NEEDS_FN else KINDS[kind]()
    new = tr.visit(fn)
    if not tr.n:
        return None
    ast.fix_missing_locations(new)
    text = ast.unparse(new)
    lines = src.splitlines(keepends=True)
    first = min([fn.lineno] + [d.lineno for d in fn.decorator_list])
    indent = ' ' * fn.col_offset
    body = ''.join(indent + l + '\n' if l.strip() else '\n' for l in text.splitlines())
    out = ''.join(lines[:first - 1]) + body + ''.join(lines[fn.end_lineno:])
    try:
        ast.parse(out)
    except SyntaxError:
        return None
    return out


def rewrite_seq(src, q, kinds):
    """apply several kinds one after the other to the function with qualname q (at least one must apply)"""
    applied = 0
    for k in kinds:
        node = next((n for qq, n in _functions(ast.parse(src)) if qq == q), None)
        if node is None:
            return None
        new = rewrite(src, node, k)
        if new is not None and new != src:
            src = new
            applied += 1
    return src if applied == len(kinds) else None


def main(argv):
    if not argv or any(k not in KINDS and k != 'rename' for k in argv[0].split('+')):
        print(__doc__)
        return 2
    kind, argv = argv[0], argv[1:]
    props = [p for p in argv if p in PROPS] or sorted(PROPS)
    only = [a for a in argv if a not in PROPS]
    wanted = {}
    for pid in props:
        try:
            ev = json.load(open(os.path.join(VERIF, 'evidence', f'{pid}.json')))
        except Exception:
            continue
        for c in ev['coverage'].get('constructs_analysed', []):
            f, q = c.split('::', 1)
            mod = os.path.basename(f)[:-3]
            top = '.'.join(q.split('.')[:2]) if q.split('.')[0][0].isupper() else q.split('.')[0]
            wanted.setdefault((mod, top), set()).add(pid)
    sources = load_sources(REPO)
    jobs, idx = [], []
    for mod, src in sorted(sources.items()):
        tree = ast.parse(src)
        for q, node in _functions(tree):
            pids = wanted.get((mod, q))
            if not pids or (only and not any(o in f'{mod}::{q}' for o in only)):
                continue
            new = rewrite(src, node, kind) if '+' not in kind else rewrite_seq(src, q, kind.split('+'))
            if new is None:
                continue
            for pid in sorted(pids):
                jobs.append((pid, {mod: new}))
                idx.append((mod, q, pid))
    print(f'{kind}: {len({(m, q) for m, q, _ in idx})} functions rewritten, {len(jobs)} check runs')
    with ProcessPoolExecutor(max_workers=min(16, os.cpu_count() or 4)) as ex:
        res = list(ex.map(_run_one, jobs, chunksize=2))
    bad = {}
    for (mod, q, pid), (code, hits) in zip(idx, res):
        if code != 0:
            bad.setdefault((mod, q), []).append((pid, code, hits[:2]))
    for (mod, q), v in sorted(bad.items()):
        print(f'{mod}::{q}: ALARM')
        for pid, code, hits in v:
            print(f'     {pid} exit={code} {hits}')
    print(f'{kind}: {len(bad)} functions whose rewritten variant makes a check alarm')
    return 1 if bad else 0


if __name__ == '__main__':
    sys.exit(main(sys.argv[1:]))
