"""Self-validation of the checkers (thorough tier): mutants that break one rule instance must be
reported (exit 1, naming the construct); behaviour-preserving variants must stay silent.

Mutants are computed from the *current* tree on every run (text substitution on the parsed
module source, or a seeded patch from /verif/seeded applied to a scratch copy outside /repo and
/verif that is deleted immediately).  Nothing here influences the verdict on the tree itself.
"""
import glob
import json
import os
import shutil
import subprocess
import tempfile
from concurrent.futures import ProcessPoolExecutor

from .core import AnalysisError, load_sources, REPO

VERIF = os.path.dirname(os.path.dirname(os.path.abspath(__file__)))


def _table():
    from .mutant_table import MUTANTS, BENIGN
    return MUTANTS, BENIGN


def apply_text(sources, edits):
    """edits: list of (module, old, new). Returns overrides or None if not applicable."""
    out = {}
    for mod, old, new in edits:
        src = out.get(mod, sources.get(mod))
        if src is None or src.count(old) != 1:
            return None
        out[mod] = src.replace(old, new)
    return out


def seeded_overrides(patch_path):
    """Apply a seeded patch to a scratch copy of the package; return changed module sources."""
    tmp = tempfile.mkdtemp(prefix='mpv-seed-')
    try:
        shutil.copytree(os.path.join(REPO, 'mpyc'), os.path.join(tmp, 'mpyc'))
        r = subprocess.run(['patch', '-p1', '-s', '-f', '-i', patch_path], cwd=tmp, capture_output=True, text=True)
        if r.returncode != 0:
            return None
        new = load_sources(tmp)
        old = load_sources(REPO)
        return {m: s for m, s in new.items() if old.get(m) != s}
    finally:
        shutil.rmtree(tmp, ignore_errors=True)


def _run_one(args):
    pid, overrides = args
    from .cli import run_property
    try:
        code, rep, ev = run_property(pid, 'quick', 0, overrides=overrides, write=False, quiet=True)
        hits = [f'{o.rule} {o.file}::{o.construct}' for o in rep.obs if o.status == 'violation']
        return code, hits[:5]
    except AnalysisError as e:
        return 2, [str(e)[:200]]
    except Exception as e:  # pragma: no cover
        return 3, [repr(e)[:200]]


def seeded_list():
    out = []
    for meta in sorted(glob.glob(os.path.join(VERIF, 'seeded', '*', 'meta.json'))):
        d = os.path.dirname(meta)
        try:
            m = json.load(open(meta))
        except Exception:
            continue
        out.append((os.path.basename(d), m, os.path.join(d, 'patch.diff')))
    return out


def self_validate(pid, seed=0, jobs=None):
    MUTANTS, BENIGN = _table()
    sources = load_sources(REPO)
    jobs_list, meta = [], []
    for mid, m in MUTANTS.items():
        if pid not in m['props']:
            continue
        ov = apply_text(sources, m['edits'])
        if ov is None:
            meta.append((mid, 'mutant', None))
            continue
        meta.append((mid, 'mutant', len(jobs_list)))
        jobs_list.append((pid, ov))
    for sid, m, patch in seeded_list():
        det = m.get('detected_by', {})
        if pid not in det:
            continue
        ov = seeded_overrides(patch)
        if ov is None:
            meta.append((f'seeded/{sid}', 'mutant', None))
            continue
        meta.append((f'seeded/{sid}', 'mutant', len(jobs_list)))
        jobs_list.append((pid, ov))
    for bid, b in BENIGN.items():
        ov = apply_text(sources, b['edits'])
        if ov is None:
            meta.append((bid, 'benign', None))
            continue
        meta.append((bid, 'benign', len(jobs_list)))
        jobs_list.append((pid, ov))
    for patch in sorted(glob.glob(os.path.join(VERIF, 'benign', '*', 'patch.diff'))):
        bid = 'benign/' + os.path.basename(os.path.dirname(patch))
        ov = seeded_overrides(patch)
        if ov is None:
            meta.append((bid, 'benign', None))
            continue
        meta.append((bid, 'benign', len(jobs_list)))
        jobs_list.append((pid, ov))
    results = []
    if jobs_list:
        with ProcessPoolExecutor(max_workers=jobs or min(16, os.cpu_count() or 4)) as ex:
            results = list(ex.map(_run_one, jobs_list, chunksize=1))
    out = {'applicable': 0, 'detected': 0, 'missed': [], 'stale': [], 'benign_total': 0, 'benign_silent': 0,
           'benign_alarms': [], 'table': []}
    for mid, kind, idx in meta:
        if idx is None:
            out['stale'].append(mid)
            continue
        code, hits = results[idx]
        if kind == 'mutant':
            out['applicable'] += 1
            if code == 1:
                out['detected'] += 1
            else:
                out['missed'].append({'mutant': mid, 'exit': code, 'info': hits})
            out['table'].append({'mutant': mid, 'exit': code, 'reported': hits[:2]})
        else:
            out['benign_total'] += 1
            if code == 0:
                out['benign_silent'] += 1
            else:
                out['benign_alarms'].append({'variant': mid, 'exit': code, 'info': hits})
    return out
