"""CV rules: structural clauses of secure type conversion (property C06), read off Runtime.convert / Runtime._convert.

CV1  one random value, shared in both fields: the two PRSS calls differ in the field only (same PRFs, same common input,
     same count); without PRSS both inputs wrap the same locally drawn integers, by the same senders.
CV2  mask pairing: what is added before the opening (offset, source-field share of r) is removed after it (target-field
     share of r, the same offset), each exactly once.
CV3  scale: d = f_target - f_source; d < 0 is compensated by a truncation by -d before the opening, d > 0 by a left shift
     by d after it -- never both, never the wrong direction.
CV4  field-to-field conversion goes through a secure integer type wide enough for both field orders.
"""
import ast

from .core import AnalysisError, iter_nodes, norm, cnorm
from . import astq, sem, routes, cond
from .astq import parents, calls_named, definitions, attr_tail, const_int
from .linform import Lin, to_lin

RT = 'runtime::Runtime.'


def _field_of(fn, e, use, pm):
    """'S' / 'T' if expression e denotes the field of the source / target type of _convert."""
    t = norm(routes.xp(fn, e, use, pm))
    sp = fn.params[1] if len(fn.params) > 1 else 'x'
    tp = fn.params[2] if len(fn.params) > 2 else 't_type'
    if t in (f'type({sp}[0]).field', 's_type.field'):
        return 'S'
    if t == f'{tp}.field':
        return 'T'
    return None


def rule_CV1(ctx, rep):
    fn = ctx.model.func(RT + '_convert')
    pm = parents(fn.node)
    # ---- PRSS
    ps = [c for c in iter_nodes(fn.node) if isinstance(c, ast.Call) and attr_tail(c.func) == 'pseudorandom_share']
    if len(ps) != 2:
        rep.bad('CV1', fn, fn.qualname, f'{len(ps)} pseudorandom_share calls in _convert (expected one per field): the random mask is not shared in both fields', fn.node)
    else:
        fields = sorted(str(_field_of(fn, c.args[0], c, pm)) for c in ps)
        rest = [[cnorm(routes.xp(fn, a, c, pm)) for a in c.args[1:]] for c in ps]
        ucis = [norm(c.args[4]) if len(c.args) > 4 else None for c in ps]
        if fields != ['S', 'T']:
            rep.bad('CV1', fn, ps[0], f'the two PRSS calls are made for fields {fields}, not once for the source and once for the target field')
        elif rest[0] != rest[1] or ucis[0] != ucis[1] or ucis[0] is None:
            diff = [f'{a} vs {b}' for a, b in zip(rest[0], rest[1]) if a != b] or [f'{ucis[0]} vs {ucis[1]}']
            rep.bad('CV1', fn, ps[1], f'the source-field and target-field shares of the mask are not generated from the same PRFs / common input / count ({"; ".join(diff)}): '
                    'they are sharings of different random values, so the converted value is off by their difference')
        else:
            # the common input is obtained once (one _prss_uci call reaching both)
            u = ps[0].args[4]
            uv = [v for _, v, _ in astq.reaching_definitions(fn.node, u.id, ps[0], pm)] if isinstance(u, ast.Name) else []
            if len(uv) == 1 and uv[0] is not None and isinstance(uv[0], ast.Call) and attr_tail(uv[0].func) == '_prss_uci':
                rep.ok('CV1', fn, ps[1], 'PRSS: the same PRFs evaluated on one common input give shares of one random value in both fields')
            else:
                rep.bad('CV1', fn, ps[1], 'the common PRSS input of the two calls is not one value obtained from a single _prss_uci() call')
    # ---- without PRSS
    ins = [c for c in iter_nodes(fn.node) if isinstance(c, ast.Call) and attr_tail(c.func) == 'input' and isinstance(c.func, ast.Attribute) and norm(c.func.value) == 'self']
    if len(ins) != 2:
        rep.bad('CV1', fn, fn.qualname, f'{len(ins)} input calls in the no-PRSS branch of _convert (expected one per field)', fn.node)
        return
    snd = [cnorm(routes.xp(fn, k.value, c, pm)) for c in ins for k in c.keywords if k.arg == 'senders']
    if len(snd) == 2 and snd[0] == snd[1]:
        rep.ok('CV1', fn, ins[0], 'both fields\' contributions are input by the same senders')
    else:
        rep.bad('CV1', fn, ins[1], 'the contributions to the mask are input by different senders in the two fields')
    # what the senders input: wrappers of one list of drawn integers
    # (read off the elements flowing into the two input lists -- comprehension or append loop alike -- and their binders)
    from .rules_rt import list_elements
    srcs = {}
    for c in ins:
        elts, _complete = list_elements(fn, c.args[0], c, pm)
        for e in elts:
            if isinstance(e, ast.Call) and len(e.args) == 1 and isinstance(e.args[0], ast.Name):
                bs, _g = routes._context(fn, e, pm)
                for b in bs:
                    if b.kind in ('iter', 'enum') and b.elem == e.args[0].id and b.src is not None:
                        srcs[_field_of(fn, e.func, c, pm)] = norm(b.src)
                        src_use = b.node
    if set(srcs) == {'S', 'T'} and srcs['S'] == srcs['T']:
        r = srcs['S']
        drawn = False
        if r.isidentifier():
            relts, rcomplete = list_elements(fn, ast.Name(id=r, ctx=ast.Load()), src_use, pm)
            drawn = rcomplete and bool(relts) and all(isinstance(x, ast.Call) and norm(x.func) == 'secrets.randbelow' for x in relts)
        if drawn:
            rep.ok('CV1', fn, ins[1], f'without PRSS: each sender inputs the same CSPRNG integers {r} as source-field and as target-field elements')
        else:
            rep.bad('CV1', fn, ins[1], f'the integers {r} wrapped in both fields are not drawn with secrets.randbelow')
    else:
        rep.bad('CV1', fn, ins[1], f'without PRSS the two inputs do not wrap one and the same list of drawn integers in the source and in the target field (found {srcs})')


def _terms(e, sign=1, out=None):
    """additive terms of e: [(sign, expr)]"""
    out = [] if out is None else out
    if isinstance(e, ast.BinOp) and isinstance(e.op, (ast.Add, ast.Sub)):
        _terms(e.left, sign, out)
        _terms(e.right, sign if isinstance(e.op, ast.Add) else -sign, out)
    else:
        out.append((sign, e))
    return out


def _zip_elements(loop):
    """Copy of a for loop over `zip(A, B, ..)` / `enumerate(zip(A, B, ..))` / `enumerate(A)` in which the element variables are written
    as what they are: `A[i]`, `B[i]` (i = the enumerate position, or a fresh index name)."""
    import copy
    it, tg = loop.iter, loop.target
    pos = None
    if isinstance(it, ast.Call) and isinstance(it.func, ast.Name) and it.func.id == 'enumerate' and len(it.args) == 1 \
            and isinstance(tg, ast.Tuple) and len(tg.elts) == 2 and isinstance(tg.elts[0], ast.Name):
        pos, it, tg = tg.elts[0].id, it.args[0], tg.elts[1]
    m = {}
    if isinstance(it, ast.Call) and isinstance(it.func, ast.Name) and it.func.id == 'zip' and isinstance(tg, ast.Tuple) \
            and len(tg.elts) == len(it.args) and all(isinstance(e, ast.Name) for e in tg.elts) and all(isinstance(a, ast.Name) for a in it.args):
        pos = pos or '_i'
        for e, a in zip(tg.elts, it.args):
            m[e.id] = ast.Subscript(value=ast.Name(id=a.id, ctx=ast.Load()), slice=ast.Name(id=pos, ctx=ast.Load()), ctx=ast.Load())
    elif pos is not None and isinstance(tg, ast.Name) and isinstance(it, ast.Name):
        m[tg.id] = ast.Subscript(value=ast.Name(id=it.id, ctx=ast.Load()), slice=ast.Name(id=pos, ctx=ast.Load()), ctx=ast.Load())
    if not m:
        return loop

    class X(ast.NodeTransformer):
        def visit_Name(self, n):
            return copy.deepcopy(m[n.id]) if isinstance(n.ctx, ast.Load) and n.id in m else n
    new = copy.deepcopy(loop)
    new.body = [X().visit(b) for b in new.body]
    new.target = ast.Name(id=pos, ctx=ast.Store())
    ast.fix_missing_locations(new)
    for n in ast.walk(new):
        if not hasattr(n, '_pos'):
            n._pos = getattr(loop, '_pos', (0, 0))
    return new


def _flow_terms(fn, loops, xname, opening):
    """Additive terms applied to each element of `xname` by the loops after the opening, followed through temporaries,
    `.value`, reductions (`_mod`) and re-typing calls (which keep the additive structure): [(sign, term text)], or None."""
    env = {}
    loops = [_zip_elements(l) for l in loops]

    def key_of(t):
        if isinstance(t, ast.Attribute) and t.attr == 'value':
            t = t.value
        return norm(t)

    def is_elem(t):
        if isinstance(t, ast.Attribute) and t.attr == 'value':
            t = t.value
        return isinstance(t, ast.Subscript) and isinstance(t.value, ast.Name) and t.value.id == xname

    def tracked(e):
        return any((isinstance(x_, ast.Name) and (x_.id in env or x_.id == xname)) for x_ in ast.walk(e))

    def terms_of(e):
        out = []
        for sg, t in _terms(e):
            if isinstance(t, ast.Call) and t.args and tracked(t.args[0]):
                out += [(sg * s2, t2) for s2, t2 in terms_of(t.args[0])]       # reduction / re-typing of the value
                continue
            k = key_of(t)
            if k in env:
                out += [(sg * s2, t2) for s2, t2 in env[k]]
            elif is_elem(t):
                pass                                                             # the opened element itself
            else:
                out.append((sg, k))
        return out

    def run(stmts):
        for s_ in stmts:
            if isinstance(s_, ast.Assign) and len(s_.targets) == 1 and (isinstance(s_.targets[0], ast.Name) or is_elem(s_.targets[0])):
                if tracked(s_.value):
                    env[key_of(s_.targets[0])] = terms_of(s_.value)
            elif isinstance(s_, ast.AugAssign) and isinstance(s_.op, (ast.Add, ast.Sub)) and key_of(s_.target) in env or \
                    (isinstance(s_, ast.AugAssign) and isinstance(s_.op, (ast.Add, ast.Sub)) and is_elem(s_.target)):
                sg = 1 if isinstance(s_.op, ast.Add) else -1
                env[key_of(s_.target)] = env.get(key_of(s_.target), []) + [(sg * a, b) for a, b in terms_of(s_.value)]
            elif isinstance(s_, ast.If):
                run(s_.body)
                run(s_.orelse)
            elif isinstance(s_, ast.For):
                run(s_.body)
    run(loops)
    el = [k for k in env if k.startswith(xname + '[')]
    if not el:
        return None
    return env[el[-1]]


def rule_CV2(ctx, rep):
    fn = ctx.model.func(RT + '_convert')
    pm = parents(fn.node)
    outs = [c for c in iter_nodes(fn.node) if isinstance(c, ast.Call) and attr_tail(c.func) == 'output' and isinstance(c.func, ast.Attribute) and norm(c.func.value) == 'self']
    if len(outs) != 1:
        raise AnalysisError('CV2: the opening of the masked value in _convert was not found')
    o = outs[0]
    xname = norm(o.args[0])
    # which names hold the source / target shares of the mask
    role = {}
    for st, v, how in [d for nm in ('s_r', 't_r') for d in definitions(fn.node, nm)]:
        pass
    shares = {}
    for s in iter_nodes(fn.node):
        if isinstance(s, ast.Assign) and len(s.targets) == 1 and isinstance(s.value, ast.Call) and attr_tail(s.value.func) == 'pseudorandom_share' and isinstance(s.targets[0], ast.Name):
            shares[s.targets[0].id] = _field_of(fn, s.value.args[0], s, pm)
    if set(shares.values()) != {'S', 'T'}:
        rep.skip('CV2', fn, o, 'the variables holding the source-field and the target-field share of the mask could not be identified (see CV1)')
        return
    sname = [k for k, v in shares.items() if v == 'S'][0]
    tname = [k for k, v in shares.items() if v == 'T'][0]
    added, removed = [], []
    pre_loops = [_zip_elements(l) for l in iter_nodes(fn.node) if isinstance(l, ast.For) and astq.position(l) < astq.position(o)]
    pre_stmts = [s_ for l in pre_loops for s_ in l.body] + [s_ for s_ in iter_nodes(fn.node) if isinstance(s_, ast.Assign) and isinstance(s_.value, ast.ListComp)]
    for s in pre_stmts:
        if not isinstance(s, ast.Assign) or len(s.targets) != 1:
            continue
        tg0 = s.targets[0]
        if isinstance(tg0, ast.Subscript) and norm(tg0.value) == xname:
            val = s.value
        elif isinstance(tg0, ast.Name) and tg0.id == xname and isinstance(s.value, ast.ListComp) and len(s.value.generators) == 1:
            # x = [<element> for i in range(n)] / for a, r in zip(x, R): the element with zipped variables written as X[i], R[i]
            g0 = s.value.generators[0]
            lp = _zip_elements(ast.For(target=g0.target, iter=g0.iter, body=[ast.Expr(value=s.value.elt)], orelse=[]))
            val = lp.body[0].value
            s = ast.Assign(targets=[ast.Subscript(value=ast.Name(id=xname, ctx=ast.Load()), slice=lp.target, ctx=ast.Store())], value=val)
        else:
            continue
        before = True
        for sg, t in _terms(val):
            txt = norm(t)
            if any(isinstance(x_, ast.Name) and x_.id == xname for x_ in ast.walk(t)):
                continue          # the value itself (possibly reduced / re-typed), not an added or removed term
            (added if before else removed).append((sg, txt, s))
    # after the opening: follow the element through temporaries, reductions and re-typing (symbolic additive terms)
    post = [s_ for s_ in iter_nodes(fn.node) if isinstance(s_, (ast.For,)) and astq.position(s_) > astq.position(o)]
    flow = _flow_terms(fn, post, xname, o) if post else None
    if flow is not None:
        removed = [(sg, t, post[0]) for sg, t in flow]
    # the call through _mod in between does not add or remove anything
    add_txt = sorted((sg, t) for sg, t, _ in added)
    rem_txt = sorted((sg, t) for sg, t, _ in removed)
    offs = [t for sg, t, _ in added if not t.startswith(sname)]
    want_add = sorted([(1, f'{sname}[i]')] + [(1, t) for t in offs])
    idx = None
    ok_add = len(added) == 2 and any(t.startswith(f'{sname}[') for _, t, _ in added) and all(sg == 1 for sg, _, _ in added)
    if ok_add:
        rep.ok('CV2', fn, added[0][2], f'before the opening: value + {offs[0] if offs else "?"} + source-field share of the mask')
    else:
        rep.bad('CV2', fn, o, f'the value opened in _convert is not value + offset + source-field share of the mask (added terms: {add_txt})')
    ok_rem = len(removed) == 2 and all(sg == -1 for sg, _, _ in removed) and any(t.startswith(f'{tname}[') for _, t, _ in removed) \
        and offs and any(t == offs[0] for _, t, _ in removed)
    if ok_rem:
        rep.ok('CV2', fn, removed[0][2], f'after the opening: the target-field share of the same mask and the same offset {offs[0]} are subtracted, once each')
    else:
        rep.bad('CV2', fn, o, f'after the opening the mask and the offset are not removed exactly (subtracted terms: {rem_txt}; added before: {add_txt}): '
                'the converted value is off by the mask or by the offset')
    # the subscripts of added / removed shares use the element's own index
    for sg, t, s in added + removed:
        if '[' in t and isinstance(s, ast.For):
            tg = norm(_zip_elements(s).target)
            if not t.endswith(f'[{tg}]'):
                rep.bad('CV2', fn, s, f'element {tg} is masked / unmasked with {t}: the mask of another element')
            continue
        if '[' in t:
            tg = norm(s.targets[0].slice) if isinstance(s.targets[0], ast.Subscript) else norm(s.value.generators[0].target)
            if tg == '_i' or t.endswith('[_i]'):
                continue            # zipped element by element: the same position by construction
            if not t.endswith(f'[{tg}]'):
                rep.bad('CV2', fn, s, f'element {tg} is masked / unmasked with {t}: the mask of another element')


def rule_CV3(ctx, rep):
    fn = ctx.model.func(RT + '_convert')
    pm = parents(fn.node)
    sp, tp = 's_type', fn.params[2]
    dd = [(st, v) for nm in ('d',) for st, v, how in definitions(fn.node, nm) if v is not None]
    if len(dd) != 1:
        raise AnalysisError('CV3: the scale difference d was not found in _convert')
    dtxt = cnorm(routes.xp(fn, dd[0][1], dd[0][0], pm))
    want = cnorm(ast.parse(f'{tp}.frac_length - type({fn.params[1]}[0]).frac_length', mode='eval').body)
    if dtxt == want:
        rep.ok('CV3', fn, dd[0][0], 'd = fractional bits of the target type minus those of the source type')
    else:
        rep.bad('CV3', fn, dd[0][0], f'scale difference is {dtxt}, not target.frac_length - source.frac_length')
    outs = [c for c in iter_nodes(fn.node) if isinstance(c, ast.Call) and attr_tail(c.func) == 'output']
    o = outs[0] if outs else None
    tr = [c for c in iter_nodes(fn.node) if isinstance(c, ast.Call) and attr_tail(c.func) == 'trunc']
    okt = False
    if len(tr) == 1 and o is not None and astq.position(tr[0]) < astq.position(o):
        cx = cond.context(fn, tr[0], pm)
        fk = [k.value for k in tr[0].keywords if k.arg == 'f'] + list(tr[0].args[1:2])
        okt = cond.equivalent(cx, cond.formula(fn, ast.parse('d < 0', mode='eval').body, tr[0], pm)) and fk and cnorm(fk[0]) == cnorm(ast.parse('-d', mode='eval').body)
    if okt:
        rep.ok('CV3', fn, tr[0], 'fewer fractional bits in the target: truncation by -d bits, before the masked opening, exactly when d < 0')
    else:
        rep.bad('CV3', fn, tr[0] if tr else fn.qualname, 'a conversion to a type with fewer fractional bits is not compensated by a truncation by -d bits (under d < 0, before the opening)', fn.node)
    sh = [s for s in iter_nodes(fn.node) if isinstance(s, ast.AugAssign) and isinstance(s.op, ast.LShift)]
    oks = False
    if len(sh) == 1 and o is not None and astq.position(sh[0]) > astq.position(o) and norm(sh[0].value) == 'd':
        cx = cond.context(fn, sh[0], pm)
        pos = cond.formula(fn, ast.parse('0 < d', mode='eval').body, sh[0], pm)
        # d > 0 must be implied
        oks = not cond.satisfiable(cond.conj([cx, cond.neg(pos)]))
    if oks:
        rep.ok('CV3', fn, sh[0], 'more fractional bits in the target: exact left shift by d bits, after the opening, only when d > 0')
    else:
        rep.bad('CV3', fn, sh[0] if sh else fn.qualname, 'a conversion to a type with more fractional bits is not compensated by a left shift by d bits (under d > 0, after the opening)', fn.node)


def rule_CV4(ctx, rep):
    fn = ctx.model.func(RT + 'convert')
    pm = parents(fn.node)
    cs = [c for c in iter_nodes(fn.node) if isinstance(c, ast.Call) and attr_tail(c.func) == '_convert']

    def first_arg(c):
        """first argument of a _convert call, followed one level through a temporary (`y = _convert(x, s); _convert(y, t)`)"""
        a = c.args[0] if c.args else None
        if isinstance(a, ast.Name):
            ds = [d for d in astq.reaching_definitions(fn.node, a.id, c, pm) if d[2] == 'assign' and d[1] is not None]
            if len(ds) == 1 and isinstance(ds[0][1], ast.Call) and attr_tail(ds[0][1].func) == '_convert':
                return ds[0][1]
        return a
    nested = [(c, first_arg(c)) for c in cs if isinstance(first_arg(c), ast.Call) and attr_tail(first_arg(c).func) == '_convert']
    if len(nested) != 1:
        rep.bad('CV4', fn, fn.qualname, 'field-to-field conversion is not the composition _convert(_convert(x, <secure int>), target)', fn.node)
        return
    outer, inner = nested[0]
    cx = cond.context(fn, outer, pm)
    tp = fn.params[2]
    mid = routes.xp(fn, inner.args[1], inner, pm)
    okm = isinstance(mid, ast.Call) and attr_tail(mid.func) == 'SecInt'
    lw = None
    if okm:
        la = [k.value for k in mid.keywords if k.arg == 'l'] + list(mid.args[:1])
        lw = routes.xp(fn, la[0], inner, pm) if la else None
    txt = cnorm(lw) if lw is not None else ''
    wide = lw is not None and isinstance(lw, ast.Call) and attr_tail(lw.func) == 'max' and any(
        'bit_length()' in norm(a) and 'max(' in norm(a) and 's_type.field.order' in norm(routes.xp(fn, a, inner, pm)).replace(f'type({fn.params[1]}[0])', 's_type') and f'{tp}.field.order' in norm(a)
        for a in lw.args)
    if okm and wide and norm(outer.args[1]) == tp:
        rep.ok('CV4', fn, outer, 'field-to-field: via a secure integer type of at least max(order_s, order_t).bit_length() bits, then to the target type')
    else:
        rep.bad('CV4', fn, outer, f'the intermediate type of a field-to-field conversion is not a secure integer type wide enough for both field orders (l = {txt})')
    direct = [c for c in cs if c is not outer and c is not inner]
    if len(direct) == 1 and norm(direct[0].args[1]) == tp and norm(direct[0].args[0]) == norm(inner.args[0]):
        rep.ok('CV4', fn, direct[0], 'all other conversions: one masked conversion to the target type')
    else:
        rep.bad('CV4', fn, fn.qualname, 'conversions other than field-to-field are not a single _convert(x, target)', fn.node)
