"""Developer tool: validates the rewriting kinds of metatest.py themselves.  Applies one kind to EVERY function of every module in a
scratch copy of the repository and runs the pinned test suite on it: the rewritings claim to preserve behaviour, so the suite
must still pass.   python -m mpv.metasuite <kind> ..."""
import ast
import os
import shutil
import subprocess
import sys
import tempfile

from . import metatest
from .core import REPO
from .renametest import _functions


def rewrite_all(src, kind):
    n = 0
    for _ in range(400):
        tree = ast.parse(src)
        done = False
        for k, (q, node) in enumerate(_functions(tree)):
            if k < n:
                continue
            n = k + 1
            if any(isinstance(x, ast.JoinedStr) for x in ast.walk(node)):
                continue        # ast.unparse of 3.12 writes f-strings that 3.11 (the numpy-enabled interpreter) cannot parse
            new = metatest.rewrite(src, node, kind)
            if new is not None and new != src:
                src = new
                done = True
                break
        if not done:
            break
    return src


def main(kinds):
    rc = 0
    for kind in kinds:
        d = tempfile.mkdtemp(prefix='metasuite_')
        try:
            dst = os.path.join(d, 'repo')
            shutil.copytree(REPO, dst, ignore=shutil.ignore_patterns('.git', '__pycache__', '*.pyc', '.pytest_cache'))
            cnt = 0
            for f in sorted(os.listdir(os.path.join(dst, 'mpyc'))):
                if f.endswith('.py'):
                    p = os.path.join(dst, 'mpyc', f)
                    s = open(p).read()
                    s2 = rewrite_all(s, kind)
                    if s2 != s:
                        cnt += 1
                        open(p, 'w').write(s2)
            r = subprocess.run(['/venv/bin/python', '-m', 'pytest', '-q', '-p', 'no:cacheprovider', '-n', '8', '-x'], cwd=dst, capture_output=True, text=True)
            last = (r.stdout.strip().splitlines() or ['?'])[-1]
            r2 = subprocess.run(['python3-vt', '-m', 'unittest', 'discover', '-s', 'tests'], cwd=dst, capture_output=True, text=True, env=dict(os.environ, PYTHONPATH=dst))
            last2 = (r2.stderr.strip().splitlines() or ['?'])[-1]
            print(f'{kind}: {cnt} modules rewritten; suite: {last}; numpy unittest: {last2}')
            if r.returncode or r2.returncode:
                rc = 1
                print(r.stdout[-1500:] if r.returncode else r2.stderr[-2500:])
        finally:
            shutil.rmtree(d, ignore_errors=True)
    return rc


if __name__ == '__main__':
    sys.exit(main(sys.argv[1:]))
