"""Developer tool: run every claimed check against every seeded change (applied to a scratch copy
of the package, never to /repo) and record which checks report it in seeded/<id>/meta.json."""
import json
import os
import sys
from concurrent.futures import ProcessPoolExecutor

from .mutants import seeded_list, seeded_overrides, _run_one
from .props import PROPS


def main(argv):
    only = set(argv)
    items = [(sid, m, p) for sid, m, p in seeded_list() if not only or sid in only or sid.split('-')[0] in only]
    jobs, idx = [], []
    for sid, m, patch in items:
        ov = seeded_overrides(patch)
        if ov is None:
            print(f'{sid}: patch does not apply to the current tree (stale)')
            continue
        for pid in sorted(PROPS):
            idx.append((sid, pid))
            jobs.append((pid, ov))
    with ProcessPoolExecutor(max_workers=min(16, os.cpu_count() or 4)) as ex:
        res = list(ex.map(_run_one, jobs, chunksize=4))
    by = {}
    for (sid, pid), (code, hits) in zip(idx, res):
        by.setdefault(sid, {})[pid] = (code, hits)
    missed = 0
    for sid, m, patch in items:
        if sid not in by:
            continue
        det = {pid: hits for pid, (code, hits) in by[sid].items() if code == 1}
        err = {pid: hits for pid, (code, hits) in by[sid].items() if code not in (0, 1)}
        own = m['property']
        m['detected_by'] = det
        json.dump(m, open(os.path.join(os.path.dirname(patch), 'meta.json'), 'w'), indent=1)
        flag = 'OK ' if own in det else ('own-check-silent' if own in PROPS else 'own-prop-unclaimed')
        if own not in det:
            missed += 1
        print(f'{sid}: {flag} detected by {sorted(det)} {"ERR " + str(err) if err else ""}')
        if own in det:
            print(f'      {det[own][:2]}')
    return 0


if __name__ == '__main__':
    sys.exit(main(sys.argv[1:]))
