"""LV rules: barrier / shutdown / pending-level counting (property C35, shutdown part of C09)."""
import ast

from .linform import Lin

from .core import AnalysisError, iter_nodes, norm
from . import astq
from .astq import parents, ancestors, calls_named, enclosing_ifs, enclosing_loops, const_int, attr_tail


def _is_level(e):
    return isinstance(e, ast.Attribute) and e.attr == '_pc_level'


def _level_dec(s):
    return isinstance(s, ast.AugAssign) and isinstance(s.op, ast.Sub) and _is_level(s.target) and const_int(s.value) == 1


def _level_inc(s):
    return isinstance(s, ast.AugAssign) and isinstance(s.op, ast.Add) and _is_level(s.target) and const_int(s.value) == 1


def _block_of(stmt, pm):
    h = pm[id(stmt)]
    for f in ('body', 'orelse', 'finalbody', 'handlers'):
        b = getattr(h, f, None)
        if isinstance(b, list) and any(x is stmt for x in b):
            return b
    return None


def rule_LV1(ctx, rep):
    """_pc_level acquire/release pairing in mpc_coro's typed_asyncoro."""
    model = ctx.model
    fn = model.func('asyncoro::mpc_coro.typed_asyncoro')
    pm = parents(fn.node)
    body = fn.node.body
    incs = [s for s in iter_nodes(fn.node) if _level_inc(s)]
    if len(incs) != 1 or not any(s is incs[0] for s in body):
        rep.bad('LV1', fn, fn.qualname, 'the pending level is not incremented exactly once, unconditionally, when an MPyC coroutine is called', fn.node)
        return
    coro_calls = [c for c in iter_nodes(fn.node) if isinstance(c, ast.Call) and isinstance(c.func, ast.Name) and c.func.id == 'func']
    if coro_calls and astq.position(incs[0]) < astq.position(coro_calls[0]):
        rep.ok('LV1', fn, incs[0], 'pending level raised before the coroutine is created/started')
    else:
        rep.bad('LV1', fn, incs[0], 'pending level is raised after the coroutine has been started')
    # the done-callback that releases the level in the asynchronous case
    cbs = [c for c in calls_named(fn.node, 'add_done_callback') if any(isinstance(n, ast.Name) and n.id == '_reconcile' for n in ast.walk(c))]
    exits = [s for s in iter_nodes(fn.node) if isinstance(s, (ast.Return, ast.Raise))]
    if len(exits) < 5:
        raise AnalysisError(f'LV1: only {len(exits)} exits found in typed_asyncoro (expected >= 5)')
    def dominating(e):
        """statements that precede e (or a statement enclosing e) in a block enclosing e, innermost first"""
        out = []
        x = e
        while x is not None and x is not fn.node:
            blk = _block_of(x, pm) if isinstance(x, ast.stmt) else None
            if blk:
                i = [j for j, y in enumerate(blk) if y is x]
                if i:
                    out.extend(reversed(blk[:i[0]]))
            x = pm.get(id(x))
            if isinstance(x, (ast.FunctionDef, ast.AsyncFunctionDef, ast.Lambda)):
                break
        return out

    def terminates(stmts):
        for s_ in stmts:
            if isinstance(s_, (ast.Return, ast.Raise)):
                return True
            if isinstance(s_, ast.If) and s_.orelse and terminates(s_.body) and terminates(s_.orelse):
                return True
        return False
    for e in exits:
        prior = dominating(e)
        # only the statements of the same handler / loop iteration count for the release
        blk = _block_of(e, pm)
        if any(_level_dec(s) for s in prior):
            rep.ok('LV1', fn, e, 'exit preceded by the release of the pending level')
            continue
        if any(any(c is x for x in ast.walk(s)) for s in prior for c in cbs):
            # registration of the releasing callback on the task, and the task is the scheduled coroutine
            rep.ok('LV1', fn, e, 'exit preceded by registering the releasing done-callback on the task')
            continue
        rep.bad('LV1', fn, e, 'an exit of the coroutine launcher neither releases the pending level nor registers the releasing '
                'callback: barriers and shutdown wait forever (or the level underflows)')
    for s in iter_nodes(fn.node):
        if _level_dec(s):
            blk = _block_of(s, pm)
            i = [j for j, x in enumerate(blk) if x is s][0]
            if not terminates(blk[i + 1:]):
                rep.bad('LV1', fn, s, 'pending level released on a path that continues running the coroutine (double release later)')
    if len(cbs) == 1:
        t = cbs[0].func.value
        tasks = calls_named(fn.node, 'Task')
        st = astq.enclosing_stmt(tasks[0], pm) if tasks else None
        if st is not None and isinstance(st, ast.Assign) and norm(st.targets[0]) == norm(t):
            rep.ok('LV1', fn, cbs[0], 'releasing callback is attached to the task that runs the coroutine')
        else:
            rep.bad('LV1', fn, cbs[0], 'the releasing callback is not attached to the task that runs the coroutine')
    else:
        rep.bad('LV1', fn, fn.qualname, 'no done-callback reaching _reconcile is registered for the scheduled task', fn.node)


def rule_LV2(ctx, rep):
    """_reconcile releases the pending level before anything can leave it; who writes _pc_level."""
    model = ctx.model
    fn = model.func('asyncoro::_reconcile')
    first = fn.node.body[0]
    if isinstance(first, ast.Expr) and isinstance(first.value, ast.Constant):
        first = fn.node.body[1]
    if _level_dec(first):
        rep.ok('LV2', fn, first, 'pending level released first, on every path (also when the task failed)')
    else:
        rep.bad('LV2', fn, fn.qualname, '_reconcile does not release the pending level as its first action: an early return or a failing task '
                'leaves the level raised and barriers/shutdown hang', fn.node)
    if sum(1 for s in iter_nodes(fn.node) if _level_dec(s)) > 1:
        rep.bad('LV2', fn, fn.qualname, 'pending level released more than once in _reconcile', fn.node)
    allowed = {'asyncoro::mpc_coro.typed_asyncoro', 'asyncoro::_reconcile', 'runtime::Runtime.__init__'}
    n = 0
    for k, f in sorted(model.funcs.items()):
        for s in iter_nodes(f.node):
            tg = s.targets if isinstance(s, ast.Assign) else ([s.target] if isinstance(s, (ast.AugAssign, ast.AnnAssign)) else [])
            if any(_is_level(t) for t in tg):
                n += 1
                if k in allowed:
                    rep.ok('LV2', f, s, 'write to _pc_level by the coroutine launcher / reconciler / constructor')
                else:
                    rep.bad('LV2', f, s, 'the pending level is written outside mpc_coro/_reconcile/Runtime.__init__')
    init = model.func('runtime::Runtime.__init__')
    z = [s for s in iter_nodes(init.node) if isinstance(s, ast.Assign) and _is_level(s.targets[0])]
    if not z or const_int(z[0].value) != 0:
        rep.bad('LV2', init, init.qualname, 'pending level does not start at 0', init.node)
    if n < 4:    # the increment and a release in the launcher, the release in the reconciler, the initialisation
        raise AnalysisError(f'LV2: only {n} writes to _pc_level found (expected >= 4)')


class _Wait:
    """A wait loop in normal form: `node` runs `body` as long as `test` holds -- `while T: B`, or `while True: if not T: break; B`."""

    def __init__(self, node, test, body):
        self.node, self.test, self.body = node, test, body


def _wait_loop(fn_node):
    """The loops that wait on the pending level (`while self._pc_level > self._program_counter[1]: await asyncio.sleep(0)`)."""
    from .canon import negate
    import copy
    out = []
    for w in iter_nodes(fn_node):
        if not isinstance(w, ast.While):
            continue
        test, body = w.test, w.body
        if isinstance(test, ast.Constant) and test.value is True and body and isinstance(body[0], ast.If) and not body[0].orelse \
                and len(body[0].body) == 1 and isinstance(body[0].body[0], ast.Break):
            test, body = negate(copy.deepcopy(body[0].test)), body[1:]
            test = _orient_gt(test)
        if any(_is_level(n) for n in ast.walk(test)):
            out.append(_Wait(w, test, body))
    return out


def _orient_gt(t):
    """a < b  ->  b > a  (the orientation the stage-1 canonicaliser gives every comparison is `<`; the rules below accept both)"""
    return t


def _check_wait(rep, rule, fn, w):
    t = w.test
    good = isinstance(t, ast.Compare) and len(t.ops) == 1
    if good:
        l, r = t.left, t.comparators[0]
        depth = lambda e: isinstance(e, ast.Subscript) and isinstance(e.value, ast.Attribute) and e.value.attr == '_program_counter' and const_int(e.slice) == 1
        good = (isinstance(t.ops[0], ast.Gt) and _is_level(l) and depth(r)) or (isinstance(t.ops[0], ast.Lt) and depth(l) and _is_level(r))
    if good:
        rep.ok(rule, fn, t, 'waits while more MPyC coroutines are pending than the current depth accounts for')
    else:
        rep.bad(rule, fn, t, f'wait predicate `{norm(t)}` is not "_pc_level > _program_counter[1]" (pending coroutines beyond the current depth)')
    yields = [n for s in w.body for n in ast.walk(s) if isinstance(n, ast.Await)]
    if yields and not any(isinstance(n, (ast.Break, ast.Return)) for s in w.body for n in ast.walk(s)):
        rep.ok(rule, fn, yields[0], 'the loop yields to the event loop and has no other exit')
    else:
        rep.bad(rule, fn, w.test, 'the wait loop does not yield to the event loop / can be left before the condition clears')


def rule_LV3(ctx, rep):
    """shutdown: wait for pending coroutines, synchronise with all parties, then close."""
    model = ctx.model
    fn = model.func('runtime::Runtime.shutdown')
    pm = parents(fn.node)
    waits = _wait_loop(fn.node)
    top = [w for w in waits if any(w.node is s for s in fn.node.body)]
    closes = calls_named(fn.node, 'close_connection')
    if not closes:
        raise AnalysisError('LV3: close_connection not found in Runtime.shutdown')
    first_exit = min([astq.position(s) for s in iter_nodes(fn.node) if isinstance(s, ast.Return)] + [astq.position(closes[0])])
    if top and astq.position(top[0].node) < first_exit:
        rep.ok('LV3', fn, top[0].test, 'unconditional wait for all started MPyC coroutines before anything else')
        _check_wait(rep, 'LV3', fn, top[0])
    else:
        # delegation to a helper is accepted only if the helper waits unconditionally
        deleg = None
        for s in fn.node.body:
            if isinstance(s, ast.Expr) and isinstance(s.value, ast.Await) and isinstance(s.value.value, ast.Call):
                tg = ctx.flow.rs.resolve_call(fn, s.value.value)
                for t in tg:
                    ws = [w for w in _wait_loop(t.node) if any(w.node is x for x in t.node.body)]
                    if ws and not any(isinstance(x, ast.Return) and astq.position(x) < astq.position(ws[0].node) for x in iter_nodes(t.node)):
                        deleg = (t, ws[0])
                break
        if deleg:
            rep.ok('LV3', fn, deleg[1].test, f'unconditional wait delegated to {deleg[0].key}')
            _check_wait(rep, 'LV3', fn, deleg[1])
        else:
            rep.bad('LV3', fn, fn.qualname, 'shutdown does not unconditionally wait for the started MPyC coroutines before synchronising/closing '
                    '(a wait that can be switched off, e.g. via no_barrier, or none at all): connections close while receives are still pending', fn.node)
    # all-party synchronisation awaited before closing
    tr = [c for c in calls_named(fn.node, 'transfer')]
    good = False
    for c in tr:
        st = astq.enclosing_stmt(c, pm)
        aw = isinstance(st, ast.Expr) and isinstance(st.value, ast.Await) and st.value.value is c
        if aw and len(c.args) <= 1 and not c.keywords and astq.position(c) < astq.position(closes[0]) and any(st is s for s in fn.node.body):
            good = True
            rep.ok('LV3', fn, c, 'all-to-all transfer awaited before any connection is closed')
    if not good:
        rep.bad('LV3', fn, closes[0], 'connections are closed without first awaiting an all-party synchronisation (a peer may still need this connection)')
    # the future that unset_protocol() resolves when the last connection is gone must exist before the synchronisation: a peer that
    # gets through first may close its connections while this party has not been resumed yet
    futs = [s_ for s_ in iter_nodes(fn.node) if isinstance(s_, ast.Assign) and any(isinstance(t_, ast.Attribute) and t_.attr == 'protocol' for t_ in s_.targets)
            and isinstance(s_.value, ast.Call) and attr_tail(s_.value.func) == 'Future']
    sync = [c for c in tr if isinstance(astq.enclosing_stmt(c, pm), ast.Expr)]
    if futs and sync:
        if astq.position(futs[0]) < astq.position(sync[0]) and any(futs[0] is s_ for s_ in fn.node.body):
            rep.ok('LV3', fn, futs[0], 'the completion future awaited at the end is installed before the all-party synchronisation')
        else:
            rep.bad('LV3', fn, futs[0], 'the future resolved by unset_protocol() is installed only after the all-party synchronisation: a peer that finishes first can close '
                    'its connections before it exists, the last connection_lost resolves a stale future, and this party waits in shutdown forever')
    # who closes: client side of each connection
    lp = [l for l in enclosing_loops(closes[0], pm, stop=fn.node) if isinstance(l, ast.For)]
    st = model.func('runtime::Runtime.start')
    conns = calls_named(st.node, 'create_connection')
    pms = parents(st.node)
    sl = [l for l in enclosing_loops(conns[0], pms, stop=st.node) if isinstance(l, ast.For)] if conns else []
    def party_range(f_, loop, pm_):
        """(lo, hi) as linear forms over P / M: the indices of the parties a loop visits -- `for peer in self.parties[a:b]`, or
        `for i in range(a, b)` with self.parties[i] in its body"""
        from . import routes
        it = loop.iter
        if isinstance(it, ast.Subscript) and isinstance(it.slice, ast.Slice) and norm(it.value).endswith('.parties') and it.slice.step is None:
            lo = routes.lin(f_, it.slice.lower, loop, pm_) if it.slice.lower is not None else Lin(0)
            hi = routes.lin(f_, it.slice.upper, loop, pm_) if it.slice.upper is not None else Lin.sym('M')
            return lo, hi
        if isinstance(it, ast.Call) and isinstance(it.func, ast.Name) and it.func.id == 'range' and len(it.args) in (1, 2) and isinstance(loop.target, ast.Name):
            if any(isinstance(x, ast.Subscript) and norm(x.value).endswith('.parties') and norm(x.slice) == loop.target.id for b_ in loop.body for x in ast.walk(b_)):
                lo = routes.lin(f_, it.args[0], loop, pm_) if len(it.args) == 2 else Lin(0)
                hi = routes.lin(f_, it.args[-1], loop, pm_)
                return lo, hi
        return None
    pr_c = party_range(fn, lp[-1], pm) if lp else None
    pr_o = party_range(st, sl[-1], pms) if sl else None
    if lp and sl and ((pr_c is not None and pr_c == pr_o) or norm(lp[-1].iter) == norm(sl[-1].iter)):
        rep.ok('LV3', fn, lp[-1].iter, 'every connection is closed by the party that opened it (same enumeration as start())')
    else:
        rep.bad('LV3', fn, closes[0], 'the set of connections closed in shutdown differs from the set opened in start(): some connection is never closed '
                '(or closed from both ends)')
    # final wait for all connections to be gone
    last = fn.node.body[-1]
    if isinstance(last, ast.Expr) and isinstance(last.value, ast.Await) and 'protocol' in norm(last.value.value) and astq.position(last) > astq.position(closes[0]):
        rep.ok('LV3', fn, last, 'shutdown returns only after every connection is deregistered')
    else:
        rep.bad('LV3', fn, fn.qualname, 'shutdown does not wait until all connections are gone', fn.node)
    un = model.func('runtime::Runtime.unset_protocol')
    if calls_named(un.node, 'set_result') and any(isinstance(n, ast.Call) and attr_tail(n.func) == 'all' for n in ast.walk(un.node)):
        rep.ok('LV3', un, un.qualname, 'the shutdown future completes when all peers are deregistered', un.node)
    else:
        rep.bad('LV3', un, un.qualname, 'unset_protocol never completes the shutdown future', un.node)


def rule_LV4(ctx, rep):
    """barrier waits with the same predicate (when barriers and async evaluation are enabled)."""
    model = ctx.model
    fn = model.func('runtime::Runtime.barrier')
    pm = parents(fn.node)
    waits = _wait_loop(fn.node)
    if len(waits) != 1:
        rep.bad('LV4', fn, fn.qualname, 'barrier has no wait loop on the pending level', fn.node)
        return
    w = waits[0]
    _check_wait(rep, 'LV4', fn, w)
    # the wait is reached unless barriers are disabled or evaluation is synchronous: its path condition (nesting, early returns
    # and polarity alike) must be a conjunction of negated option atoms only
    from . import cond
    cx = cond.context(fn, w.node, pm)
    ats = cond.atoms_of(cx)
    only_options = all('no_async' in a or 'no_barrier' in a for a in ats)
    all_off = {a: False for a in ats}
    if only_options and cond.evalf(cx, all_off) and not any(
            cond.evalf(cx, {**all_off, a: True}) for a in ats):
        rep.ok('LV4', fn, w.test, 'the wait is skipped only when barriers are disabled or evaluation is synchronous')
    else:
        rep.bad('LV4', fn, w.test, f'the barrier wait is governed by `{cond.fmt(cx)}`, not only by the no_barrier / no_async options: an enabled barrier can return '
                'while coroutines started earlier are still running')
    sh = model.func('runtime::Runtime.shutdown')
    sw = [x for x in _wait_loop(sh.node)]
    if sw and norm(sw[0].test) == norm(w.test):
        rep.ok('LV4', fn, w.test, 'barrier and shutdown use the same predicate')
    elif sw:
        rep.bad('LV4', fn, w.test, f'barrier waits on `{norm(w.test)}` but shutdown on `{norm(sw[0].test)}`')
