"""Protocol abstract interpreter (PAI).

Forward abstract interpretation of one function body over

    PUB              the same at all parties (constants, options, types, lengths, opened values)
    SEC              a secure object / placeholder (a degree-t sharing by invariant)
    SH(d)            this party's plain share(s) of a value shared with degree d*t
    TOP              unknown

each carrying   rnd : the random sources the value depends on (tags with a class, see below)
                inp : whether it depends on a secret input
                bits: for bounded random values, the bit length of the bound as a linear form

Paths: every `if` whose test is not decided by the current valuation of its atoms forks the state
(atoms are the leaves of the test under not/and/or); a valuation stays consistent along a path, and
small integer "case variables" (compared with constants only) are decided arithmetically.  Loops are
walked twice and joined.  The interpreter records *events* (share products, openings, reshares,
truncations, returns, constructor escapes, non-linear operations on shares); the rules in
rules_pai.py judge them.  Where precision is lost a value becomes TOP and never causes a report.
"""
import ast
import itertools
from dataclasses import dataclass, field as dfield

from .core import AnalysisError, iter_nodes, norm
from .linform import Lin, to_lin
from . import astq

MAX_STATES = 3000


@dataclass(frozen=True)
class Tag:
    cls: str            # U uniform on field | K bounded by 2^bits | B random bit(s) | Z zero sharing (degree 2) |
    #                     L local entropy | R other secure randomness
    site: str
    bits: object = None  # Lin or None

    def __repr__(self):
        return f'{self.cls}@{self.site}' + (f'[{self.bits}]' if self.bits is not None else '')


@dataclass(frozen=True)
class AV:
    k: str = 'PUB'
    deg: int = 0
    rnd: frozenset = frozenset()
    inp: bool = False
    elts: tuple = None      # for fixed-length tuples/lists: tuple of AV
    raw: bool = False       # SH only: a raw Python int/array (via .value), not a field element
    lin: object = None      # PUB only: symbolic integer value (Lin) when known
    typ: str = None         # PUB type object: 'sectype' | 'field'; SEC/SH: note about origin

    def __repr__(self):
        if self.k == 'PUB':
            return 'PUB' if self.lin is None else f'PUB({self.lin})'
        if self.k == 'TOP':
            return 'TOP'
        s = f'{self.k}{self.deg}' + ('i' if self.inp else '') + ('r' if self.raw else '')
        if self.rnd:
            s += '{' + ','.join(sorted(map(repr, self.rnd))) + '}'
        return s


PUB = AV()
TOP = AV('TOP')


def secure(rnd=frozenset(), inp=True):
    return AV('SEC', 1, frozenset(rnd), inp)


def share(deg=1, rnd=frozenset(), inp=True, raw=False):
    return AV('SH', deg, frozenset(rnd), inp, raw=raw)


def join(a, b):
    if a is None:
        return b
    if b is None:
        return a
    if a == b:
        return a
    if a.k == 'TOP' or b.k == 'TOP':
        return TOP
    if a.k == 'PUB' and b.k == 'PUB':
        return AV('PUB', lin=a.lin if a.lin == b.lin else None, typ=a.typ if a.typ == b.typ else None)
    if a.k == 'PUB':
        return AV(b.k, b.deg, b.rnd, b.inp, raw=b.raw)
    if b.k == 'PUB':
        return AV(a.k, a.deg, a.rnd, a.inp, raw=a.raw)
    if a.k != b.k:
        return TOP
    return AV(a.k, max(a.deg, b.deg), a.rnd | b.rnd, a.inp or b.inp, raw=a.raw or b.raw)


def dep(*vs):
    """Value computed (linearly) from vs."""
    r = None
    for v in vs:
        r = join(r, v)
    if r is not None and r.k == 'PUB':
        return PUB
    return r if r is not None else PUB


def flat(v):
    """Collapse a structured value to its element abstraction."""
    if v.elts is not None:
        r = None
        for e in v.elts:
            r = join(r, flat(e))
        return r if r is not None else PUB
    return v


PUBLIC_ATTRS = {'integral', 'shape', 'size', 'ndim', 'bit_length', 'frac_length', 'order', 'modulus', 'characteristic',
                'ext_deg', 'options', 'threshold', 'parties', 'sec_param', 'no_prss', 'mix32_64bit', 'is_signed',
                'subfield', 'dtype', 'byte_length', 'pid', 'no_async', 'is_additive', 'is_multiplicative', 'is_abelian',
                'degree', 'identity', 'generator', 'curve', 'gap', 'field_size', 'p', 'name', '__name__', 'start_time',
                'version', 'discriminant', 'ndim_'}
TYPE_ATTRS = {'sectype', 'array', 'field', 'group', 'significand_type', 'exponent_type'}
RANDOM_CALLS = {'_random', '_randoms', '_np_randoms'}
BIT_CALLS = {'random_bits', 'np_random_bits', 'random_bit'}
OPEN_CALLS = {'output', 'is_zero_public', 'np_is_zero_public', 'eq_public'}
PRSS_SHARE = {'pseudorandom_share', 'np_pseudorandom_share'}
PRSS_ZERO = {'pseudorandom_share_zero', 'np_pseudorandom_share_0'}
PRODUCT_FUNCS = {'outer', 'convolve', 'matmul', 'dot', 'inner', 'kron', 'multiply'}
LINEAR_NP = {'sum', 'stack', 'vstack', 'hstack', 'concatenate', 'array', 'reshape', 'flip', 'roll', 'transpose', 'diag',
             'cumsum', 'append', 'where', 'fromiter', 'vectorize', 'block', 'squeeze', 'expand_dims', 'take', 'copy',
             'asarray', 'zeros', 'ones', 'empty', 'arange', 'trace', 'diagonal', 'fliplr', 'flipud', 'rot90', 'split',
             'column_stack', 'dstack', 'tril_indices', 'triu_indices', 'negative', 'add', 'subtract', 'left_shift', 'int8',
             'cumulative_sum', 'prod_'}


class Event:
    __slots__ = ('kind', 'node', 'val', 'extra', 'valuation', 'after')

    def __init__(self, kind, node, val=None, extra=None, valuation=None):
        self.kind, self.node, self.val, self.extra, self.valuation = kind, node, val, extra, valuation

    def __repr__(self):
        return f'<{self.kind} {norm(self.node)[:50]} {self.val} {self.extra}>'


class State:
    __slots__ = ('env', 'val', 'ver', 'alive', 'alias', 'flags')

    def __init__(self, env=None, val=None, ver=None, alias=None, flags=None):
        self.env = dict(env or {})
        self.val = dict(val or {})     # atom key -> bool
        self.ver = dict(ver or {})     # name -> version (bumped on assignment)
        self.alive = True
        self.alias = set(alias or ())  # pairs of parameters known to be the same object
        self.flags = dict(flags or {})  # flag name -> bool (is the parameter behind it a secure object)

    def copy(self):
        return State(self.env, self.val, self.ver, self.alias, self.flags)


class PAI:
    """Interpret one function. `init` maps parameter names to AVs."""

    def __init__(self, fn, resolver, init=None, secure_type_names=(), field_names=()):
        self.fn = fn
        self.rs = resolver
        self.events = []
        self.init = dict(init or {})
        self.nstates = 0
        self.truncated = False
        self.k_names = set()
        self.flag_params = {}
        ps = set(fn.params)
        for n in iter_nodes(fn.node):
            if isinstance(n, ast.Assign) and len(n.targets) == 1 and isinstance(n.targets[0], ast.Name):
                for c in ast.walk(n.value):
                    if isinstance(c, ast.Call) and isinstance(c.func, ast.Name) and c.func.id == 'isinstance' and len(c.args) == 2 \
                            and 'SecureObject' in norm(c.args[1]):
                        base = c.args[0]
                        while isinstance(base, (ast.Subscript, ast.Attribute)):
                            base = base.value
                        # a temporary holding an element of a parameter (`x0 = x[0]`, `x0, y0 = x[0], y[0]`) stands for the parameter
                        hops = 0
                        while isinstance(base, ast.Name) and base.id not in ps and hops < 3:
                            hops += 1
                            from .astq import definitions as _defs
                            vals = [v for _, v, how in _defs(fn.node, base.id) if v is not None]
                            if len(vals) != 1:
                                break
                            base = vals[0]
                            while isinstance(base, (ast.Subscript, ast.Attribute)):
                                base = base.value
                        if isinstance(base, ast.Name) and base.id in ps and isinstance(n.value, (ast.Call, ast.BoolOp)):
                            if isinstance(n.value, ast.Call) or (isinstance(n.value, ast.BoolOp) and isinstance(n.value.op, ast.And)):
                                self.flag_params.setdefault(n.targets[0].id, set()).add(base.id)
        self.pending = []   # stack of per-loop deferred element stores

    # ------------------------------------------------------------------ running
    def run(self):
        s = State(self.init)
        outs = self.block(self.fn.node.body, [s])
        return self.events

    def ev(self, kind, node, st, val=None, extra=None):
        self.events.append(Event(kind, node, val, extra, dict(st.val)))

    # ------------------------------------------------------------------ atoms / tests
    def atom_key(self, e, st):
        names = sorted({n.id for n in ast.walk(e) if isinstance(n, ast.Name)})
        return norm(e) + '|' + ','.join(f'{n}{st.ver.get(n, 0)}' for n in names if st.ver.get(n, 0))

    def truth(self, e, st):
        """Evaluate test e under the valuation: True / False / None (undecided, returns an atom to fork on)."""
        if isinstance(e, ast.UnaryOp) and isinstance(e.op, ast.Not):
            t, a = self.truth(e.operand, st)
            return (None if t is None else not t), a
        if isinstance(e, ast.BoolOp):
            und = None
            if isinstance(e.op, ast.And):
                for v in e.values:
                    t, a = self.truth(v, st)
                    if t is False:
                        return False, None
                    if t is None and und is None:
                        und = a
                return (True, None) if und is None else (None, und)
            for v in e.values:
                t, a = self.truth(v, st)
                if t is True:
                    return True, None
                if t is None and und is None:
                    und = a
            return (False, None) if und is None else (None, und)
        if isinstance(e, ast.Constant):
            return bool(e.value), None
        if isinstance(e, ast.NamedExpr):
            return self.truth(e.value, st)
        # arithmetic decisions on symbolic public integers
        if isinstance(e, ast.Compare) and len(e.ops) == 1 and isinstance(e.ops[0], (ast.Eq, ast.NotEq, ast.Lt, ast.LtE, ast.Gt, ast.GtE)):
            l = self.pub_lin(e.left, st)
            r = self.pub_lin(e.comparators[0], st)
            if l is not None and r is not None:
                d = l - r
                op = type(e.ops[0])
                if d.is_const():
                    c = d.c
                    return {ast.Eq: c == 0, ast.NotEq: c != 0, ast.Lt: c < 0, ast.LtE: c <= 0, ast.Gt: c > 0, ast.GtE: c >= 0}[op], None
                if op in (ast.Eq, ast.NotEq) and len(d.t) == 1 and d.c == 0:
                    # x == 0 style: decided by the truthiness atom of x
                    (sym, co), = d.t.items()
                    key = self._truthy_key(sym, st)
                    if key in st.val:
                        nz = st.val[key]
                        return ((not nz) if op is ast.Eq else nz), None
            # canonical atom: equality form
            if isinstance(e.ops[0], ast.NotEq):
                pos = ast.Compare(left=e.left, ops=[ast.Eq()], comparators=e.comparators)
                k = self.atom_key(pos, st)
                if k in st.val:
                    return (not st.val[k]), None
                return None, (k, True, None)   # (key, negated, atom node)
        if isinstance(e, ast.Compare) and len(e.ops) == 1 and isinstance(e.ops[0], (ast.IsNot, ast.NotIn)):
            # canonical atom: the positive form (`a is b`, `a in b`); the fork refines on the positive atom
            pos = ast.Compare(left=e.left, ops=[ast.Is() if isinstance(e.ops[0], ast.IsNot) else ast.In()], comparators=e.comparators)
            t, a = self.truth(pos, st)
            if t is not None:
                return (not t), None
            return None, a
        k = self.atom_key(e, st)
        if k in st.val:
            return st.val[k], None
        return None, (k, False, e)

    def _truthy_key(self, sym, st):
        return sym + '|' + (f'{sym}{st.ver.get(sym, 0)}' if st.ver.get(sym, 0) else '')

    def pub_lin(self, e, st):
        """Symbolic integer value of a public expression, or None."""
        if isinstance(e, ast.Constant) and isinstance(e.value, int) and not isinstance(e.value, bool):
            return Lin(e.value)
        if isinstance(e, ast.Name):
            v = st.env.get(e.id)
            if v is not None and v.k == 'PUB' and v.lin is not None:
                return v.lin
            if v is None or v.k == 'PUB':
                return Lin.sym(e.id + (f'#{st.ver[e.id]}' if st.ver.get(e.id) else ''))
            return None
        if isinstance(e, ast.BinOp) and isinstance(e.op, (ast.Add, ast.Sub)):
            a, b = self.pub_lin(e.left, st), self.pub_lin(e.right, st)
            if a is None or b is None:
                return None
            return a + b if isinstance(e.op, ast.Add) else a - b
        if isinstance(e, ast.BinOp) and isinstance(e.op, ast.Mult):
            a, b = self.pub_lin(e.left, st), self.pub_lin(e.right, st)
            if a is not None and b is not None:
                if a.is_const():
                    return b * a.c
                if b.is_const():
                    return a * b.c
        if isinstance(e, ast.UnaryOp) and isinstance(e.op, ast.USub):
            a = self.pub_lin(e.operand, st)
            return None if a is None else a * -1
        return None

    def fork(self, test, st):
        """Split st by the truth of test. Returns (true_states, false_states)."""
        t, a = self.truth(test, st)
        if t is True:
            return [st], []
        if t is False:
            return [], [st]
        key, neg, node = a
        s1, s0 = st.copy(), st.copy()
        s1.val[key] = True
        s0.val[key] = False
        self.refine(node, True, s1)
        self.refine(node, False, s0)
        self.nstates += 1
        if self.nstates > MAX_STATES:
            self.truncated = True
            return [st], [st.copy()]
        T1, F1 = self.fork(test, s1) if s1.alive else ([], [])
        T0, F0 = self.fork(test, s0) if s0.alive else ([], [])
        return T1 + T0, F1 + F0

    def is_secure_param(self, p, st):
        for fl, ps in self.flag_params.items():
            if p in ps and fl in st.flags:
                return st.flags[fl]
        if p in self.init and self.init[p].k == 'SEC':
            return True
        return None

    def consistent(self, st):
        for pair in st.alias:
            a, b = tuple(pair)
            sa, sb = self.is_secure_param(a, st), self.is_secure_param(b, st)
            if sa is not None and sb is not None and sa != sb:
                return False
        return True

    def refine(self, atom, truth, st):
        """Narrow the environment by what an atom says about secure-ness of inputs."""
        if atom is None:
            return
        if isinstance(atom, ast.Compare) and len(atom.ops) == 1 and isinstance(atom.ops[0], ast.Is) and truth \
                and isinstance(atom.left, ast.Name) and isinstance(atom.comparators[0], ast.Name):
            st.alias.add(frozenset({atom.left.id, atom.comparators[0].id}))
            if not self.consistent(st):
                st.alive = False
            return
        if isinstance(atom, ast.Name) and atom.id in self.flag_params:
            if not truth:
                for p in self.flag_params[atom.id]:
                    if p in st.env and st.env[p].k == 'SEC':
                        st.env[p] = PUB
            return
        if isinstance(atom, ast.Call) and isinstance(atom.func, ast.Name) and atom.func.id in ('isinstance', 'issubclass') and len(atom.args) == 2:
            cls = norm(atom.args[1])
            if 'Secure' not in cls or 'SecureFloat' in cls or 'SecureFixedPoint' in cls and 'Array' not in cls and atom.func.id == 'issubclass':
                return
            if atom.func.id == 'isinstance':
                base = atom.args[0]
                while isinstance(base, (ast.Subscript, ast.Attribute)):
                    base = base.value
                if isinstance(base, ast.Name) and not truth and base.id in st.env and st.env[base.id].k == 'SEC' and 'SecureObject' in cls:
                    st.env[base.id] = PUB
            elif not truth and ('SecureObject' in cls or 'SecureArray' in cls):
                # the type of the inputs is not a secure type: the inputs are plain shares already
                for k2, v in list(st.env.items()):
                    if v.k == 'SEC' and v.inp:
                        st.env[k2] = AV('SH', 1, v.rnd, v.inp)

    # ------------------------------------------------------------------ statements
    def block(self, stmts, states):
        for s in stmts:
            if not states:
                break
            nxt = []
            for st in states:
                nxt.extend(self.stmt(s, st))
            states = self.merge(nxt)
        return states

    def merge(self, states):
        """Merge states with identical valuations (keeps the state count bounded)."""
        if len(states) <= 1:
            return states
        by = {}
        for s in states:
            key = (tuple(sorted(s.val.items())), tuple(sorted(s.flags.items())), tuple(sorted(tuple(sorted(a)) for a in s.alias)))
            if key in by:
                o = by[key]
                o.env = {k: join(o.env.get(k), s.env.get(k)) if (k in o.env and k in s.env) else TOP for k in set(o.env) | set(s.env)}
            else:
                by[key] = s
        return list(by.values())

    def stmt(self, s, st):
        m = getattr(self, 's_' + type(s).__name__, None)
        if m is None:
            for c in ast.iter_child_nodes(s):
                if isinstance(c, ast.expr):
                    self.x(c, st)
            return [st]
        return m(s, st)

    def s_Expr(self, s, st):
        self.x(s.value, st)
        return [st]

    def s_Pass(self, s, st):
        return [st]

    s_Import = s_ImportFrom = s_Global = s_Nonlocal = s_FunctionDef = s_AsyncFunctionDef = s_ClassDef = s_Pass

    def s_Assert(self, s, st):
        self.x(s.test, st)
        return [st]

    def s_Delete(self, s, st):
        for t in s.targets:
            if isinstance(t, ast.Name):
                st.env.pop(t.id, None)
        return [st]

    def s_Return(self, s, st):
        v = self.x(s.value, st) if s.value is not None else PUB
        self.ev('RETURN', s, st, v)
        return []

    def s_Raise(self, s, st):
        return []

    def s_Break(self, s, st):
        return []

    s_Continue = s_Break

    def bind(self, t, v, st, node=None):
        if isinstance(t, ast.Name):
            st.env[t.id] = v
            st.ver[t.id] = st.ver.get(t.id, 0) + 1
        elif isinstance(t, (ast.Tuple, ast.List)):
            n = len(t.elts)
            if v.elts is not None and len(v.elts) == n and not any(isinstance(x, ast.Starred) for x in t.elts):
                for x, e in zip(t.elts, v.elts):
                    self.bind(x, e, st)
            else:
                fv = flat(v)
                for x in t.elts:
                    self.bind(x.value if isinstance(x, ast.Starred) else x, fv, st)
        elif isinstance(t, ast.Subscript):
            self.x(t.slice, st)
            base = t.value
            while isinstance(base, ast.Subscript):
                base = base.value
            if isinstance(base, ast.Name) and self.pending and not isinstance(t.slice, ast.Slice) \
                    and ({n.id for n in ast.walk(t.slice) if isinstance(n, ast.Name)} & self.pending[-1]['vars']):
                # element store indexed by the loop variable: iteration-local; applied when the loop is left
                d = self.pending[-1]['stores']
                d[base.id] = join(d.get(base.id), flat(v))
                return
            if isinstance(base, ast.Name):
                old = st.env.get(base.id)
                if old is None or old.k == 'PUB':
                    st.env[base.id] = flat(v) if v.k != 'PUB' else (old or PUB)
                else:
                    st.env[base.id] = join(flat(old), flat(v))
        elif isinstance(t, ast.Attribute):
            self.x(t.value, st)
        elif isinstance(t, ast.Starred):
            self.bind(t.value, v, st)

    def s_Assign(self, s, st):
        if len(s.targets) == 1 and isinstance(s.targets[0], ast.Name) and s.targets[0].id in self.flag_params \
                and s.targets[0].id not in st.flags:
            # a flag "is this input a secure object": decide it here, so that the input is typed before use
            flag = s.targets[0].id
            self.x(s.value, st)
            outs = []
            for tv in (True, False):
                c = st.copy()
                c.env[flag] = PUB
                c.ver[flag] = c.ver.get(flag, 0) + 1
                c.flags[flag] = tv
                c.val[self.atom_key(ast.Name(id=flag, ctx=ast.Load()), c)] = tv
                if not tv:
                    for p in self.flag_params[flag]:
                        if p in c.env and flat(c.env[p]).k == 'SEC':
                            c.env[p] = PUB
                if self.consistent(c):
                    outs.append(c)
            self.nstates += 1
            return outs
        v = self.x(s.value, st)
        if isinstance(s.value, ast.Attribute) and norm(s.value).endswith('options.sec_param'):
            for t in s.targets:
                if isinstance(t, ast.Name):
                    self.k_names.add(t.id)
        if isinstance(s.value, (ast.Tuple, ast.List)) and len(s.targets) == 1 and isinstance(s.targets[0], (ast.Tuple, ast.List)) \
                and len(s.value.elts) == len(s.targets[0].elts) and v.elts is not None:
            # simultaneous assignment
            for t, e in zip(s.targets[0].elts, v.elts):
                self.bind(t, e, st)
            return [st]
        if len(s.targets) == 1 and isinstance(s.targets[0], ast.Name) and self._flag_expr(s.value) and v.k == 'PUB':
            # a derived flag (`both = shx and shy`, `small = size == 0`): its truth is tied to the atoms it is made of,
            # so that a later `if both:` is decided consistently with them
            name = s.targets[0].id
            T, F = self.fork(s.value, st)
            outs = []
            for tv, states in ((True, T), (False, F)):
                for c in states:
                    self.bind(s.targets[0], v, c, s)
                    c.val[self.atom_key(ast.Name(id=name, ctx=ast.Load()), c)] = tv
                    outs.append(c)
            return outs
        for t in s.targets:
            self.bind(t, v, st, s)
        return [st]

    @staticmethod
    def _flag_expr(e):
        """boolean combination (and / or / not) of names and simple comparisons, with at least one connective or comparison"""
        if not isinstance(e, (ast.BoolOp, ast.UnaryOp, ast.Compare)):
            return False
        for n in ast.walk(e):
            if isinstance(n, (ast.Call, ast.Await, ast.Subscript, ast.Lambda, ast.IfExp, ast.NamedExpr)):
                return False
            if isinstance(n, ast.UnaryOp) and not isinstance(n.op, ast.Not):
                return False
            if isinstance(n, ast.BinOp):
                return False
        return True

    def s_AnnAssign(self, s, st):
        if s.value is not None:
            self.bind(s.target, self.x(s.value, st), st)
        return [st]

    def s_AugAssign(self, s, st):
        cur = self.x(s.target, st) if not isinstance(s.target, ast.Name) else st.env.get(s.target.id, PUB)
        r = self.x(s.value, st)
        v = self.binop(s.op, cur, r, s, st, s.target, s.value)
        if isinstance(s.target, ast.Name):
            st.env[s.target.id] = v
            st.ver[s.target.id] = st.ver.get(s.target.id, 0) + 1
        else:
            # in-place update of an element
            base = s.target
            while isinstance(base, ast.Subscript):
                base = base.value
            if isinstance(base, ast.Name) and self.pending and isinstance(s.target, ast.Subscript) and \
                    ({n.id for n in ast.walk(s.target.slice) if isinstance(n, ast.Name)} & self.pending[-1]['vars']):
                d = self.pending[-1]['stores']
                prev = d.get(base.id)
                if prev is not None:
                    v = self.binop(s.op, prev, r, s, st, s.target, s.value)
                d[base.id] = join(prev, flat(v)) if prev is None else flat(v) if prev.k == 'PUB' else join(AV(prev.k, 0, frozenset(), False, raw=prev.raw) if False else None, flat(v))
            elif isinstance(base, ast.Name):
                old = st.env.get(base.id)
                st.env[base.id] = join(flat(old), flat(v)) if old is not None and old.k != 'PUB' else flat(v)
        return [st]

    def s_If(self, s, st):
        self.x_cond(s.test, st)
        if any(isinstance(n, ast.Attribute) and n.attr == 'pid' for n in ast.walk(s.test)):
            # party-dependent branch: what is random/secret at some party is so for the protocol; join
            a = self.block(s.body, [st.copy()])
            b = self.block(s.orelse, [st.copy()]) if s.orelse else [st.copy()]
            return self._join_all(a + b) if (a or b) else []
        T, F = self.fork(s.test, st)
        out = []
        if T:
            out.extend(self.block(s.body, T))
        if F:
            out.extend(self.block(s.orelse, F) if s.orelse else F)
        return out

    def _loop(self, s, st, head, loopvars=()):
        entry = st.copy()
        states = [st]
        outer = set().union(*[p['vars'] for p in self.pending]) if self.pending else set()
        self.pending.append({'vars': set(loopvars) | outer, 'stores': {}})
        for _ in range(2):
            for x in states:
                head(x)
            states = self.block(s.body, states)
            states = self._join_all(states + [entry.copy()])
        frame = self.pending.pop()
        for x in states:
            for name, v in frame['stores'].items():
                if self.pending:
                    d = self.pending[-1]['stores']
                    d[name] = join(d.get(name), v)
                else:
                    old = x.env.get(name)
                    # all elements are taken to be overwritten by the loop (strong update), unless the old
                    # container held values of higher degree
                    if old is not None and flat(old).k == 'SH' and v.k == 'SH' and flat(old).deg > v.deg:
                        x.env[name] = join(flat(old), v)
                    else:
                        x.env[name] = v
        if s.orelse:
            states = self.block(s.orelse, states)
        return states

    def _join_all(self, states):
        if not states:
            return []
        base = states[0]
        for o in states[1:]:
            base.env = {k: join(base.env.get(k), o.env.get(k)) for k in set(base.env) | set(o.env)}
            base.val = {k: v for k, v in base.val.items() if o.val.get(k) == v}
            base.flags = {k: v for k, v in base.flags.items() if o.flags.get(k) == v}
            base.alias = base.alias & o.alias
            for k, vv in o.ver.items():
                base.ver[k] = max(base.ver.get(k, 0), vv)
        return [base]

    def s_For(self, s, st):
        it = self.x(s.iter, st)

        def head(x):
            self.bind(s.target, self.iter_elem(s.iter, it, x), x)
        return self._loop(s, st, head, astq.assigned_names(s.target))

    s_AsyncFor = s_For

    def iter_elem(self, itnode, it, st):
        """Abstract element yielded when iterating over a value."""
        if isinstance(itnode, ast.Call) and isinstance(itnode.func, ast.Name):
            f = itnode.func.id
            if f == 'enumerate' and itnode.args:
                return AV('PUB', elts=(PUB, flat(self.x_quiet(itnode.args[0], st))))
            if f == 'zip':
                return AV('PUB', elts=tuple(flat(self.x_quiet(a.value if isinstance(a, ast.Starred) else a, st)) for a in itnode.args))
            if f in ('range',):
                return PUB
            if f in ('reversed', 'iter', 'list', 'tuple', 'sorted') and itnode.args:
                return flat(self.x_quiet(itnode.args[0], st))
        return flat(it)

    def x_quiet(self, e, st):
        n = len(self.events)
        v = self.x(e, st)
        del self.events[n:]
        return v

    def s_While(self, s, st):
        def head(x):
            self.x_cond(s.test, x)
        return self._loop(s, st, head)

    def s_With(self, s, st):
        for it in s.items:
            v = self.x(it.context_expr, st)
            if it.optional_vars is not None:
                self.bind(it.optional_vars, v, st)
        return self.block(s.body, [st])

    s_AsyncWith = s_With

    def s_Try(self, s, st):
        entry = st.copy()
        out = self.block(s.body, [st])
        if s.orelse:
            out = self.block(s.orelse, out)
        for h in s.handlers:
            out.extend(self.block(h.body, [entry.copy()]))
        if s.finalbody:
            out = self.block(s.finalbody, out)
        return out

    s_TryStar = s_Try

    def s_Match(self, s, st):
        self.x(s.subject, st)
        out = []
        for c in s.cases:
            out.extend(self.block(c.body, [st.copy()]))
        out.append(st)
        return out

    # ------------------------------------------------------------------ expressions
    def x_cond(self, test, st):
        v = self.x(test, st)
        t = test
        while isinstance(t, ast.UnaryOp) and isinstance(t.op, ast.Not):
            t = t.operand
        # truthiness of a bare name is (also) how emptiness of a list of shares is tested: not a value inspection
        if v.k == 'SH' and not isinstance(t, (ast.Name, ast.NamedExpr)):
            self.ev('BRANCH', test, st, v)

    def x(self, e, st):
        if e is None:
            return PUB
        m = getattr(self, 'x_' + type(e).__name__, None)
        if m is None:
            vs = [self.x(c, st) for c in ast.iter_child_nodes(e) if isinstance(c, ast.expr)]
            return dep(*vs) if vs else TOP
        return m(e, st)

    def x_Constant(self, e, st):
        if isinstance(e.value, int) and not isinstance(e.value, bool):
            return AV('PUB', lin=Lin(e.value))
        return PUB

    def x_JoinedStr(self, e, st):
        return PUB

    def x_Lambda(self, e, st):
        return PUB

    def x_Name(self, e, st):
        v = st.env.get(e.id)
        if v is None:
            return PUB      # globals, builtins, modules
        return v

    def x_Attribute(self, e, st):
        if e.attr == 'threshold':
            self.x(e.value, st)
            return AV('PUB', lin=Lin.sym('T'))
        if e.attr in PUBLIC_ATTRS:
            self.x(e.value, st)
            return PUB
        base = self.x(e.value, st)
        if e.attr in TYPE_ATTRS:
            if e.attr == 'field':
                return AV('PUB', typ='field')
            if e.attr == 'array':
                b0 = flat(base)
                return AV('PUB', typ=b0.typ if b0.k == 'PUB' else None)
            if e.attr in ('sectype', 'significand_type', 'exponent_type'):
                return AV('PUB', typ='sectype')
            return AV('PUB')
        if e.attr == 'value':
            b = flat(base)
            if b.k in ('SEC', 'SH'):
                return AV('SH', max(b.deg, 1), b.rnd, b.inp, raw=True)
            return b
        if e.attr == 'share':
            b = flat(base)
            return b
        if e.attr == 'T':
            return base
        if isinstance(e.value, ast.Name) and e.value.id in ('self', 'np', 'math', 'thresha', 'secrets', 'finfields', 'gmpy2', 'runtime', 'mpc',
                                                            'asyncio', 'pickle', 'itertools', 'functools', 'sectypes', 'asyncoro', 'logging'):
            return PUB
        b = flat(base)
        return b if b.k != 'PUB' else PUB

    def x_Subscript(self, e, st):
        v = self.x(e.value, st)
        self.x(e.slice, st)
        if v.elts is not None:
            i = astq.const_int(e.slice)
            if i is not None and -len(v.elts) <= i < len(v.elts):
                return v.elts[i]
            return flat(v)
        return v

    def x_Slice(self, e, st):
        for c in (e.lower, e.upper, e.step):
            if c is not None:
                self.x(c, st)
        return PUB

    def x_Tuple(self, e, st):
        vs = [self.x(c.value if isinstance(c, ast.Starred) else c, st) for c in e.elts]
        if any(isinstance(c, ast.Starred) for c in e.elts) or len(vs) > 8:
            return dep(*map(flat, vs)) if vs else PUB
        return AV('PUB', elts=tuple(vs))

    x_List = x_Tuple

    def x_Set(self, e, st):
        return dep(*[self.x(c, st) for c in e.elts])

    def x_Dict(self, e, st):
        return dep(*[self.x(c, st) for c in list(e.keys) + list(e.values) if c is not None])

    def x_Starred(self, e, st):
        return self.x(e.value, st)

    def x_NamedExpr(self, e, st):
        v = self.x(e.value, st)
        self.bind(e.target, v, st)
        return v

    def x_IfExp(self, e, st):
        self.x_cond(e.test, st)
        t, _ = self.truth(e.test, st)
        if t is True:
            return self.x(e.body, st)
        if t is False:
            return self.x(e.orelse, st)
        a, b = self.x(e.body, st), self.x(e.orelse, st)
        return join(flat(a), flat(b))

    def x_BoolOp(self, e, st):
        return dep(*[flat(self.x(v, st)) for v in e.values])

    def x_UnaryOp(self, e, st):
        v = flat(self.x(e.operand, st))
        if isinstance(e.op, ast.Not):
            return PUB if v.k in ('PUB', 'SEC') else v
        if isinstance(e.op, ast.Invert) and v.k == 'SH':
            return v   # boolean mask inversion on opened/np masks is public in practice; shares: rare
        if v.k == 'PUB' and v.lin is not None and isinstance(e.op, ast.USub):
            return AV('PUB', lin=v.lin * -1)
        return AV(v.k, v.deg, v.rnd, v.inp, raw=v.raw) if v.k in ('SEC', 'SH') else v

    def x_Compare(self, e, st):
        vs = [flat(self.x(c, st)) for c in [e.left] + list(e.comparators)]
        if all(isinstance(o, (ast.Is, ast.IsNot, ast.In, ast.NotIn)) for o in e.ops):
            return PUB
        r = dep(*vs)
        if r.k == 'SEC':
            return secure(r.rnd, r.inp)
        if r.k == 'SH':
            if not any(isinstance(c, (ast.List, ast.Tuple)) and not c.elts for c in [e.left] + list(e.comparators)):
                self.ev('NONLINEAR', e, st, r, 'comparison')
            return TOP
        return r

    def binop(self, op, a, b, node, st, lnode=None, rnode=None):
        a, b = flat(a), flat(b)
        if a.k == 'TOP' or b.k == 'TOP':
            return TOP
        if a.k == 'PUB' and b.k == 'PUB':
            la, lb = a.lin, b.lin
            if la is not None and lb is not None:
                if isinstance(op, ast.Add):
                    return AV('PUB', lin=la + lb)
                if isinstance(op, ast.Sub):
                    return AV('PUB', lin=la - lb)
                if isinstance(op, ast.Mult) and (la.is_const() or lb.is_const()):
                    return AV('PUB', lin=(lb * la.c) if la.is_const() else (la * lb.c))
                if isinstance(op, ast.FloorDiv) and lb.is_const() and lb.c != 0 and la.c % lb.c == 0 and all(v % lb.c == 0 for v in la.t.values()):
                    return AV('PUB', lin=la * (1 / lb.c))
            return PUB
        if 'SEC' in (a.k, b.k):
            # operator on secure objects: the runtime protocol returns a proper sharing
            return secure(a.rnd | b.rnd, a.inp or b.inp)
        # at least one plain share
        if isinstance(op, (ast.Mult, ast.MatMult)):
            if a.k == 'SH' and b.k == 'SH':
                r = AV('SH', a.deg + b.deg, a.rnd | b.rnd, a.inp or b.inp, raw=a.raw and b.raw)
                self.ev('MUL', node, st, r, (a, b))
                return r
            s = a if a.k == 'SH' else b
            return AV('SH', s.deg, s.rnd, s.inp, raw=s.raw)
        if isinstance(op, (ast.Add, ast.Sub)):
            d = max(x.deg for x in (a, b) if x.k == 'SH')
            return AV('SH', d, a.rnd | b.rnd, a.inp or b.inp, raw=(a.raw if a.k == 'SH' else True) and (b.raw if b.k == 'SH' else True))
        if isinstance(op, ast.LShift):
            if b.k == 'PUB':
                return a
            if a.k == 'PUB':
                self.ev('NONLINEAR', node, st, b, 'public << share')
                return TOP
        if isinstance(op, ast.RShift):
            if b.k == 'PUB' and a.k == 'SH' and not a.raw:
                return a          # field element >> k is division by 2^k (linear)
            self.ev('NONLINEAR', node, st, a if a.k == 'SH' else b, '>> on a raw share')
            return TOP
        if isinstance(op, ast.Div):
            if b.k == 'PUB' and not a.raw:
                return a
            if b.k == 'PUB' and a.raw:
                self.ev('NONLINEAR', node, st, a, '/ on a raw share')
                return TOP
            if a.k == 'PUB' or a.k == 'SH':
                # division by a share: only sound for opened values; the divisor is a share here
                self.ev('NONLINEAR', node, st, b, 'division by a share')
                return TOP
        if isinstance(op, ast.Pow):
            if a.k == 'SH' and b.k == 'PUB':
                c = astq.const_int(rnode) if rnode is not None else None
                if c is not None and c >= 0:
                    r = AV('SH', a.deg * c, a.rnd, a.inp, raw=a.raw)
                    if c >= 2:
                        self.ev('MUL', node, st, r, (a, a))
                    return r
            self.ev('NONLINEAR', node, st, a if a.k == 'SH' else b, '** with a share')
            return TOP
        if isinstance(op, ast.Mod):
            if a.k == 'SH' and b.k == 'PUB' and rnode is not None and ('modulus' in norm(rnode) or 'characteristic' in norm(rnode) or norm(rnode) in ('p',)):
                return a          # reduction modulo the field modulus is a ring homomorphism
            self.ev('NONLINEAR', node, st, a if a.k == 'SH' else b, '% on a share')
            return TOP
        if isinstance(op, (ast.BitAnd, ast.BitOr, ast.BitXor, ast.FloorDiv)):
            self.ev('NONLINEAR', node, st, a if a.k == 'SH' else b, f'{type(op).__name__} on a share')
            return TOP
        return TOP

    def x_BinOp(self, e, st):
        a = self.x(e.left, st)
        b = self.x(e.right, st)
        return self.binop(e.op, a, b, e, st, e.left, e.right)

    def comp(self, e, elts, st):
        saved = dict(st.env)
        for g in e.generators:
            it = self.x(g.iter, st)
            self.bind(g.target, self.iter_elem(g.iter, it, st), st)
            for c in g.ifs:
                self.x(c, st)
        vs = [flat(self.x(x, st)) for x in elts]
        st.env = saved
        return dep(*vs) if len(vs) > 1 else vs[0]

    def x_ListComp(self, e, st):
        return self.comp(e, [e.elt], st)

    x_SetComp = x_GeneratorExp = x_ListComp

    def x_DictComp(self, e, st):
        return self.comp(e, [e.key, e.value], st)

    def x_Await(self, e, st):
        v = e.value
        if isinstance(v, ast.Call) and isinstance(v.func, ast.Attribute) and v.func.attr in ('gather', 'gather_shares'):
            outs = []
            for a in v.args:
                x = self.x(a, st)
                outs.append(self.gathered(x))
            if len(outs) == 1:
                return outs[0]
            return AV('PUB', elts=tuple(outs))
        x = self.x(v, st)
        return self.gathered(x)

    def gathered(self, x):
        if x.elts is not None:
            return AV('PUB', elts=tuple(self.gathered(e) for e in x.elts))
        if x.k == 'SEC' and x.typ == 'pubwrap':
            return PUB
        if x.k == 'SEC':
            return AV('SH', max(1, x.deg), x.rnd, x.inp)
        return x

    def x_Yield(self, e, st):
        return TOP

    x_YieldFrom = x_Yield

    # ------------------------------------------------------------------ calls
    def bound_bits(self, e, st):
        """log2 of a bound expression `1 << E` / `2**E` -> Lin E (symbols: names as written)."""
        e2 = e
        if isinstance(e2, ast.Name):
            v = astq.sole_definition(self.fn.node, e2.id)
            if v is not None:
                e2 = v
        if isinstance(e2, ast.BinOp) and isinstance(e2.op, ast.LShift) and astq.const_int(e2.left) == 1:
            return self.sym_lin(e2.right)
        if isinstance(e2, ast.BinOp) and isinstance(e2.op, ast.Pow) and astq.const_int(e2.left) == 2:
            return self.sym_lin(e2.right)
        if isinstance(e2, ast.BinOp) and isinstance(e2.op, ast.FloorDiv):
            inner = self.bound_bits(e2.left, st)
            return inner   # dividing by the number of contributors: the *sum* has the bound of the numerator
        if isinstance(e2, ast.BinOp) and isinstance(e2.op, ast.Add) and astq.const_int(e2.right) is not None:
            return self.bound_bits(e2.left, st)
        return None

    def sym_lin(self, e):
        """Linear form over the function's public names; sec_param names are normalised to 'k'."""
        env = {n: Lin.sym('k') for n in self.k_names}
        l = to_lin(e, env, opaque=True)
        if l is None:
            return None
        t = {}
        for s, c in l.t.items():
            if 'sec_param' in s:
                t['k'] = t.get('k', 0) + c
            else:
                t[s] = t.get(s, 0) + c
        return Lin(l.c, t)

    def x_Call(self, e, st):
        f = e.func
        name = f.attr if isinstance(f, ast.Attribute) else (f.id if isinstance(f, ast.Name) else None)
        site = f'{getattr(e, "lineno", 0)}'
        recv = None
        if isinstance(f, ast.Attribute):
            recv = self.x(f.value, st)
        args = [self.x(a.value if isinstance(a, ast.Starred) else a, st) for a in e.args]
        kws = {k.arg: self.x(k.value, st) for k in e.keywords}
        allv = [flat(a) for a in args] + [flat(v) for v in kws.values()]
        ja = dep(*allv) if allv else PUB
        is_rt = isinstance(f, ast.Attribute) and self.rs.is_runtime_expr(self.fn, f.value)
        modname = f.value.id if isinstance(f, ast.Attribute) and isinstance(f.value, ast.Name) else None

        if name in OPEN_CALLS and (is_rt or modname in ('runtime', 'mpc')):
            a0 = flat(args[0]) if args else PUB
            thr = [k.value for k in e.keywords if k.arg == 'threshold']
            if not thr and len(e.args) > 2:
                thr = [e.args[2]]
            if name == 'eq_public' and len(args) > 1:
                a0 = dep(a0, flat(args[1]))
            tv = self.x_quiet(thr[0], st) if thr else None
            self.ev('OPEN', e, st, a0, {'callee': name, 'threshold': thr[0] if thr else None, 'thr': tv, 'arg': e.args[0] if e.args else None})
            return PUB
        if is_rt or modname in ('runtime', 'mpc'):
            if name in ('gather', 'gather_shares'):
                return self.gathered(args[0]) if len(args) == 1 else AV('PUB', elts=tuple(self.gathered(a) for a in args))
            if name == 'returnType':
                return PUB
            if name == '_reshare':
                a0 = flat(args[0]) if args else PUB
                self.ev('RESHARE', e, st, a0)
                if a0.k in ('SH', 'SEC', 'PUB'):
                    return secure(a0.rnd, a0.inp) if a0.k != 'PUB' else secure(frozenset(), False)
                return TOP
            if name in RANDOM_CALLS:
                bnd = None
                pos = 1 if name == '_random' else 2
                if len(e.args) > pos:
                    bnd = e.args[pos]
                for k in e.keywords:
                    if k.arg == 'bound':
                        bnd = k.value
                if bnd is None:
                    tag = Tag('U', site)
                else:
                    tag = Tag('K', site, self.bound_bits(bnd, st))
                t0 = flat(args[0]).typ if args else None
                if t0 == 'field':
                    # plain shares (PRSS) or a Future of them (no PRSS, awaited before use)
                    return AV('SH', 1, frozenset({tag}), False)
                return secure({tag}, False)
            if name in BIT_CALLS:
                t0 = flat(args[0]).typ if args else None
                if t0 == 'field':
                    return AV('SH', 1, frozenset({Tag('B', site)}), False)
                return secure({Tag('B', site)}, False)
            if name in ('trunc', 'np_trunc'):
                a0 = flat(args[0]) if args else PUB
                self.ev('TRUNC', e, st, a0, {'f': [k.value for k in e.keywords if k.arg == 'f'] or (e.args[1:2])})
                return secure(ja.rnd, ja.inp)
            if name in ('prfs', '_prss_uci', 'barrier', 'logging', 'run', 'start', 'shutdown'):
                return PUB
            if name == 'input':
                return secure(ja.rnd, ja.inp or not ja.rnd)
            if name in ('SecInt', 'SecFxp', 'SecFld', 'SecFlt', 'SecGrp'):
                return AV('PUB', typ='sectype')
            if name == 'transfer':
                return PUB
            # any other runtime method: a secure protocol on its arguments
            if ja.k == 'TOP':
                return secure(frozenset(), True)
            r = secure(ja.rnd, ja.inp) if ja.k != 'PUB' else secure(frozenset(), False)
            if name in ('random',) or (isinstance(f, ast.Attribute) and isinstance(f.value, ast.Attribute) and f.value.attr == 'random'):
                return secure({Tag('R', site)}, False)
            return r
        # runtime.random.X(...) / self.random.X
        if isinstance(f, ast.Attribute) and isinstance(f.value, ast.Attribute) and f.value.attr == 'random' and self.rs.is_runtime_expr(self.fn, f.value.value):
            return secure({Tag('R', site)}, False)
        if modname == 'thresha':
            if name in PRSS_ZERO:
                return AV('SH', 2, frozenset({Tag('Z', site)}), False)
            if name in PRSS_SHARE:
                prfs = e.args[3] if len(e.args) > 3 else None
                pv = prfs
                if isinstance(pv, ast.Name):
                    ds = astq.definitions(self.fn.node, pv.id)
                    pv = ds[0][1] if ds and ds[0][1] is not None else pv
                cls, bits = 'U', None
                if isinstance(pv, ast.Call) and pv.args:
                    b = pv.args[0]
                    if norm(b).endswith('.order'):
                        cls = 'U'
                    elif astq.const_int(b) == 2:
                        cls = 'B'
                    else:
                        cls, bits = 'K', self.bound_bits(b, st)
                return AV('SH', 1, frozenset({Tag(cls, site, bits)}), False)
            return ja
        if modname == 'secrets':
            return AV('SH', 0, frozenset({Tag('L', site)}), False, raw=True)
        if modname == 'np' or (isinstance(f, ast.Attribute) and isinstance(f.value, ast.Attribute) and norm(f.value).startswith('np.')):
            if name in PRODUCT_FUNCS and len(args) >= 2:
                a, b = flat(args[0]), flat(args[1])
                return self.binop(ast.Mult(), a, b, e, st)
            if name in ('prod', 'cumprod', 'cumulative_prod'):
                a = flat(args[0]) if args else PUB
                if a.k == 'SH':
                    if a.rnd and all(t.cls == 'L' for t in a.rnd) and not a.inp:
                        return a
                    self.ev('NONLINEAR', e, st, a, 'np.prod of shares')
                    return TOP
                return a
            if name in ('all', 'any', 'count_nonzero', 'nonzero', 'argmax', 'argmin', 'sort', 'max', 'min', 'amax', 'amin'):
                a = flat(args[0]) if args else PUB
                if a.k == 'SH':
                    self.ev('NONLINEAR', e, st, a, f'np.{name} of shares')
                    return TOP
                return a if a.k != 'SEC' else secure(a.rnd, a.inp)
            if name == 'linalg' or 'linalg' in norm(f):
                return ja
            return ja
        if isinstance(f, ast.Name):
            if f.id in ('len', 'range', 'isinstance', 'issubclass', 'hasattr', 'type', 'id', 'callable', 'print', 'repr', 'str'):
                if f.id == 'type':
                    return AV('PUB', typ='sectype' if allv and allv[0].k == 'SEC' else None)
                return PUB
            if f.id in ('list', 'tuple', 'reversed', 'sorted', 'iter', 'next'):
                return args[0] if args else PUB
            if f.id in ('zip', 'map', 'enumerate', 'filter'):
                if f.id == 'map' and e.args:
                    fn0 = e.args[0]
                    rest = [flat(a) for a in args[1:]]
                    jr = dep(*rest) if rest else PUB
                    if isinstance(fn0, ast.Name) and fn0.id == 'sum':
                        return jr
                    if isinstance(fn0, ast.Name) and fn0.id in ('int', 'float', 'bool') and jr.k == 'SH':
                        return AV('SH', jr.deg, jr.rnd, jr.inp, raw=True)
                    return jr
                return ja
            if f.id in ('sum',):
                return flat(args[0]) if args else PUB
            if f.id in ('int', 'float', 'abs', 'round', 'bool', 'max', 'min', 'pow', 'divmod'):
                if ja.k == 'SH':
                    if f.id in ('int',):
                        return AV('SH', ja.deg, ja.rnd, ja.inp, raw=True)
                    self.ev('NONLINEAR', e, st, ja, f'{f.id}() of a share')
                    return TOP
                return ja
            v = st.env.get(f.id)
            if v is not None and v.k == 'PUB' and v.typ == 'sectype':
                # secure type constructor
                self.ev('CTOR', e, st, flat(args[0]) if args else PUB, {'kw': list(kws)})
                a0 = flat(args[0]) if args else PUB
                return secure(a0.rnd, a0.inp) if a0.k != 'PUB' else secure(frozenset(), False)
            if v is not None and v.k == 'PUB' and v.typ == 'field':
                a0 = flat(args[0]) if args else PUB
                if a0.k == 'SH':
                    return AV('SH', a0.deg, a0.rnd, a0.inp, raw=False)
                return a0
            # local / nested / module function
            tg = self.rs.resolve_call(self.fn, e)
            if tg and any(t.kind in ('pc', 'nopc') or t.cls == 'Runtime' for t in tg):
                return secure(ja.rnd, ja.inp) if ja.k != 'PUB' else secure(frozenset(), False)
            if ja.k == 'SH':
                return AV('SH', ja.deg, ja.rnd, ja.inp, raw=ja.raw)
            return ja
        # callee is itself a type object: stype.field(x), field.array(x), stype.sectype(x), sftype.array(x)
        if isinstance(f, ast.Attribute) and f.attr in TYPE_ATTRS:
            fv = self.x_quiet(f, st)
            a0 = flat(args[0]) if args else PUB
            if fv.typ == 'field':
                if a0.k == 'SH':
                    return AV('SH', a0.deg, a0.rnd, a0.inp, raw=False)
                return a0
            if fv.typ == 'sectype':
                self.ev('CTOR', e, st, a0, {'kw': list(kws)})
                return secure(a0.rnd, a0.inp) if a0.k != 'PUB' else secure(frozenset(), False)
            return a0 if a0.k != 'PUB' else PUB
        # method call on a value
        if recv is not None:
            r = flat(recv)
            tname = norm(f.value)
            if r.k == 'PUB' and r.typ == 'sectype':
                self.ev('CTOR', e, st, flat(args[0]) if args else PUB, {'kw': list(kws)})
                a0 = flat(args[0]) if args else PUB
                return secure(a0.rnd, a0.inp) if a0.k != 'PUB' else secure(frozenset(), False)
            if r.k == 'PUB' and r.typ == 'field':
                a0 = flat(args[0]) if args else PUB
                if name in ('array',) or name is None:
                    pass
                if a0.k == 'SH':
                    return AV('SH', a0.deg, a0.rnd, a0.inp, raw=False)
                if name in ('_sqrt', 'to_bytes', 'from_bytes', '_reciprocal'):
                    return ja
                return a0
            if name in ('is_sqr', 'sqrt', '_sqrt', 'reciprocal', 'bit_length', 'is_integer') and r.k == 'SH':
                self.ev('NONLINEAR', e, st, r, f'.{name}() of a share')
                return TOP
            if name in ('append', 'extend', 'insert'):
                base = f.value
                if isinstance(base, ast.Name) and args:
                    old = st.env.get(base.id)
                    new = flat(args[-1])
                    st.env[base.id] = join(flat(old), new) if old is not None and flat(old).k != 'PUB' else (new if new.k != 'PUB' else (old or PUB))
                return PUB
            if name in ('pop',):
                return r
            if name in ('set_result', 'set_share'):
                return PUB
            if r.k == 'SEC':
                return secure(r.rnd | ja.rnd, r.inp or ja.inp)
            if r.k == 'SH':
                j = dep(r, ja)
                return AV('SH', r.deg, j.rnd, j.inp, raw=r.raw) if j.k == 'SH' else r
            if r.k == 'TOP':
                return TOP
            # method of a public value / module function with share arguments
            if ja.k == 'SH':
                return AV('SH', ja.deg, ja.rnd, ja.inp, raw=ja.raw)
            return ja
        return ja
