"""Developer tool: run every claimed check against every behaviour-preserving refactoring under
/verif/benign/*/patch.diff (applied to a scratch copy, never to /repo); any exit other than 0 is a
false alarm (1) or a brittleness of the analysis (2) and must be fixed in the checker."""
import glob
import json
import os
import sys
from concurrent.futures import ProcessPoolExecutor

from .mutants import seeded_overrides, _run_one
from .props import PROPS

VERIF = os.path.dirname(os.path.dirname(os.path.abspath(__file__)))


def benign_list():
    return sorted(glob.glob(os.path.join(VERIF, 'benign', '*', 'patch.diff')))


def main(argv):
    only = set(argv)
    jobs, idx = [], []
    for patch in benign_list():
        bid = os.path.basename(os.path.dirname(patch))
        if only and bid not in only and bid.split('-')[0] not in only:
            continue
        ov = seeded_overrides(patch)
        if ov is None:
            print(f'{bid}: patch does not apply (stale)')
            continue
        for pid in sorted(PROPS):
            idx.append((bid, pid))
            jobs.append((pid, ov))
    with ProcessPoolExecutor(max_workers=min(16, os.cpu_count() or 4)) as ex:
        res = list(ex.map(_run_one, jobs, chunksize=4))
    bad = {}
    for (bid, pid), (code, hits) in zip(idx, res):
        if code != 0:
            bad.setdefault(bid, []).append((pid, code, hits[:2]))
    seen = sorted({b for b, _ in idx})
    for bid in seen:
        if bid in bad:
            print(f'{bid}: ALARM')
            for pid, code, hits in bad[bid]:
                print(f'     {pid} exit={code} {hits}')
        else:
            print(f'{bid}: silent')
    return 1 if bad else 0


if __name__ == '__main__':
    sys.exit(main(sys.argv[1:]))
