"""Callee resolution over the source model (the repo routes nearly everything through
`self.` / `runtime.` / module attributes, local aliases and operator dunders)."""
import ast

from .core import AnalysisError, Func, iter_nodes, unparse

RUNTIME_CLASS = 'runtime::Runtime'
# names under which the one Runtime instance is reachable in library / client code
RUNTIME_NAMES = {'runtime', 'mpc', 'rt'}

BINOP_DUNDER = {ast.Add: 'add', ast.Sub: 'sub', ast.Mult: 'mul', ast.Div: 'truediv', ast.Mod: 'mod',
                ast.FloorDiv: 'floordiv', ast.Pow: 'pow', ast.LShift: 'lshift', ast.RShift: 'rshift',
                ast.MatMult: 'matmul', ast.BitAnd: 'and', ast.BitOr: 'or', ast.BitXor: 'xor'}
CMP_DUNDER = {ast.Lt: 'lt', ast.LtE: 'le', ast.Eq: 'eq', ast.NotEq: 'ne', ast.Gt: 'gt', ast.GtE: 'ge'}
CMP_MIRROR = {'lt': 'gt', 'le': 'ge', 'gt': 'lt', 'ge': 'le', 'eq': 'eq', 'ne': 'ne'}
UNARY_DUNDER = {ast.USub: 'neg', ast.UAdd: 'pos', ast.Invert: 'invert'}


class Resolver:
    def __init__(self, model):
        self.model = model
        self.imports = {m: self._imports(t) for m, t in model.trees.items()}
        self._runtime_attr_modules = self._runtime_module_attrs()
        self._alias_cache = {}

    # -- imports: local name -> ('module', modname) | ('func', modname, name)
    def _imports(self, tree):
        out = {}
        for n in ast.walk(tree):
            if isinstance(n, ast.ImportFrom) and n.module and n.module.split('.')[0] == 'mpyc':
                for a in n.names:
                    loc = a.asname or a.name
                    if n.module == 'mpyc':
                        out[loc] = ('module', a.name)
                    else:
                        sub = n.module.split('.', 1)[1]
                        out[loc] = ('func', sub, a.name)
            elif isinstance(n, ast.Import):
                for a in n.names:
                    if a.name.startswith('mpyc.'):
                        sub = a.name.split('.', 1)[1]
                        if a.asname:
                            out[a.asname] = ('module', sub)
                        else:
                            out['mpyc.' + sub] = ('module', sub)
        return out

    def _runtime_module_attrs(self):
        """Class attributes of Runtime bound to modules (random = mpyc.random, ...) or functions."""
        out = {}
        c = self.model.classes.get(RUNTIME_CLASS)
        if c is None:
            return out
        for s in c.body:
            if isinstance(s, ast.Assign) and len(s.targets) == 1 and isinstance(s.targets[0], ast.Name):
                v = s.value
                if isinstance(v, ast.Call) and unparse(v.func) == 'staticmethod' and v.args:
                    v = v.args[0]
                txt = unparse(v)
                name = s.targets[0].id
                if txt.startswith('mpyc.'):
                    parts = txt.split('.')
                    if len(parts) == 2 and parts[1] in self.model.trees:
                        out[name] = ('module', parts[1])
                    elif len(parts) == 3 and parts[1] in self.model.trees:
                        out[name] = ('func', parts[1], parts[2])
                else:
                    parts = txt.split('.')
                    if len(parts) == 2 and parts[0] in self.model.trees:
                        out[name] = ('func', parts[0], parts[1])
        return out

    # -- class method lookup with (parsed) inheritance
    def method(self, clskey, name, _seen=None):
        _seen = _seen or set()
        if clskey in _seen or clskey not in self.model.classes:
            return None
        _seen.add(clskey)
        ms = self.model.methods(clskey)
        if name in ms:
            return ms[name]
        mod = clskey.split('::')[0]
        for b in self.model.class_bases.get(clskey, []):
            bn = b.split('.')[-1]
            for cand in (f'{mod}::{bn}',) + tuple(k for k in self.model.classes if k.endswith('::' + bn)):
                r = self.method(cand, name, _seen)
                if r is not None:
                    return r
        return None

    def enclosing_class(self, fn):
        f = fn
        while f is not None:
            if f.cls:
                return f'{f.module}::{f.cls}'
            f = f.parent
        return None

    def local_aliases(self, fn):
        """name -> list of value expressions assigned to it inside fn (simple `name = <expr>`)."""
        k = id(fn.node)
        if k not in self._alias_cache:
            al = {}
            for n in iter_nodes(fn.node):
                if isinstance(n, ast.Assign) and len(n.targets) == 1 and isinstance(n.targets[0], ast.Name):
                    if isinstance(n.value, (ast.Attribute, ast.Name)):
                        al.setdefault(n.targets[0].id, []).append(n.value)
            self._alias_cache[k] = al
        return self._alias_cache[k]

    def is_runtime_expr(self, fn, e):
        """Does expression e denote the Runtime instance?"""
        if isinstance(e, ast.Name):
            if e.id == 'self' and self.enclosing_class(fn) == RUNTIME_CLASS:
                return True
            return e.id in RUNTIME_NAMES
        if isinstance(e, ast.Attribute) and e.attr == 'runtime' and isinstance(e.value, ast.Name) and e.value.id == 'self':
            return True
        return False

    def resolve_attr(self, fn, e, depth=0):
        """Resolve an expression used as a callee (or function reference) to a list of Func."""
        model = self.model
        if depth > 4:
            return []
        if isinstance(e, ast.Name):
            # nested function in the enclosing chain
            f = fn
            while f is not None:
                cand = model.funcs.get(f'{f.module}::{f.qualname}.{e.id}')
                if cand is not None:
                    return [cand]
                f = f.parent
            # local alias
            al = self.local_aliases(fn).get(e.id)
            if al:
                out = []
                for v in al:
                    if not (isinstance(v, ast.Name) and v.id == e.id):
                        out.extend(self.resolve_attr(fn, v, depth + 1))
                if out:
                    return out
            cand = model.funcs.get(f'{fn.module}::{e.id}')
            if cand is not None:
                return [cand]
            imp = self.imports.get(fn.module, {}).get(e.id)
            if imp and imp[0] == 'func':
                cand = model.funcs.get(f'{imp[1]}::{imp[2]}')
                return [cand] if cand else []
            return []
        if isinstance(e, ast.Attribute):
            v = e.value
            if self.is_runtime_expr(fn, v):
                ra = self._runtime_attr_modules.get(e.attr)
                if ra and ra[0] == 'func':
                    cand = model.funcs.get(f'{ra[1]}::{ra[2]}')
                    return [cand] if cand else []
                m = self.method(RUNTIME_CLASS, e.attr)
                return [m] if m else []
            if isinstance(v, ast.Name) and v.id in ('self', 'cls'):
                ck = self.enclosing_class(fn)
                if ck:
                    m = self.method(ck, e.attr)
                    return [m] if m else []
                return []
            # runtime.random.X / self.statistics.X
            if isinstance(v, ast.Attribute) and self.is_runtime_expr(fn, v.value):
                ra = self._runtime_attr_modules.get(v.attr)
                if ra and ra[0] == 'module':
                    cand = model.funcs.get(f'{ra[1]}::{e.attr}')
                    return [cand] if cand else []
            # module.X
            txt = unparse(v)
            imp = self.imports.get(fn.module, {}).get(txt)
            if imp and imp[0] == 'module':
                cand = model.funcs.get(f'{imp[1]}::{e.attr}')
                if cand:
                    return [cand]
                # class in module? e.g. thresha.PRF(...)
                return []
            return []
        return []

    def resolve_call(self, fn, call):
        return self.resolve_attr(fn, call.func)
