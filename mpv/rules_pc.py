"""PC rules: program-counter discipline (properties C08, C09, and parts of C11/C15/C18)."""
import ast

from .core import AnalysisError, iter_nodes, norm, unparse
from .canon import is_zero_test
from . import astq
from .astq import (parents, ancestors, calls_named, mentions_attr, mentions_name, definitions,
                   sole_definition, resolve_value, enclosing_loops, enclosing_ifs, const_int)

PRSS_FUNCS = ('pseudorandom_share', 'np_pseudorandom_share', 'pseudorandom_share_zero',
              'np_pseudorandom_share_0')


# ------------------------------------------------------------------------------------------ PC1
def rule_PC1(ctx, rep, scope=None):
    """no_pc purity: nothing reachable after an await in an mpc_coro_no_pc coroutine consumes the
    program counter (such code runs from a bare Task step under the ambient counter).
    scope: qualnames (of module runtime) to restrict the rule to; a coroutine in scope that forks its own
    counter (mpc_coro) discharges the obligation directly."""
    fa = ctx.flow
    n = 0
    for k, fn in sorted(ctx.model.funcs.items()):
        if scope is not None:
            if fn.module != 'runtime' or fn.qualname not in scope:
                continue
            if fn.kind == 'pc':
                n += 1
                rep.ok('PC1', fn, f'{fn.qualname} [own program counter]', 'mpc_coro: messages are labelled under a counter forked for this call', fn.node)
                continue
        if fn.kind != 'nopc':
            continue
        n += 1
        w = fa.walk[k]
        bad = False
        seen = set()
        for s in w.sites:
            if not s.after:
                continue
            r = fa.consuming(s)
            if r and (s.text, s.kind) not in seen:
                seen.add((s.text, s.kind))
                bad = True
                rep.bad('PC1', fn, s.node, f'after the first await of a no_pc coroutine: {r}')
        if not bad:
            post = sum(1 for s in w.sites if s.after)
            rep.ok('PC1', fn, f'{fn.qualname} [post-await sites: {post}]', 'no pc-consuming operation after the first await', fn.node)
    return n


# ------------------------------------------------------------------------------------------ PC2
def rule_PC2(ctx, rep):
    """pc-consumers live in pc contexts:
    (a) _send_message/_receive_message are called only directly inside MPyC coroutines with their
        own counter (or plain coroutines awaited in program order);
    (b) no callback (add_done_callback/call_soon/...), asyncio.Protocol method or __del__ reaches a
        consumer; (c) no plain coroutine that consumes the pc is spawned as a separate task."""
    fa, model = ctx.flow, ctx.model
    prim = {'runtime::Runtime._send_message', 'runtime::Runtime._receive_message'}
    for p in prim:
        model.func(p)
    nprim = 0
    # call sites of every function, to decide whether a plain (synchronous) helper only ever runs inside such a coroutine
    callers = {}
    for k2, fn2 in model.funcs.items():
        for s2 in fa.walk[k2].sites:
            if s2.kind in ('call', 'ref', 'method'):
                for t2 in s2.targets:
                    callers.setdefault(t2, []).append((k2, s2.kind))

    def runs_under_owner(k0, seen=()):
        """a synchronous helper that is only ever *called* (never passed around, registered or spawned), and only from coroutines
        with their own program counter or from other such helpers: its statements run at the caller's program point"""
        f0 = model.funcs[k0]
        if f0.kind == 'pc':
            return True
        if f0.kind != 'sync' or k0 in seen or k0 in prim:
            return False
        cs = callers.get(k0, [])
        if not cs and f0.qualname in model.helpers.get(f0.module, ()):
            return True          # a helper whose every call was replaced by its body (H1): its statements were analysed where they run
        return bool(cs) and all(kind == 'call' and runs_under_owner(kc, seen + (k0,)) for kc, kind in cs)
    for k, fn in sorted(model.funcs.items()):
        for s in fa.walk[k].sites:
            if s.kind in ('call', 'ref') and set(s.targets) & prim:
                nprim += 1
                if fn.kind == 'pc':
                    rep.ok('PC2', fn, s.node, 'message primitive used inside a coroutine with its own program counter')
                elif s.kind == 'call' and runs_under_owner(k):
                    rep.ok('PC2', fn, s.node, 'message primitive used in a synchronous helper that is only called from coroutines with their own program counter')
                else:
                    rep.bad('PC2', fn, s.node, f'message primitive used in a {fn.kind} function: its label is '
                            'the ambient/caller program counter, not one owned by this protocol instance')
    if nprim < 8:
        raise AnalysisError(f'PC2: only {nprim} uses of the message primitives found (expected >= 8)')
    # (b) callback contexts
    cb_funcs = {}
    for k, fn in model.funcs.items():
        ck = f'{fn.module}::{fn.cls}' if fn.cls else None
        if ck and any(b.split('.')[-1] in ('Protocol', 'BaseProtocol', 'DatagramProtocol') for b in model.class_bases.get(ck, [])):
            if fn.node.name in ('connection_made', 'data_received', 'connection_lost', 'eof_received',
                                'pause_writing', 'resume_writing'):
                cb_funcs[k] = 'asyncio.Protocol callback'
        if fn.node.name in ('__del__',):
            cb_funcs[k] = 'finalizer'
    lambdas = []
    for k, fn in model.funcs.items():
        w = fa.walk[k]
        for call, cb, how in w.callbacks:
            if isinstance(cb, ast.Lambda):
                lambdas.append((fn, call, cb, how))
            else:
                for t in fa.rs.resolve_attr(fn, cb):
                    cb_funcs.setdefault(t.key, f'registered with {how} in {fn.qualname}')
    # transitive: functions called from callback functions
    work = list(cb_funcs)
    reach = dict(cb_funcs)
    while work:
        k = work.pop()
        for s in fa.walk[k].sites:
            if s.kind in ('call', 'ref', 'method'):
                for t in s.targets:
                    if t not in reach and model.funcs[t].kind not in ('pc',):
                        reach[t] = f'reached from {k} ({reach[k]})'
                        work.append(t)
    for k, why in sorted(cb_funcs.items()):
        fn = model.funcs[k]
        if k in fa.consumers:
            rep.bad('PC2', fn, fn.qualname, f'{why}: runs at a schedule-dependent moment but consumes the '
                    f'program counter: {fa.consumers[k]}', fn.node)
        else:
            rep.ok('PC2', fn, fn.qualname, f'{why}: reaches no pc-consuming operation', fn.node)
    from .flow import Walker, initial_env
    for fn, call, lam, how in lambdas:
        w = Walker(fn, fa.rs, dict(fa.walk[fn.key].env))
        w.ev(lam.body)
        r = None
        for s in w.sites:
            r = fa.consuming(s)
            if r:
                break
        if r:
            rep.bad('PC2', fn, call, f'lambda registered with {how} consumes the program counter: {r}')
        else:
            rep.ok('PC2', fn, call, f'lambda registered with {how} reaches no pc-consuming operation')
    # (c) spawned coroutines
    for k, fn in sorted(model.funcs.items()):
        for call, coro in fa.walk[k].spawns:
            tg = []
            if isinstance(coro, ast.Call):
                tg = fa.rs.resolve_call(fn, coro)
            bad = [t for t in tg if t.kind == 'async' and t.key in fa.consumers]
            if bad:
                rep.bad('PC2', fn, call, f'plain coroutine {bad[0].key} consumes the pc but is spawned as a separate task')
            else:
                rep.ok('PC2', fn, call, 'task spawn: coroutine is wrapped / does not consume the ambient pc')


# ------------------------------------------------------------------------------------------ PC3
def _is_pc_attr(e):
    return isinstance(e, ast.Attribute) and e.attr == '_program_counter'


def rule_PC3(ctx, rep):
    """swap/restore pairing in _ProgramCounterWrapper.__await__."""
    fn = ctx.model.func('asyncoro::_ProgramCounterWrapper.__await__')
    node = fn.node
    pm = parents(node)
    # locate the driving call coro.send(...)
    sends = [c for c in calls_named(node, 'send') if isinstance(c.func, ast.Attribute)]
    if len(sends) != 1:
        raise AnalysisError(f'PC3: expected exactly one coro.send() in {fn.key}, found {len(sends)}')
    send = sends[0]
    trys = [a for a in ancestors(send, pm) if isinstance(a, ast.Try)]
    if not trys:
        rep.bad('PC3', fn, send, 'coro.send() is not protected by try/finally: an exception or StopIteration '
                'leaves the task\'s program counter installed as the ambient one')
        return
    tr = trys[0]
    # the block containing the try
    holder = pm[id(tr)]
    block = None
    for fld in ('body', 'orelse', 'finalbody'):
        b = getattr(holder, fld, None)
        if isinstance(b, list) and any(x is tr for x in b):
            block = b
    if block is None:
        raise AnalysisError('PC3: cannot locate the block holding the try statement')
    idx = [i for i, x in enumerate(block) if x is tr][0]
    pre = block[:idx] + [s for s in tr.body if astq.position(s) < astq.position(send) and not astq._contains(s, send)]
    # swap-in: <rt>._program_counter = self.pc
    swap = [s for s in pre if isinstance(s, ast.Assign) and any(_is_pc_attr(t) for t in s.targets)]
    if not swap:
        rep.bad('PC3', fn, tr, 'no swap-in of the wrapper\'s own counter before coro.send(): the coroutine step '
                'runs under the ambient program counter')
        return
    swap = swap[-1]
    if not (isinstance(swap.value, ast.Attribute) and swap.value.attr == 'pc' and isinstance(swap.value.value, ast.Name) and swap.value.value.id == 'self'):
        rep.bad('PC3', fn, swap, 'the counter installed before coro.send() is not the wrapper\'s own (self.pc)')
    else:
        rep.ok('PC3', fn, swap, 'own counter installed before the coroutine step')
    # save of the ambient counter into a local, before the swap, in the same iteration
    saves = [s for s in pre if isinstance(s, ast.Assign) and _is_pc_attr(s.value) and len(s.targets) == 1
             and isinstance(s.targets[0], ast.Name) and pre.index(s) < pre.index(swap)]
    if not saves:
        rep.bad('PC3', fn, swap, 'ambient program counter is not saved (to a local, in the same loop iteration) '
                'before the swap-in')
        return
    saved = saves[-1].targets[0].id
    rep.ok('PC3', fn, saves[-1], 'ambient counter saved before swap-in')
    # nothing between swap-in and try may leave the function
    si = block.index(swap) if swap in block else None
    if si is not None:
        for s in block[si + 1:idx]:
            rep.bad('PC3', fn, s, 'statement between the swap-in and the try/finally: an exception here would '
                    'leave the task counter installed')
    # restore in finally
    restores = [s for s in tr.finalbody if isinstance(s, ast.Assign) and any(_is_pc_attr(t) for t in s.targets)
                and isinstance(s.value, ast.Name) and s.value.id == saved]
    if not restores:
        # accept restores on every explicit exit? no: only finally covers exceptions
        rep.bad('PC3', fn, tr, f'the saved ambient counter ({saved}) is not restored in a finally clause: some exit '
                'of the coroutine step leaves the task counter installed')
    else:
        rep.ok('PC3', fn, restores[0], 'ambient counter restored on every exit (finally)')
        # the saved name must not be rebound between save and restore
        for s in list(tr.body) + list(tr.orelse) + [x for h in tr.handlers for x in h.body]:
            for n in ast.walk(s):
                if isinstance(n, ast.Name) and n.id == saved and isinstance(n.ctx, ast.Store):
                    rep.bad('PC3', fn, s, f'saved ambient counter {saved} is overwritten before it is restored')
    # save-back of own counter on the non-terminating path (else branch or after send in body)
    after_send = [s for s in tr.body if astq.position(s) > astq.position(send) and not astq._contains(s, send)] + list(tr.orelse)
    sb = [s for s in after_send if isinstance(s, ast.Assign) and _is_pc_attr(s.value)
          and any(isinstance(t, ast.Attribute) and t.attr == 'pc' and isinstance(t.value, ast.Name) and t.value.id == 'self' for t in s.targets)]
    if not sb:
        rep.bad('PC3', fn, tr, 'the wrapper\'s counter is not saved back (self.pc = runtime._program_counter) after a '
                'non-terminating step: pc increments made during the step are lost or leak')
    else:
        rep.ok('PC3', fn, sb[0], 'own counter saved back after a non-terminating step, before the restore')
    # no suspension while the task counter is installed
    ys = [n for s in tr.body + tr.orelse + [x for h in tr.handlers for x in h.body] + tr.finalbody
          for n in ast.walk(s) if isinstance(n, (ast.Yield, ast.YieldFrom, ast.Await))]
    for y in ys:
        rep.bad('PC3', fn, y, 'suspension point inside the swapped region: other tasks would run under this task\'s counter')
    if not ys:
        rep.ok('PC3', fn, 'no yield between swap-in and restore', '', tr)
    # the value yielded after the try must be the one sent by the coroutine
    # the step loop: swap must happen in every iteration -> save/swap are inside the loop
    loops = [a for a in ancestors(tr, pm) if isinstance(a, (ast.While, ast.For))]
    if loops:
        lp = loops[0]
        for s in (saves[-1], swap):
            if not any(x is s for x in ast.walk(lp)):
                rep.bad('PC3', fn, s, 'save/swap-in is outside the step loop: later steps restore a stale counter')


# ------------------------------------------------------------------------------------------ PC4
def rule_PC4(ctx, rep):
    """fork freshness (_ProgramCounterWrapper.__init__, _hop) and wrapping in mpc_coro."""
    model = ctx.model
    fn = model.func('asyncoro::_ProgramCounterWrapper.__init__')
    body = [s for s in iter_nodes(fn.node) if isinstance(s, ast.stmt)]
    incs = []
    pcdef = None
    for s in body:
        if isinstance(s, ast.AugAssign) and isinstance(s.op, ast.Add) and isinstance(s.target, ast.Subscript) \
                and _is_pc_attr(s.target.value) and const_int(s.target.slice) == 0 and (const_int(s.value) or 0) >= 1:
            incs.append(s)
        if isinstance(s, ast.Assign) and any(isinstance(t, ast.Attribute) and t.attr == 'pc' for t in s.targets):
            pcdef = s
    if pcdef is None:
        raise AnalysisError('PC4: assignment of self.pc not found in _ProgramCounterWrapper.__init__')
    before = [s for s in incs if astq.position(s) < astq.position(pcdef)]
    if not before:
        rep.bad('PC4', fn, pcdef, 'the parent\'s hop counter is not incremented before the child counter is derived: '
                'sibling forks get identical program counters (label collisions)')
    else:
        rep.ok('PC4', fn, before[0], 'parent hop incremented before the child counter is derived')
    v = pcdef.value
    if not (isinstance(v, (ast.List, ast.Tuple)) and len(v.elts) == 2):
        raise AnalysisError('PC4: child counter is not a 2-element [hop, depth] display')
    hop, depth = v.elts
    # hop: a call whose argument is the whole parent counter
    okhop = isinstance(hop, ast.Call) and any(_is_pc_attr(a) for a in hop.args)
    if not okhop:
        # allow explicit dependence on both components
        subs = {const_int(n.slice) for n in ast.walk(hop) if isinstance(n, ast.Subscript) and _is_pc_attr(n.value)}
        okhop = isinstance(hop, ast.Call) and {0, 1} <= subs
    if okhop:
        rep.ok('PC4', fn, hop, 'child hop derived from both components of the parent counter')
    else:
        rep.bad('PC4', fn, hop, 'child hop does not depend on the whole parent counter [hop, depth]: forks at '
                'different depths / positions can collide')
    okd = isinstance(depth, ast.BinOp) and isinstance(depth.op, ast.Add) and \
        ((isinstance(depth.left, ast.Subscript) and _is_pc_attr(depth.left.value) and const_int(depth.left.slice) == 1 and (const_int(depth.right) or 0) >= 1) or
         (isinstance(depth.right, ast.Subscript) and _is_pc_attr(depth.right.value) and const_int(depth.right.slice) == 1 and (const_int(depth.left) or 0) >= 1))
    if okd:
        rep.ok('PC4', fn, depth, 'child depth = parent depth + 1')
    else:
        rep.bad('PC4', fn, depth, 'child depth is not parent depth + c (c >= 1): barriers (_pc_level vs depth) and hop '
                'uniqueness rely on it')
    # _hop depends on its whole argument
    for key in ('asyncoro::_hop', 'runtime::setup.hop'):
        h = model.func(key, required=(key == 'asyncoro::_hop'))
        if h is None:
            continue
        p = h.params[0]
        rets = [n for n in iter_nodes(h.node) if isinstance(n, ast.Return) and n.value is not None]
        good = bool(rets)
        for r in rets:
            uses = [n for n in ast.walk(r.value) if isinstance(n, ast.Name) and n.id == p]
            pm = parents(r.value)
            if not uses or any(isinstance(pm.get(id(u)), ast.Subscript) and pm[id(u)].value is u for u in uses):
                good = False
        if good:
            rep.ok('PC4', h, h.qualname, 'hop function depends on the whole counter', h.node)
        else:
            rep.bad('PC4', h, h.qualname, 'hop function ignores part of the counter it is given', h.node)
    # mpc_coro wraps on the pc path
    mc = model.func('asyncoro::mpc_coro')
    inner = model.func('asyncoro::mpc_coro.typed_asyncoro')
    a = mc.node.args
    dflt = None
    if 'pc' in mc.params and a.defaults:
        idx = mc.params.index('pc') - (len(a.args) - len(a.defaults))
        if 0 <= idx < len(a.defaults):
            dflt = a.defaults[idx]
    if not (isinstance(dflt, ast.Constant) and dflt.value is True):
        rep.bad('PC4', mc, 'mpc_coro(func, pc=...)', 'default of parameter pc is not True: ordinary MPyC coroutines lose their own program counter', mc.node)
    else:
        rep.ok('PC4', mc, 'mpc_coro(func, pc=True)', 'coroutines get their own counter by default', mc.node)
    nopc = model.func('asyncoro::mpc_coro_no_pc')
    kws = [k for c in calls_named(nopc.node, 'mpc_coro') for k in c.keywords if k.arg == 'pc']
    if not kws or not (isinstance(kws[0].value, ast.Constant) and kws[0].value.value is False):
        raise AnalysisError('PC4: mpc_coro_no_pc no longer calls mpc_coro(func, pc=False)')
    tasks = calls_named(inner.node, 'Task')
    if len(tasks) != 1:
        raise AnalysisError(f'PC4: expected one Task(...) in typed_asyncoro, found {len(tasks)}')
    tk = tasks[0]
    arg = tk.args[0] if tk.args else None
    pm = parents(inner.node)
    # the values the scheduled object can hold, each with the condition under which it holds: whenever pc is true the value is
    # built with _ProgramCounterWrapper (decided on path conditions, so flags, polarity and conditional expressions do not matter)
    from . import cond
    good = False
    if arg is not None:
        cases = cond.value_cases(inner, arg, tk, pm)
        # (a definition in terms of the previous value, `coro = wrap(coro)`, is reported as the name with its statement)
        cases = [(f, st.value if isinstance(v, ast.Name) and isinstance(st, ast.Assign) else v, st) for f, v, st in cases]
        on_pc = [(f, v) for f, v, _st in cases if cond.satisfiable(cond.conj([f, cond.atom('pc')]))]
        good = bool(on_pc) and all(v is not None and mentions(v, '_ProgramCounterWrapper') for f, v in on_pc)
    if good:
        rep.ok('PC4', inner, tk, 'on the pc path the coroutine handed to Task is wrapped in _ProgramCounterWrapper')
    else:
        rep.bad('PC4', inner, tk, 'the coroutine scheduled as a Task is not wrapped in _ProgramCounterWrapper on the pc=True '
                'path: its steps run under the ambient counter')
    # the no_async (synchronous) path must come before / not bypass? (single party only) -- not a pc matter


def mentions(node, name):
    return any((isinstance(n, ast.Name) and n.id == name) or (isinstance(n, ast.Attribute) and n.attr == name)
               for n in ast.walk(node))


# ------------------------------------------------------------------------------------------ PC5
def rule_PC5(ctx, rep):
    """label agreement between the sending and the receiving side."""
    model = ctx.model
    snd = model.func('runtime::Runtime._send_message')
    rcv = model.func('runtime::Runtime._receive_message')
    sc = [c for c in calls_named(snd.node, 'send')]
    rc = [c for c in calls_named(rcv.node, 'receive')]
    if len(sc) != 1 or len(rc) != 1:
        raise AnalysisError('PC5: _send_message/_receive_message no longer contain exactly one protocol.send/receive call')
    from . import sem as _sem0
    # the label expressions, through temporaries (`pc = self._program_counter[0]`)
    ls = _sem0.expand(snd, sc[0].args[0], sc[0], parents(snd.node))
    lr = _sem0.expand(rcv, rc[0].args[0], rc[0], parents(rcv.node))
    canon = 'self._program_counter[0]'
    if norm(ls) == norm(lr):
        rep.ok('PC5', snd, sc[0], f'send and receive use the same label expression {norm(ls)}')
    else:
        rep.bad('PC5', snd, sc[0], f'send labels with {norm(ls)} but receive expects {norm(lr)}: no message ever matches')
    for fn, lab, c in ((snd, ls, sc[0]), (rcv, lr, rc[0])):
        if norm(lab) == canon:
            rep.ok('PC5', fn, c, 'label is the hop component of the current program counter')
        else:
            rep.bad('PC5', fn, c, f'label {norm(lab)} is not the hop component of the current program counter')
    # peer selection: same party table on both sides
    from . import sem as _sem
    for fn, c in ((snd, sc[0]), (rcv, rc[0])):
        recv = _sem.expand(fn, c.func.value, c, parents(fn.node))      # through a temporary holding the protocol object
        p = fn.params[1]
        if not (mentions_name(recv, p) and mentions_attr(recv, 'parties') and mentions_attr(recv, 'protocol')):
            rep.bad('PC5', fn, c, f'connection is not selected by the peer argument ({p}) from self.parties[..].protocol')
        else:
            rep.ok('PC5', fn, c, 'connection selected by the peer argument')
    if len(sc[0].args) < 2 or not mentions_name(sc[0].args[1], snd.params[2]):
        rep.bad('PC5', snd, sc[0], 'payload handed to protocol.send is not the data argument')
    # the primitives are unconditional: every call sends / posts the receive (a missing connection must surface as an error, not
    # be skipped), and _receive_message returns what protocol.receive returns on every path
    from . import cond as _cond
    for fn, c, what in ((snd, sc[0], 'sent'), (rcv, rc[0], 'received')):
        pm_ = parents(fn.node)
        cx_ = _cond.context(fn, c, pm_)
        if _cond.equivalent(cx_, _cond.TRUE):
            rep.ok('PC5', fn, c, f'every call is {what}: no condition guards the primitive')
        else:
            rep.bad('PC5', fn, c, f'the message is {what} only when {_cond.fmt(cx_)}: otherwise the call silently does nothing, so a party that lost a connection '
                    'goes on with missing messages instead of failing')
    rets_ = [r_ for r_ in iter_nodes(rcv.node) if isinstance(r_, ast.Return)]
    pmr_ = parents(rcv.node)
    if len(rets_) == 1 and rets_[0].value is not None and any(x_ is rc[0] for x_ in ast.walk(_sem0.expand(rcv, rets_[0].value, rets_[0], pmr_))) is False \
            and norm(_sem0.expand(rcv, rets_[0].value, rets_[0], pmr_)) == norm(_sem0.expand(rcv, rc[0], rc[0], pmr_)) and any(rets_[0] is s_ for s_ in rcv.node.body):
        rep.ok('PC5', rcv, rets_[0], '_receive_message returns the payload / Future of protocol.receive on its only path')
    elif len(rets_) == 1 and rets_[0].value is not None and any(x_ is rc[0] for x_ in ast.walk(rets_[0].value)) and any(rets_[0] is s_ for s_ in rcv.node.body):
        rep.ok('PC5', rcv, rets_[0], '_receive_message returns the payload / Future of protocol.receive on its only path')
    else:
        rep.bad('PC5', rcv, rcv.qualname, '_receive_message does not return the result of protocol.receive on every path (None is gathered as if it were a received value)', rcv.node)
    # MessageExchanger: buffers keyed by the label on all three sides
    ex_send = model.func('asyncoro::MessageExchanger.send')
    ex_recv = model.func('asyncoro::MessageExchanger.receive')
    ex_data = model.func('asyncoro::MessageExchanger.data_received')
    # send: first packed value is the label parameter
    packs = calls_named(ex_send.node, 'pack')
    if len(packs) != 1:
        raise AnalysisError('PC5: MessageExchanger.send no longer has exactly one struct.pack call')
    lab = ex_send.params[1]
    pk = packs[0]
    if len(pk.args) >= 2 and isinstance(pk.args[1], ast.Name) and pk.args[1].id == lab:
        rep.ok('PC5', ex_send, pk, 'label parameter is the first packed field')
    else:
        rep.bad('PC5', ex_send, pk, 'the first packed field is not the label parameter')
    # receive: all buffers accesses keyed by the label parameter
    rl = ex_recv.params[1]
    n = 0
    for sub in iter_nodes(ex_recv.node):
        key = None
        if isinstance(sub, ast.Subscript) and isinstance(sub.value, ast.Attribute) and sub.value.attr == 'buffers':
            key = sub.slice
        if isinstance(sub, ast.Call) and isinstance(sub.func, ast.Attribute) and isinstance(sub.func.value, ast.Attribute) \
                and sub.func.value.attr == 'buffers' and sub.args:
            key = sub.args[0]
        if key is not None:
            n += 1
            if isinstance(key, ast.Name) and key.id == rl:
                rep.ok('PC5', ex_recv, sub, 'buffers keyed by the requested label')
            else:
                rep.bad('PC5', ex_recv, sub, f'buffers accessed with key {norm(key)} instead of the requested label {rl}')
    # data_received: key variable is the first unpacked header field
    hdr = [s for s in iter_nodes(ex_data.node) if isinstance(s, ast.Assign) and isinstance(s.value, ast.Call)
           and astq.attr_tail(s.value.func) == 'unpack_from' and isinstance(s.targets[0], ast.Tuple)]
    if not hdr:
        raise AnalysisError('PC5: header unpack in data_received not found')
    lv = hdr[0].targets[0].elts[0]
    if not isinstance(lv, ast.Name):
        raise AnalysisError('PC5: header unpack target is not a name')
    for sub in iter_nodes(ex_data.node):
        key = None
        if isinstance(sub, ast.Subscript) and isinstance(sub.value, ast.Attribute) and sub.value.attr == 'buffers':
            key = sub.slice
        elif isinstance(sub, ast.Call) and isinstance(sub.func, ast.Attribute) and isinstance(sub.func.value, ast.Attribute) \
                and sub.func.value.attr == 'buffers' and sub.args:
            key = sub.args[0]
        elif isinstance(sub, ast.Compare) and len(sub.comparators) == 1 and isinstance(sub.comparators[0], ast.Attribute) \
                and sub.comparators[0].attr == 'buffers':
            key = sub.left
        if key is not None:
            n += 1
            if isinstance(key, ast.Name) and key.id == lv.id:
                rep.ok('PC5', ex_data, sub, 'buffers keyed by the label read from the frame header')
            else:
                rep.bad('PC5', ex_data, sub, f'buffers accessed with key {norm(key)} instead of the frame label {lv.id}')
    if n < 5:
        raise AnalysisError(f'PC5: only {n} buffer accesses found (expected >= 5)')


# ------------------------------------------------------------------------------------------ PC6
def rule_PC6(ctx, rep):
    """label freshness per epoch: within one MPyC coroutine (one counter value between advancing
    operations) no two messages of the same direction go to / come from the same peer."""
    fa, model = ctx.flow, ctx.model
    prim = {'send': 'runtime::Runtime._send_message', 'recv': 'runtime::Runtime._receive_message'}
    total = 0
    for k, fn in sorted(model.funcs.items()):
        w = fa.walk[k]
        pm = None
        for kind, pk in prim.items():
            sites = [s for s in w.sites if s.kind == 'call' and pk in s.targets]
            if not sites:
                continue
            pm = pm or parents(fn.node)
            total += len(sites)
            for s in sites:
                call = s.node
                peer = call.args[0] if call.args else None
                if peer is None:
                    raise AnalysisError(f'PC6: message primitive without peer argument in {fn.key}')
                problems = []
                for lp in enclosing_loops(call, pm, stop=fn.node):
                    if isinstance(lp, ast.While):
                        problems.append('inside a while loop: the same label is reused in every iteration')
                        continue
                    if isinstance(lp, (ast.For, ast.AsyncFor)):
                        tnames = set(astq.assigned_names(lp.target))
                    else:
                        tnames = set()
                        for g in lp.generators:
                            tnames |= set(astq.assigned_names(g.target))
                    dep = {n.id for n in ast.walk(peer) if isinstance(n, ast.Name)} & tnames
                    # follow one level of local definitions inside the loop
                    if not dep:
                        for nm in [n.id for n in ast.walk(peer) if isinstance(n, ast.Name)]:
                            for st, val, how in definitions(fn.node, nm):
                                if val is not None and astq._contains(lp, st) and {x.id for x in ast.walk(val) if isinstance(x, ast.Name)} & tnames:
                                    dep = {nm}
                    if dep:
                        continue
                    # guarded by <loop target> == self.pid : at most one iteration sends
                    guarded = False
                    for iff, br in enclosing_ifs(call, pm, stop=lp):
                        t = iff.test
                        if br == 'body' and isinstance(t, ast.Compare) and len(t.ops) == 1 and isinstance(t.ops[0], ast.Eq):
                            sides = [t.left, t.comparators[0]]
                            if any(isinstance(x, ast.Name) and x.id in tnames for x in sides) and \
                                    any(isinstance(x, ast.Attribute) and x.attr == 'pid' for x in sides):
                                guarded = True
                    if not guarded:
                        # the same through path conditions: early `continue`, negated tests, nesting (cond.py)
                        from . import cond
                        cx = cond.context(fn, call, pm, stop=lp)
                        for a in cond.atoms_of(cx):
                            if '==' in a and ('.pid' in a or __import__('re').search(r'(?<![\w.])P(?![\w])', a)) and any(__import__('re').search(r'(?<![\w.])' + t_ + r'(?![\w])', a) for t_ in tnames):
                                if not cond.satisfiable(cond.conj([cx, cond.neg(cond.atom(a))])):
                                    guarded = True
                    if not guarded:
                        problems.append(f'peer {norm(peer)} does not vary with the enclosing loop over {norm(lp.target) if hasattr(lp, "target") else "comprehension"}: '
                                        'several messages with one label to the same peer')
                if problems:
                    for p in problems:
                        rep.bad('PC6', fn, call, p)
                else:
                    rep.ok('PC6', fn, call, f'{kind}: peer varies with every enclosing loop (one message per peer per label)')
            # several same-direction sites in one coroutine: must be mutually exclusive or separated
            # by a pc-advancing operation
            if len(sites) > 1:
                for i in range(len(sites)):
                    for j in range(i + 1, len(sites)):
                        a, b = sites[i].node, sites[j].node
                        if _exclusive(a, b, pm, fn.node):
                            continue
                        if _advancing_between(fa, w, a, b):
                            continue
                        rep.bad('PC6', fn, b, f'second {kind} site in the same coroutine with no pc-advancing operation in between '
                                f'(first: {norm(a)[:60]}): both use one label; a peer addressed by both gets a duplicate label')
    if total < 8:
        raise AnalysisError(f'PC6: only {total} message sites analysed (expected >= 8)')


def _exclusive(a, b, pm, stop):
    ia = {id(i): br for i, br in enclosing_ifs(a, pm, stop=stop)}
    for i, br in enclosing_ifs(b, pm, stop=stop):
        if id(i) in ia and ia[id(i)] != br:
            return True
    return False


def _advancing_between(fa, w, a, b):
    pa, pb = astq.position(a), astq.position(b)
    lo, hi = min(pa, pb), max(pa, pb)
    for s in w.sites:
        if lo < astq.position(s.node) < hi and fa.advancing(s):
            return True
    return False


# ------------------------------------------------------------------------------------------ PC7
# Conditions that look party-local to the tagging but are public by the API's contract; one named
# symbol each, with the reason (checked structurally where possible).
PC7_PUBLIC = {
    ('runtime::Runtime.mod', 'b'): 'the divisor of % is a public int wrapped by SecureNumber._coerce (same constant at all '
                                   'parties); Runtime.mod asserts isinstance(b, int) and hands it to _mod "for public b"',
}


def rule_PC7(ctx, rep):
    """party-uniform control flow: no pc-advancing operation is control-dependent on a condition
    computed from party-local data (own pid, plain shares, local entropy, completion state)."""
    fa, model = ctx.flow, ctx.model
    nreg = 0
    for k, fn in sorted(model.funcs.items()):
        w = fa.walk[k]
        exempt = {nm for (fk, nm) in PC7_PUBLIC if fk == k}

        def party_local(test):
            return not ({n.id for n in ast.walk(test) if isinstance(n, ast.Name)} & exempt)
        tagged = [s for s in w.sites if any(party_local(t) for _, t in s.ctrl)]
        conds = [(t, tag) for t, tag, _ in w.cond_sites if tag in ('PID', 'SH', 'RND', 'TIME') and not w._structural(t)
                 and party_local(t)]
        if not conds:
            continue
        nreg += len(conds)
        bad = False
        seen = set()
        for s in tagged:
            if fa.advancing(s) and s.text not in seen:
                seen.add(s.text)
                bad = True
                why = {'PID': 'the party\'s own id', 'SH': 'this party\'s plain share values', 'RND': 'local randomness',
                       'TIME': 'completion state of a future'}[[tg for tg, t in s.ctrl if party_local(t)][0]]
                rep.bad('PC7', fn, s.node, f'pc-advancing operation ({fa.consuming(s)[:90]}) is control-dependent on {why}: '
                        'parties advance their program counters differently')
        if not bad:
            rep.ok('PC7', fn, f'{len(conds)} party-local condition(s), e.g. {norm(conds[0][0])[:60]}',
                   'no pc-advancing operation under them', conds[0][0])
    if nreg < 8:
        raise AnalysisError(f'PC7: only {nreg} party-local conditions recognised (expected >= 8): tagging lost precision')


# ------------------------------------------------------------------------------------------ PC9
def rule_PC9(ctx, rep, scope=None):
    """PRSS input provenance: every pseudorandom_share* call gets a fresh unique common input from
    _prss_uci(), the party count / own id / PRFs of this runtime."""
    fa, model = ctx.flow, ctx.model
    uci_fn = model.func('runtime::Runtime._prss_uci')
    # _prss_uci increments before it reads
    stmts = [s for s in iter_nodes(uci_fn.node) if isinstance(s, ast.stmt)]
    inc = [s for s in stmts if isinstance(s, ast.AugAssign) and isinstance(s.op, ast.Add) and isinstance(s.target, ast.Subscript)
           and _is_pc_attr(s.target.value) and const_int(s.target.slice) == 0 and (const_int(s.value) or 0) >= 1]
    ret = [s for s in stmts if isinstance(s, ast.Return) and s.value is not None]
    if not ret:
        raise AnalysisError('PC9: _prss_uci has no return')
    if not inc or astq.position(inc[0]) > astq.position(ret[0]):
        rep.bad('PC9', uci_fn, ret[0], 'the program counter is not incremented before the unique common input is read: '
                'consecutive PRSS calls reuse one input (identical "random" values)')
    else:
        rep.ok('PC9', uci_fn, inc[0], 'counter incremented before the common input is derived')
    if not any(isinstance(n, ast.Subscript) and _is_pc_attr(n.value) and const_int(n.slice) == 0 for n in ast.walk(ret[0].value)):
        rep.bad('PC9', uci_fn, ret[0], 'the common input is not derived from the hop component of the program counter')
    else:
        rep.ok('PC9', uci_fn, ret[0], 'common input derived from the hop component')
    nsites = 0
    for k, fn in sorted(model.funcs.items()):
        if scope and fn.qualname not in scope and fn.key not in scope:
            continue
        calls = [c for c in iter_nodes(fn.node) if isinstance(c, ast.Call) and astq.attr_tail(c.func) in PRSS_FUNCS
                 and not (fn.module == 'thresha')]
        if not calls:
            continue
        pm = parents(fn.node)
        by_uci_name = {}
        for c in calls:
            nsites += 1
            if len(c.args) < 6:
                raise AnalysisError(f'PC9: PRSS call with unexpected arity in {fn.key}: {norm(c)}')
            field, m, i, prfs, uci, n = c.args[:6]
            probs = []
            # uci
            if isinstance(uci, ast.Call) and astq.attr_tail(uci.func) == '_prss_uci':
                pass
            elif isinstance(uci, ast.Name):
                ds = astq.reaching_definitions(fn.node, uci.id, c, pm)
                if not ds or any(v is None or not (isinstance(v, ast.Call) and astq.attr_tail(v.func) == '_prss_uci') for _, v, _ in ds):
                    probs.append(f'unique common input {uci.id} is not (only) defined by self._prss_uci()')
                else:
                    by_uci_name.setdefault(uci.id, []).append(c)
                    # definition must be in the same loop nest as the use
                    lu = [id(x) for x in enclosing_loops(c, pm, stop=fn.node)]
                    for st, v, _ in ds:
                        ld = [id(x) for x in enclosing_loops(st, pm, stop=fn.node)]
                        if lu != ld:
                            probs.append(f'common input {uci.id} is defined outside the loop in which it is used: reused across iterations')
            else:
                probs.append(f'unique common input {norm(uci)} does not come from self._prss_uci()')
            # m, i, prfs
            mv = resolve_value(fn.node, m)
            if not (isinstance(mv, ast.Call) and astq.attr_tail(mv.func) == 'len' and mv.args and mentions_attr(mv.args[0], 'parties')):
                probs.append(f'party count {norm(m)} is not len(self.parties)')
            iv = resolve_value(fn.node, i)
            if not (isinstance(iv, ast.Attribute) and iv.attr == 'pid'):
                probs.append(f'party index {norm(i)} is not this party\'s pid')
            pv = prfs
            if isinstance(pv, ast.Name):
                vals = [v for _, v, _ in astq.reaching_definitions(fn.node, pv.id, c, pm)]
                if not vals or any(v is None or not (isinstance(v, ast.Call) and astq.attr_tail(v.func) == 'prfs') for v in vals):
                    probs.append(f'PRFs {pv.id} are not (only) obtained from self.prfs(bound)')
            elif not (isinstance(pv, ast.Call) and astq.attr_tail(pv.func) == 'prfs'):
                probs.append(f'PRFs {norm(pv)} are not obtained from self.prfs(bound)')
            if probs:
                for p in probs:
                    rep.bad('PC9', fn, c, p)
            else:
                rep.ok('PC9', fn, c, 'fresh common input, own pid, party count and PRFs of this runtime')
        for nm, cs in by_uci_name.items():
            if len(cs) > 1:
                fields = [norm(c.args[0]) for c in cs]
                prf = {norm(c.args[3]) for c in cs}
                kinds = {astq.attr_tail(c.func) for c in cs}
                if len(set(fields)) == len(fields) and len(prf) == 1 and len(kinds) == 1:
                    rep.ok('PC9', fn, f'{nm} shared by {len(cs)} calls', 'same PRFs over different fields: the deliberate '
                           '"same random value in two fields" idiom', cs[0])
                else:
                    rep.bad('PC9', fn, cs[1], f'common input {nm} is reused by {len(cs)} PRSS calls that are not the same-value-in-two-fields idiom: '
                            'correlated "independent" randomness')
    if not scope and nsites < 14:
        raise AnalysisError(f'PC9: only {nsites} PRSS call sites found (expected >= 14)')


# ------------------------------------------------------------------------------------------ GA1
def rule_GA1(ctx, rep):
    """gather tallies: every pending future/share counted is paired with a decrementing callback and
    the tallier completes exactly when the count returns to zero (awaiting already-completed results)."""
    model = ctx.model
    add = model.func('asyncoro::_SharesTallier._add_callbacks')
    dec = model.func('asyncoro::_SharesTallier._decrement')
    ini = model.func('asyncoro::_SharesTallier.__init__')
    pm = parents(add.node)
    incs = [s for s in iter_nodes(add.node) if isinstance(s, ast.AugAssign) and isinstance(s.op, ast.Add)
            and isinstance(s.target, ast.Attribute) and s.target.attr == 'tally']
    cbs = [c for c in calls_named(add.node, 'add_done_callback')]
    if len(incs) < 2:
        raise AnalysisError('GA1: tally increments / callbacks not found in _SharesTallier._add_callbacks')
    for s in incs:
        holder = pm[id(s)]
        blk = [b for f in ('body', 'orelse') for b in [getattr(holder, f, None)] if isinstance(b, list) and any(x is s for x in b)][0]
        paired = [c for c in cbs if any(astq._contains(x, c) for x in blk)
                  and c.args and isinstance(c.args[0], ast.Attribute) and c.args[0].attr == '_decrement']
        if const_int(s.value) != 1:
            rep.bad('GA1', add, s, 'tally incremented by something other than 1 per pending future')
        elif len(paired) == 1:
            rep.ok('GA1', add, s, 'increment paired with one _decrement callback in the same branch')
        else:
            rep.bad('GA1', add, s, 'tally increment without exactly one matching add_done_callback(self._decrement) in the same branch: '
                    'gather never completes (or completes early)')
    for c in cbs:
        st = astq.enclosing_stmt(c, pm)
        holder = pm[id(st)]
        blk = [b for f in ('body', 'orelse') for b in [getattr(holder, f, None)] if isinstance(b, list) and any(x is st for x in b)][0]
        if not any(x in incs for x in blk):
            rep.bad('GA1', add, c, 'callback registered without counting it in the tally')
    # pending test: callbacks only for futures that are not done; done ones are resolved in place
    for c in cbs:
        conds = [norm(i.test) for i, br in enclosing_ifs(c, pm, stop=add.node)]
        good = any('done()' in t for t in conds)
        if good:
            rep.ok('GA1', add, c, 'callback only for futures that are still pending')
        else:
            rep.bad('GA1', add, c, 'no done() test governs this callback registration')
    # _decrement: decrement by one, then complete when zero
    d = [s for s in iter_nodes(dec.node) if isinstance(s, ast.AugAssign) and isinstance(s.op, ast.Sub)
         and isinstance(s.target, ast.Attribute) and s.target.attr == 'tally' and const_int(s.value) == 1]
    def _tally_zero_branch(i):
        """statements executed when the tally is zero, for an `if` on the tally (any spelling)."""
        z = is_zero_test(i.test)
        if z is not None and isinstance(z, ast.Attribute) and z.attr == 'tally':
            return i.body
        t = i.test
        if isinstance(t, ast.Attribute) and t.attr == 'tally':
            return i.orelse
        if isinstance(t, ast.Compare) and len(t.ops) == 1 and isinstance(t.ops[0], ast.NotEq) and \
                any(isinstance(x, ast.Attribute) and x.attr == 'tally' for x in (t.left, t.comparators[0])) and \
                any(isinstance(x, ast.Constant) and x.value == 0 for x in (t.left, t.comparators[0])):
            return i.orelse
        return None
    fin = [i for i in iter_nodes(dec.node) if isinstance(i, ast.If) and _tally_zero_branch(i) is not None
           and any(calls_named(x, 'set_result') for x in _tally_zero_branch(i))]
    if d and fin and astq.position(d[0]) < astq.position(fin[0]):
        rep.ok('GA1', dec, fin[0], 'decrement by one, then complete when the tally is zero')
    else:
        rep.bad('GA1', dec, dec.qualname, '_decrement does not (decrement by one and then) complete the gather exactly at zero', dec.node)
    # __init__: zero tally completes immediately, else keep obj
    z = [i for i in iter_nodes(ini.node) if isinstance(i, ast.If) and _tally_zero_branch(i) is not None
         and any(calls_named(x, 'set_result') for x in _tally_zero_branch(i))]
    addcall = calls_named(ini.node, '_add_callbacks')
    if z and addcall and astq.position(addcall[0]) < astq.position(z[0]):
        rep.ok('GA1', ini, z[0], 'nothing pending: result set immediately (awaiting already-completed results)')
    else:
        rep.bad('GA1', ini, ini.qualname, 'a gather of already-completed results is never completed', ini.node)
