"""Linear forms over named symbols, built from expression *syntax* (no evaluation of repo code).

Used for byte-count lower bounds (FR2), bit lengths of mask bounds (MK2), prime sizes (CF3) and
scale exponents (FX3).  Symbols are assumed to denote non-negative integers.
"""
import ast
from fractions import Fraction

from .core import norm


class Lin:
    __slots__ = ('c', 't')

    def __init__(self, const=0, terms=None):
        self.c = Fraction(const)
        self.t = {k: Fraction(v) for k, v in (terms or {}).items() if v != 0}

    @staticmethod
    def sym(name):
        return Lin(0, {name: 1})

    def __add__(self, o):
        o = _lin(o)
        t = dict(self.t)
        for k, v in o.t.items():
            t[k] = t.get(k, 0) + v
        return Lin(self.c + o.c, t)

    def __sub__(self, o):
        return self + (_lin(o) * -1)

    def __mul__(self, k):
        k = Fraction(k)
        return Lin(self.c * k, {s: v * k for s, v in self.t.items()})

    def __eq__(self, o):
        if not isinstance(o, (Lin, int, Fraction)):
            return False
        o = _lin(o)
        return self.c == o.c and self.t == o.t

    def __hash__(self):
        return hash((self.c, tuple(sorted(self.t.items()))))

    def is_const(self):
        return not self.t

    def nonneg(self):
        """Provably >= 0 when every symbol is >= 0."""
        return self.c >= 0 and all(v >= 0 for v in self.t.values())

    def coef(self, s):
        return self.t.get(s, Fraction(0))

    def syms(self):
        return set(self.t)

    def __repr__(self):
        parts = []
        for k in sorted(self.t):
            v = self.t[k]
            parts.append(f'{k}' if v == 1 else (f'-{k}' if v == -1 else f'{v}*{k}'))
        if self.c != 0 or not parts:
            parts.append(str(self.c))
        return ' + '.join(parts).replace('+ -', '- ')


def _lin(x):
    return x if isinstance(x, Lin) else Lin(x)


def to_lin(e, env=None, opaque=True):
    """Expression syntax -> Lin (or None).  Names are looked up in env (name -> Lin) and otherwise
    become symbols; with opaque=True unknown sub-expressions become symbols named by their text."""
    env = env or {}
    if isinstance(e, ast.Constant) and isinstance(e.value, int) and not isinstance(e.value, bool):
        return Lin(e.value)
    if isinstance(e, ast.Name):
        return env.get(e.id, Lin.sym(e.id))
    if isinstance(e, ast.UnaryOp) and isinstance(e.op, ast.USub):
        v = to_lin(e.operand, env, opaque)
        return None if v is None else v * -1
    if isinstance(e, ast.UnaryOp) and isinstance(e.op, ast.UAdd):
        return to_lin(e.operand, env, opaque)
    if isinstance(e, ast.BinOp):
        if isinstance(e.op, (ast.Add, ast.Sub)):
            a, b = to_lin(e.left, env, opaque), to_lin(e.right, env, opaque)
            if a is None or b is None:
                return None
            return a + b if isinstance(e.op, ast.Add) else a - b
        if isinstance(e.op, ast.Mult):
            a, b = to_lin(e.left, env, opaque), to_lin(e.right, env, opaque)
            if a is not None and b is not None:
                if a.is_const():
                    return b * a.c
                if b.is_const():
                    return a * b.c
    if opaque:
        return Lin.sym('<' + norm(e) + '>')
    return None


# ------------------------------------------------------------------------------------------------- polynomials
def to_poly(e):
    """Expression syntax -> polynomial over names with integer coefficients {monomial (sorted tuple of names): coef}, or None.
    Handles + - * on names and integer constants (products are distributed): (h + 1) * d == h*d + d."""
    if isinstance(e, ast.Constant) and isinstance(e.value, int) and not isinstance(e.value, bool):
        return {(): e.value} if e.value else {}
    if isinstance(e, ast.Name):
        return {(e.id,): 1}
    if isinstance(e, ast.UnaryOp) and isinstance(e.op, (ast.USub, ast.UAdd)):
        p = to_poly(e.operand)
        if p is None:
            return None
        return {k: -v for k, v in p.items()} if isinstance(e.op, ast.USub) else p
    if isinstance(e, ast.BinOp) and isinstance(e.op, (ast.Add, ast.Sub, ast.Mult)):
        a, b = to_poly(e.left), to_poly(e.right)
        if a is None or b is None:
            return None
        out = {}
        if isinstance(e.op, ast.Mult):
            for ka, va in a.items():
                for kb, vb in b.items():
                    k = tuple(sorted(ka + kb))
                    out[k] = out.get(k, 0) + va * vb
        else:
            sg = 1 if isinstance(e.op, ast.Add) else -1
            out = dict(a)
            for kb, vb in b.items():
                out[kb] = out.get(kb, 0) + sg * vb
        return {k: v for k, v in out.items() if v}
    return None


def poly_sub(a, b):
    out = dict(a)
    for k, v in b.items():
        out[k] = out.get(k, 0) - v
    return {k: v for k, v in out.items() if v}
