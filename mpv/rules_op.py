"""OP rules: operator tables and serialisation as sibling-agreement checks (properties C20, C22, C23,
operator clause of C28)."""
import ast
import copy

from .core import AnalysisError, iter_nodes, norm, cnorm, cnorm_text
from . import astq
from .astq import parents, calls_named, definitions, enclosing_ifs, const_int, attr_tail, reaching_definitions
from .linform import Lin, to_lin

NONCOMM = {'sub': ast.Sub, 'truediv': ast.Div, 'floordiv': ast.FloorDiv, 'mod': ast.Mod, 'pow': ast.Pow, 'lshift': ast.LShift,
           'rshift': ast.RShift, 'matmul': ast.MatMult, 'divmod': None}
CORE_CALLEES = {
    'sub': {'sub', '_sub', 'np_subtract'}, 'truediv': {'div', 'np_divide', '_div'}, 'floordiv': {'_floordiv', 'floordiv', '_div'},
    'mod': {'_mod', 'mod'}, 'divmod': {'_divmod', 'divmod'}, 'pow': {'pow', 'np_pow', 'powmod', '_powmod', '_pow'},
    'matmul': {'np_matmul', 'operation', '_matmul'}, 'lshift': {'_lshift', 'lshift'}, 'rshift': {'_rshift', 'rshift'},
}
OP_MODULES = ('finfields', 'gfpx', 'sectypes', 'secgroups', 'secpols', 'fingroups', 'seclists')


def _trivial(fn_node):
    """Body is just `return NotImplemented` / raise."""
    body = [s for s in fn_node.body if not (isinstance(s, ast.Expr) and isinstance(s.value, ast.Constant))]
    return len(body) == 1 and ((isinstance(body[0], ast.Return) and norm(body[0].value) == 'NotImplemented') or isinstance(body[0], ast.Raise))


def _derived(fn_node, seed):
    """Names (transitively) derived from parameter `seed` by plain assignments."""
    out = {seed}
    changed = True
    while changed:
        changed = False
        for s in iter_nodes(fn_node):
            if isinstance(s, ast.Assign) and len(s.targets) == 1 and isinstance(s.targets[0], ast.Name):
                if norm(s.value) in ('type(self)', 'type(self.value)', 'type(self.modulus)'):
                    continue      # a type object, not an operand
                # names used as operands: occurrences inside `type(<name>)` denote the class, not the value
                typed = {id(a) for c in ast.walk(s.value) if isinstance(c, ast.Call) and isinstance(c.func, ast.Name) and c.func.id == 'type'
                         for a in c.args if isinstance(a, ast.Name)}
                used = {n.id for n in ast.walk(s.value) if isinstance(n, ast.Name) and id(n) not in typed} - {'cls', 'poly', 'secpoly', 'runtime', 'type'}
                if used & out and s.targets[0].id not in out:
                    out.add(s.targets[0].id)
                    changed = True
    return out


def _cores(fn_node, op, selfn, othern):
    """(description, self_first) for every application of the operation `op` to an operand derived from self and
    one derived from other."""
    ds, do = _derived(fn_node, selfn), _derived(fn_node, othern) - {selfn}
    do -= {'cls'}

    def side(e):
        typed = {id(a) for c in ast.walk(e) if isinstance(c, ast.Call) and isinstance(c.func, ast.Name) and c.func.id == 'type'
                 for a in c.args if isinstance(a, ast.Name)}
        names = {n.id for n in ast.walk(e) if isinstance(n, ast.Name) and id(n) not in typed}
        s, o = bool(names & ds) and not (names & do), bool(names & do) and not (names & (ds - do))
        if names & ds and names & do:
            return 'both'
        return 's' if s else ('o' if o else None)
    out = []
    for n in iter_nodes(fn_node):
        if isinstance(n, ast.BinOp) and NONCOMM.get(op) is not None and isinstance(n.op, NONCOMM[op]):
            a, b = side(n.left), side(n.right)
            if {a, b} == {'s', 'o'}:
                out.append((norm(n), a == 's', n))
        if isinstance(n, ast.Call) and attr_tail(n.func) in CORE_CALLEES.get(op, ()) and len(n.args) >= 2:
            sides = [side(a) for a in n.args]
            if 's' in sides and 'o' in sides:
                out.append((norm(n), sides.index('s') < sides.index('o'), n))
    return out


# ---------------------------------------------------------------------------------- OP1
def rule_OP1(ctx, rep, modules=OP_MODULES):
    """reflected operators: the reflected dunder of a non-commutative operator applies the same operation with
    (other, self) order, and is not an alias of the forward one; comparison mirrors swap their arguments."""
    model = ctx.model
    n = 0
    for ck, cnode in sorted(model.classes.items()):
        mod = ck.split('::')[0]
        if mod not in modules:
            continue
        meths = {m.name: m for m in cnode.body if isinstance(m, ast.FunctionDef)}
        alias = model.class_alias[ck]
        for op in NONCOMM:
            fw, rf = f'__{op}__', f'__r{op}__'
            if rf in alias and alias[rf] == fw:
                n += 1
                rep.bad('OP1', (f'mpyc/{mod}.py', ck.split('::')[1]), f'{rf} = {fw}', f'the reflected operator of the non-commutative {op} is an alias of the forward one: b {op} a is computed as a {op} b', cnode)
                continue
            for name, want_self_first in ((fw, True), (rf, False)):
                m = meths.get(name)
                if m is None or _trivial(m) or len(m.args.args) < 2:
                    continue
                selfn, othern = m.args.args[0].arg, m.args.args[1].arg
                cores = _cores(m, op, selfn, othern)
                fnrec = model.by_node.get(id(m))
                if not cores:
                    continue
                n += 1
                wrong = [c for c in cores if c[1] != want_self_first]
                if wrong:
                    rep.bad('OP1', fnrec, wrong[0][2], f'{name} applies {op} with the operands in the order of {"the reflected" if want_self_first else "the forward"} operator '
                            f'({wrong[0][0]}): {"a" if want_self_first else "b"} {op} {"b" if want_self_first else "a"} is computed with swapped arguments')
                else:
                    rep.ok('OP1', fnrec, cores[0][2], f'{name}: operands in {"(self, other)" if want_self_first else "(other, self)"} order')
        # comparison mirrors implemented through a less-than primitive
        for name, want_self_first in (('__lt__', True), ('__ge__', True), ('__gt__', False), ('__le__', False)):
            m = meths.get(name)
            if m is None or _trivial(m) or len(m.args.args) < 2:
                continue
            selfn, othern = m.args.args[0].arg, m.args.args[1].arg
            calls = [c for c in iter_nodes(m) if isinstance(c, ast.Call) and attr_tail(c.func) in ('lt', 'np_less', '_lt', '_less_than') and len(c.args) >= 2]
            fnrec = model.by_node.get(id(m))
            for c in calls:
                forms = {selfn, othern, selfn + '.value', selfn + '.share', othern + '.value', othern + '.share'}
                ops = [norm(a) for a in c.args if norm(a) in forms]
                if len(ops) != 2 or {ops[0].split('.')[0], ops[1].split('.')[0]} != {selfn, othern}:
                    continue
                a0, a1 = ops
                n += 1
                if (a0.split('.')[0] == selfn) == want_self_first:
                    rep.ok('OP1', fnrec, c, f'{name} expressed through less-than with {"(self, other)" if want_self_first else "(other, self)"}')
                else:
                    rep.bad('OP1', fnrec, c, f'{name} calls the less-than primitive with its arguments in the wrong order')
    if modules == OP_MODULES and n < 30:
        raise AnalysisError(f'OP1: only {n} operator implementations analysed (expected >= 30)')


# ---------------------------------------------------------------------------------- OP2
def rule_OP2(ctx, rep):
    """values stay reduced: every in-place operator of the field element / array classes that writes self.value
    reduces it modulo the field modulus before returning self (or stores the result of the helper the forward
    operator trusts with check=False); the constructors reduce."""
    model = ctx.model
    n = 0
    for ck, cnode in sorted(model.classes.items()):
        if not ck.startswith('finfields::'):
            continue
        for m in cnode.body:
            if not (isinstance(m, ast.FunctionDef) and m.name.startswith('__i') and m.name.endswith('__') and m.name not in ('__init__', '__int__', '__iter__', '__invert__', '__index__')):
                continue
            fnrec = model.by_node.get(id(m))
            writes = [s for s in iter_nodes(m) if isinstance(s, (ast.Assign, ast.AugAssign)) and
                      any(norm(t) == 'self.value' for t in (s.targets if isinstance(s, ast.Assign) else [s.target]))]
            if not writes:
                continue
            n += 1
            last = writes[-1]
            reduces = isinstance(last, ast.AugAssign) and isinstance(last.op, ast.Mod) and 'modulus' in norm(last.value)
            if reduces:
                rep.ok('OP2', fnrec, last, 'in-place result reduced modulo the field modulus before returning self')
                continue
            # the __ipow__ idiom: stores the result of the helper whose result the forward operator wraps with check=False
            helper = None
            if isinstance(last, ast.Assign) and isinstance(last.value, ast.Call):
                helper = attr_tail(last.value.func)
            fwd = next((x for x in cnode.body if isinstance(x, ast.FunctionDef) and x.name == '__' + m.name[3:]), None)
            trusted = False
            if helper and fwd is not None:
                for c in iter_nodes(fwd):
                    if isinstance(c, ast.Call) and any(k.arg == 'check' and isinstance(k.value, ast.Constant) and k.value.value is False for k in c.keywords) \
                            and c.args and isinstance(c.args[0], ast.Call) and attr_tail(c.args[0].func) == helper:
                        trusted = True
            if trusted:
                rep.ok('OP2', fnrec, last, f'stores the result of {helper}(), the same reduced value the forward operator wraps with check=False')
            else:
                rep.bad('OP2', fnrec, last, f'{m.name} leaves self.value unreduced: the last write `{norm(last)}` is not followed by a reduction modulo the field modulus '
                        '(the invariant "value is reduced" breaks; equality and hashing of elements go wrong)')
    if n < 15:
        raise AnalysisError(f'OP2: only {n} in-place operators found (expected >= 15)')
    # constructors reduce
    for key, how in (('finfields::PrimeFieldElement.__init__', '__mod__'), ('finfields::ExtensionFieldElement.__init__', '_mod')):
        fn = model.func(key)
        red = [c for c in iter_nodes(fn.node) if isinstance(c, ast.Call) and attr_tail(c.func) == how and 'modulus' in norm(c)]
        sup = calls_named(fn.node, '__init__')
        if red and sup and astq.position(red[0]) < astq.position(sup[0]):
            rep.ok('OP2', fn, red[0], 'constructor reduces the value modulo the field modulus')
        else:
            rep.bad('OP2', fn, fn.qualname, 'constructor stores the value without reducing it modulo the field modulus', fn.node)
    # binary operators construct through the reducing constructor
    base = model.cls('finfields::FiniteFieldElement')
    for m in base.body:
        if isinstance(m, ast.FunctionDef) and m.name in ('__add__', '__radd__', '__sub__', '__rsub__', '__mul__', '__rmul__', '__lshift__', '__neg__'):
            fnrec = model.by_node.get(id(m))
            rets = [r for r in iter_nodes(m) if isinstance(r, ast.Return) and r.value is not None and norm(r.value) != 'NotImplemented']
            bad = [r for r in rets if not (isinstance(r.value, ast.Call) and norm(r.value.func) == 'type(self)' and not r.value.keywords)]
            if bad:
                rep.bad('OP2', fnrec, bad[0], f'{m.name} does not build its result through the reducing constructor type(self)(...)')
            else:
                rep.ok('OP2', fnrec, rets[0], 'result built through the reducing constructor')


# ---------------------------------------------------------------------------------- OP3
def rule_OP3(ctx, rep):
    """serialisation agreement: to_bytes/from_bytes share width and byte order, the width covers the field order,
    pickle reconstruction arguments match the factory signatures, field factories are identity-preserving
    (unbounded caches), signed/unsigned views are selected consistently."""
    model = ctx.model
    tb = model.func('finfields::FiniteFieldElement.to_bytes')
    fb = model.func('finfields::FiniteFieldElement.from_bytes')
    wt = [c for c in iter_nodes(tb.node) if isinstance(c, ast.Call) and attr_tail(c.func) == 'to_bytes']
    rd = [c for c in iter_nodes(fb.node) if isinstance(c, ast.Call) and attr_tail(c.func) == 'from_bytes']
    if len(wt) != 1 or len(rd) != 1:
        raise AnalysisError('OP3: int.to_bytes / int.from_bytes calls not found')

    from . import routes, sem
    pmt, pmf = parents(tb.node), parents(fb.node)

    def width(fn, e, use, pm):
        return norm(routes.xp(fn, e, use, pm))
    ww, wo = width(tb, wt[0].args[0], wt[0], pmt), norm(wt[0].args[1])
    sl = rd[0].args[0]
    if isinstance(sl, ast.Name):
        # a named block: chunk = data[i:i+r]
        sl_ = routes.xp(fb, sl, rd[0], pmf)
        if isinstance(sl_, ast.Subscript):
            sl = sl_
    if isinstance(sl, ast.Name):
        # the block is an element enumerated from a generator of slices: (data[i:i+r] for i in range(0, len(data), r))
        for b_ in routes._context(fb, rd[0], pmf)[0]:
            if b_.kind == 'iter' and b_.elem == sl.id and b_.src is not None:
                src_ = routes.xp(fb, b_.src, b_.node, pmf)
                if isinstance(src_, (ast.GeneratorExp, ast.ListComp)) and len(src_.generators) == 1 and isinstance(src_.elt, ast.Subscript):
                    sl = src_.elt
    step = None
    for c in iter_nodes(fb.node):
        if isinstance(c, ast.Call) and attr_tail(c.func) == 'range' and len(c.args) == 3:
            step = width(fb, c.args[2], c, pmf)
    rw = None
    if isinstance(sl, ast.Subscript) and isinstance(sl.slice, ast.Slice) and sl.slice.lower is not None and sl.slice.upper is not None:
        lo, hi = routes.lin(fb, sl.slice.lower, rd[0], pmf), routes.lin(fb, sl.slice.upper, rd[0], pmf)
        if lo is not None and hi is not None:
            d = hi - lo
            if len(d.t) == 1 and d.c == 0 and list(d.t.values())[0] == 1:
                rw = list(d.t)[0].strip('<>')
    ro = norm(rd[0].args[1]) if len(rd[0].args) > 1 else None
    if ww == rw == step and wo == ro:
        rep.ok('OP3', fb, rd[0], f'both directions use {ww} bytes per element, byte order {wo}')
    else:
        rep.bad('OP3', fb, rd[0], f'writer uses {ww} bytes ({wo}) per element, reader slices {rw} bytes ({ro}) in steps of {step}')
    for key in ('finfields::pGF', 'finfields::xGF'):
        fn = model.func(key)
        bl = [s for s in iter_nodes(fn.node) if isinstance(s, ast.Assign) and norm(s.targets[0]).endswith('.byte_length')]
        good = False
        if bl:
            v = bl[0].value
            if isinstance(v, ast.BinOp) and ((isinstance(v.op, ast.RShift) and const_int(v.right) == 3) or (isinstance(v.op, ast.FloorDiv) and const_int(v.right) == 8)):
                inner = v.left
                if isinstance(inner, ast.BinOp) and isinstance(inner.op, ast.Add) and const_int(inner.right) == 7 and isinstance(inner.left, ast.Call) \
                        and isinstance(inner.left.func, ast.Attribute) and inner.left.func.attr == 'bit_length' and not inner.left.args:
                    recv = inner.left.func.value
                    pmx = parents(fn.node)
                    ordv = [s_.value for s_ in iter_nodes(fn.node) if isinstance(s_, ast.Assign) and any(norm(t_).endswith('.order') for t_ in s_.targets)]
                    if norm(recv).endswith('.order') or (ordv and cnorm(routes.xp(fn, recv, bl[0], pmx)) == cnorm(routes.xp(fn, ordv[0], bl[0], pmx))):
                        good = True
        if good:
            rep.ok('OP3', fn, bl[0], 'byte length = ceil(order.bit_length() / 8): every element fits')
        else:
            rep.bad('OP3', fn, bl[0] if bl else fn.qualname, 'byte_length is not ceil(order.bit_length()/8): elements of some fields do not fit (OverflowError / truncated round trip)', fn.node)
        unb = [d for d in fn.decorators if d in ('functools.cache', 'cache', 'functools.lru_cache(maxsize=None)', 'lru_cache(maxsize=None)')]
        if unb:
            rep.ok('OP3', fn, f'@{unb[0]}', 'field classes are unique per modulus (unbounded cache): unpickled elements live in the same field class', fn.node)
        else:
            rep.bad('OP3', fn, f'decorators {list(fn.decorators)}', 'the field factory is not cached without bound: once an entry is evicted, unpickling builds a second class for the '
                    'same field and the element is no longer equal to / compatible with the original', fn.node)
    # __reduce__ vs createGF vs factory
    for cls, factory in (('PrimeFieldElement', 'pGF'), ('ExtensionFieldElement', 'xGF')):
        red = model.func(f'finfields::{cls}.__reduce__')
        cre = model.func(f'finfields::{cls}.createGF')
        fac = model.func(f'finfields::{factory}')
        ret = [r for r in iter_nodes(red.node) if isinstance(r, ast.Return)][0].value
        if not (isinstance(ret, ast.Tuple) and len(ret.elts) == 3 and isinstance(ret.elts[1], ast.Tuple)):
            rep.bad('OP3', red, ret, '__reduce__ does not return (callable, args, state)')
            continue
        args = [norm(a) for a in ret.elts[1].elts]
        want = [f'self.{x}' for x in {'pGF': ['modulus', 'nth', 'root'], 'xGF': ['modulus']}[factory]]
        call = [c for c in iter_nodes(cre.node) if isinstance(c, ast.Call) and attr_tail(c.func) == factory]
        okc = call and [norm(a) for a in call[0].args] == cre.params and len(cre.params) == len(fac.params)
        if args == want and norm(ret.elts[0]).endswith('createGF') and okc:
            rep.ok('OP3', red, ret, f'reconstruction arguments {args} match {factory}{tuple(fac.params)} in arity and order')
        else:
            rep.bad('OP3', red, ret, f'__reduce__ passes {args} but the factory chain createGF{tuple(cre.params)} -> {factory}{tuple(fac.params)} expects {want}')
        st = ret.elts[2]
        slot_ok = isinstance(st, ast.Tuple) and len(st.elts) == 2 and isinstance(st.elts[1], ast.Dict) and [norm(k) for k in st.elts[1].keys] == ["'value'"] \
            and norm(st.elts[1].values[0]) == 'self.value'
        if slot_ok:
            rep.ok('OP3', red, st, 'pickled state restores the slot `value` with the element\'s value')
        else:
            rep.bad('OP3', red, st, 'pickled state does not restore slot `value` from self.value')
    pi = model.func('finfields::PrimeFieldElement.__int__')
    pmi = parents(pi.node)
    views = set()
    for r in iter_nodes(pi.node):
        if isinstance(r, ast.Return) and r.value is not None:
            rv, suffix = r.value, ''
            if isinstance(rv, ast.Call) and isinstance(rv.func, ast.Name) and not rv.args and not rv.keywords:
                # the bound method is chosen first and called afterwards: extract = self.signed_ if .. else self.unsigned_; return extract()
                rv, suffix = rv.func, '()'
            for cx, v in sem.guarded_values(pi, rv, r, pmi, ctx=sem._ctx_of(pi, r, pmi)):
                views.add((tuple(sorted(x for x in cx if 'is_signed' in x[0])), norm(v) + suffix))
    if views == {((('self.is_signed', True),), 'self.signed_()'), ((('self.is_signed', False),), 'self.unsigned_()')}:
        rep.ok('OP3', pi, 'self.is_signed', 'signed view for signed fields, unsigned view otherwise', pi.node)
    else:
        rep.bad('OP3', pi, pi.qualname, f'__int__ does not select signed_()/unsigned_() by is_signed (found {sorted(views)})', pi.node)
    sg = model.func('finfields::PrimeFieldElement.signed_')
    pms = parents(sg.node)
    halves = (cnorm_text('self.modulus >> 1 < self.value'), cnorm_text('self.modulus // 2 < self.value'))
    okc, site = False, sg.qualname
    # statement form: `if C: v -= modulus`; expression form: `v - modulus if C else v`
    for i_ in iter_nodes(sg.node):
        if isinstance(i_, ast.If) and not i_.orelse and any(isinstance(x, ast.AugAssign) and isinstance(x.op, ast.Sub) and norm(routes.xp(sg, x.value, x, pms)) == 'self.modulus'
                                                              for x in i_.body):
            if cnorm(routes.xp(sg, i_.test, i_, pms)) in halves:
                okc, site = True, i_.test
        if isinstance(i_, ast.IfExp):
            t = routes.xp(sg, i_.test, i_, pms)
            a, b = routes.xp(sg, i_.body, i_, pms), routes.xp(sg, i_.orelse, i_, pms)
            neg = False
            if isinstance(t, ast.UnaryOp) and isinstance(t.op, ast.Not):
                t, neg = t.operand, True
            if neg:
                a, b = b, a
            if cnorm(t) in halves and norm(a) == 'self.value - self.modulus' and norm(b) == 'self.value':
                okc, site = True, i_.test
    if okc:
        rep.ok('OP3', sg, site, 'signed representative: subtract the modulus above modulus/2')
    else:
        rep.bad('OP3', sg, sg.qualname, 'signed_() is not "v - modulus if v > modulus/2"', sg.node)


# ---------------------------------------------------------------------------------- OP4
def _only_used_by_overridden(model, gen, binc, bm, name, seen=()):
    """Every mention of attribute `name` in module gfpx lies in a Polynomial method that BinaryPolynomial overrides (or that is itself
    only used by such methods), and BinaryPolynomial never reaches up to its base class (no super(), no Polynomial.<m>)."""
    if name in seen:
        return True
    for x in ast.walk(binc):
        if isinstance(x, ast.Call) and isinstance(x.func, ast.Name) and x.func.id == 'super':
            return False
        if isinstance(x, ast.Attribute) and isinstance(x.value, ast.Name) and x.value.id == 'Polynomial':
            return False
    tree = model.trees['gfpx'] if hasattr(model, 'trees') else None
    if tree is None:
        return False
    holders, found = set(), False
    for top in tree.body:
        if isinstance(top, ast.ClassDef) and top.name == gen.name:
            for m in top.body:
                if any(isinstance(x, ast.Attribute) and x.attr == name for x in ast.walk(m)):
                    if not isinstance(m, (ast.FunctionDef, ast.AsyncFunctionDef)):
                        return False
                    holders.add(m.name)
                    found = True
        elif any(isinstance(x, ast.Attribute) and x.attr == name for x in ast.walk(top)):
            return False
    if not found:
        # no mention is left: a small helper that the canonicalisation inlined at every call site is judged with its callers
        return f'{gen.name}.{name}' in model.helpers.get('gfpx', ())
    for holder in holders:
        if holder == name or holder in bm:
            continue
        if not _only_used_by_overridden(model, gen, binc, bm, holder, seen + (name,)):
            return False
    return True


def rule_OP4(ctx, rep):
    """representation overrides: every Polynomial primitive that touches the list representation of its parameters
    is overridden (or aliased) in BinaryPolynomial, whose representation is an int bitmask."""
    model = ctx.model
    gen = model.cls('gfpx::Polynomial')
    binc = model.cls('gfpx::BinaryPolynomial')
    bm = {m.name for m in binc.body if isinstance(m, ast.FunctionDef)} | set(model.class_alias['gfpx::BinaryPolynomial'])
    n = 0
    for m in gen.body:
        if not (isinstance(m, ast.FunctionDef) and m.name.startswith('_') and not m.name.startswith('__')):
            continue
        if m.name in ('_intern', '_coerce'):
            continue
        params = {a.arg for a in m.args.args} - {'cls', 'self'}
        touches = False
        for x in iter_nodes(m):
            if isinstance(x, ast.Subscript) and isinstance(x.value, ast.Name) and x.value.id in params:
                touches = True
            if isinstance(x, ast.Call) and isinstance(x.func, ast.Name) and x.func.id in ('len', 'enumerate', 'reversed', 'zip', 'list') and \
                    any(isinstance(a, ast.Name) and a.id in params for a in x.args):
                touches = True
            if isinstance(x, (ast.List, ast.ListComp)):
                touches = True
            if isinstance(x, ast.Subscript) and norm(x.value) == 'self.value':
                touches = True
            if isinstance(x, ast.Call) and isinstance(x.func, ast.Name) and x.func.id in ('len', 'enumerate', 'reversed', 'zip', 'list') and \
                    any(norm(a) == 'self.value' for a in x.args):
                touches = True
        n += 1
        fnrec = model.by_node.get(id(m))
        if not touches:
            rep.ok('OP4', fnrec, m.name, 'representation independent (expressed through other primitives)', m)
        elif m.name in bm:
            rep.ok('OP4', fnrec, m.name, 'touches the list representation; overridden in BinaryPolynomial', m)
        elif _only_used_by_overridden(model, gen, binc, bm, m.name):
            rep.ok('OP4', fnrec, m.name, 'touches the list representation; only used by primitives that BinaryPolynomial overrides (never reached for bitmasks)', m)
        else:
            rep.bad('OP4', fnrec, m.name, f'{m.name} manipulates the coefficient-list representation but BinaryPolynomial (int bitmask representation) does not override it: '
                    'GF(2)[x] polynomials would be processed as lists', m)
    if n < 25:
        raise AnalysisError(f'OP4: only {n} primitives found (expected >= 25)')
    # public wrappers call the primitive of the same name with (a, b) in order
    for m in gen.body:
        if isinstance(m, ast.FunctionDef) and m.name in ('sub', 'mod', 'divmod', 'powmod', 'lshift', 'rshift', 'gcdext', 'invert'):
            fnrec = model.by_node.get(id(m))
            prim = '_' + m.name
            calls = [c for c in iter_nodes(m) if isinstance(c, ast.Call) and attr_tail(c.func) == prim]
            ps = [a.arg for a in m.args.args if a.arg not in ('cls', 'self')]
            if calls and [norm(a) for a in calls[0].args[:2]] == ps[:2]:
                rep.ok('OP4', fnrec, calls[0], f'{m.name}(a, b) -> {prim}(a, b) in the same order')
            elif calls:
                rep.bad('OP4', fnrec, calls[0], f'{m.name}{tuple(ps)} hands its operands to {prim} as {[norm(a) for a in calls[0].args[:2]]}')


# ---------------------------------------------------------------------------------- OP5
def rule_OP5(ctx, rep):
    """exponentiation siblings: every __pow__/__ipow__ of the field element / array classes hands the exponent it
    was given, unmodified, to the powering primitive (no pre-reduction of the exponent, which is valid only for
    nonzero bases), and restricts it to integers in the same way."""
    model = ctx.model
    n = 0
    for ck, cnode in sorted(model.classes.items()):
        if not ck.startswith('finfields::'):
            continue
        for m in cnode.body:
            if not (isinstance(m, ast.FunctionDef) and m.name in ('__pow__', '__ipow__')) or _trivial(m):
                continue
            fnrec = model.by_node.get(id(m))
            expn = m.args.args[1].arg
            prim = [c for c in iter_nodes(m) if isinstance(c, ast.Call) and attr_tail(c.func) in ('powmod', '_pow', '_powmod')]
            if not prim:
                continue
            n += 1
            rebinds = [s for s in iter_nodes(m) if isinstance(s, (ast.Assign, ast.AugAssign, ast.NamedExpr)) and
                       any(isinstance(t, ast.Name) and t.id == expn for t in (s.targets if isinstance(s, ast.Assign) else [s.target]))]
            passed = any(isinstance(a, ast.Name) and a.id == expn for a in prim[0].args)
            if rebinds:
                rep.bad('OP5', fnrec, rebinds[0], f'{m.name} modifies the exponent ({norm(rebinds[0])}) before powering: a reduction modulo the group order is valid only for '
                        'nonzero bases (0**(q-1) must be 0, 0**-1 must raise), and sibling implementations pass the exponent unchanged')
            elif not passed:
                rep.bad('OP5', fnrec, prim[0], f'{m.name} does not hand the given exponent to the powering primitive')
            else:
                rep.ok('OP5', fnrec, prim[0], 'exponent passed unchanged to the powering primitive')
    if n < 4:
        raise AnalysisError(f'OP5: only {n} exponentiation operators found (expected >= 4)')


# ---------------------------------------------------------------------------------- OP6
SYMMETRIC_OPS = {'add', 'mul', 'eq', 'ne', 'and_', 'or_', 'xor'}
MIRROR_OPS = {'lt': 'gt', 'le': 'ge', 'gt': 'lt', 'ge': 'le'}
REFLECT_DUNDER = {'sub': '__rsub__', 'truediv': '__rtruediv__', 'floordiv': '__rfloordiv__', 'mod': '__rmod__', 'divmod': '__rdivmod__',
                  'pow': '__rpow__', 'lshift': '__rlshift__', 'rshift': '__rrshift__', 'matmul': '__rmatmul__'}


def _opname(e):
    """operator.X -> 'X'; divmod -> 'divmod'."""
    if isinstance(e, ast.Attribute) and isinstance(e.value, ast.Name) and e.value.id == 'operator':
        return e.attr
    if isinstance(e, ast.Name) and e.id == 'divmod':
        return 'divmod'
    return None


def _module_dicts(tree):
    """{name: ast.Dict} for dict literals bound at module level (also under `if np:`)."""
    out = {}
    for n in ast.walk(tree):
        if isinstance(n, (ast.FunctionDef, ast.AsyncFunctionDef, ast.ClassDef)):
            continue
        if isinstance(n, ast.Assign) and len(n.targets) == 1 and isinstance(n.targets[0], ast.Name) and isinstance(n.value, ast.Dict):
            out[n.targets[0].id] = n.value
    return out


def _input_index(e):
    """inputs[k] -> k"""
    if isinstance(e, ast.Subscript) and isinstance(e.value, ast.Name) and e.value.id == 'inputs':
        return const_int(e.slice)
    return None


def _swapped_verdict(y, ret, dicts, opvar, ropvars):
    """Is `ret` a correct way to evaluate ufunc-op y on (inputs[0], inputs[1]) given only inputs[1] is a secure object?
    Returns (True/False/None, text)."""
    if isinstance(ret, ast.Constant) and ret.value is NotImplemented or norm(ret) == 'NotImplemented':
        return True, 'declined (NotImplemented)'
    if not isinstance(ret, ast.Call):
        return None, f'unrecognised result {norm(ret)}'
    f, a = ret.func, ret.args
    # getattr(inputs[1], rname)(inputs[0]) with rname looked up in a table of reflected method names
    if isinstance(f, ast.Call) and isinstance(f.func, ast.Name) and f.func.id == 'getattr' and len(f.args) == 2 and len(a) == 1:
        ri, ai = _input_index(f.args[0]), _input_index(a[0])
        nm = f.args[1]
        dunder = None
        if isinstance(nm, ast.Constant) and isinstance(nm.value, str):
            dunder = nm.value
        elif isinstance(nm, ast.Name) and nm.id in ropvars and ropvars[nm.id] in dicts:
            d = dicts[ropvars[nm.id]]
            ent = [v for k, v in zip(d.keys, d.values) if _opname(k) == y]
            if not ent:
                return None, 'no entry'
            if isinstance(ent[0], ast.Constant) and isinstance(ent[0].value, str):
                dunder = ent[0].value
        if dunder is None or ri != 1 or ai != 0:
            return None, f'unrecognised reflected-method call {norm(ret)}'
        if REFLECT_DUNDER.get(y) == dunder:
            return True, f'{dunder} of the secure operand'
        return False, f'`{y}` is delegated to {dunder}, which is not its reflected form'
    # receiver.__rY__(other)
    if isinstance(f, ast.Attribute) and f.attr.startswith('__') and len(a) == 1:
        ri, ai = _input_index(f.value), _input_index(a[0])
        if ri == 1 and ai == 0:
            if REFLECT_DUNDER.get(y) == f.attr or (y in SYMMETRIC_OPS and f.attr in (f'__{y}__', f'__r{y}__')):
                return True, f'{f.attr} of the secure operand'
            return False, f'{norm(ret)} is not the reflected form of `{y}`'
        if ri == 0 and ai == 1:
            return (f.attr == f'__{y.rstrip("_")}__'), f'{norm(ret)}'
        return None, f'unrecognised operands in {norm(ret)}'
    if len(a) != 2:
        return None, f'unrecognised call {norm(ret)}'
    i0, i1 = _input_index(a[0]), _input_index(a[1])
    if i0 is None or i1 is None:
        return None, f'unrecognised operands in {norm(ret)}'
    # which operator is applied?
    applied = None
    if isinstance(f, ast.Name) and f.id == opvar:
        applied = ('op', y)
    elif isinstance(f, ast.Name) and f.id in ropvars:
        d = dicts.get(ropvars[f.id])
        if d is None:
            return None, f'table {ropvars[f.id]} not found'
        ent = [v for k, v in zip(d.keys, d.values) if _opname(k) == y]
        if not ent:
            return None, 'no entry'       # caller continues with the next statement
        v = ent[0]
        if _opname(v):
            applied = ('op', _opname(v))
        elif isinstance(v, ast.Lambda) and len(v.args.args) == 2 and isinstance(v.body, ast.Call) and isinstance(v.body.func, ast.Attribute) \
                and isinstance(v.body.func.value, ast.Name) and len(v.body.args) == 1 and isinstance(v.body.args[0], ast.Name):
            p0, p1 = v.args.args[0].arg, v.args.args[1].arg
            recv, arg = v.body.func.value.id, v.body.args[0].id
            # map lambda params to inputs
            m = {p0: i0, p1: i1}
            if m.get(recv) == 1 and m.get(arg) == 0:
                if REFLECT_DUNDER.get(y) == v.body.func.attr:
                    return True, f'{v.body.func.attr} of the secure operand (table {ropvars[f.id]})'
                return False, f'table {ropvars[f.id]} maps `{y}` to {v.body.func.attr}, which is not its reflected form'
            return None, 'unrecognised lambda'
        else:
            return None, f'unrecognised table entry {norm(v)}'
    elif _opname(f):
        applied = ('op', _opname(f))
    if applied is None:
        return None, f'unrecognised callee in {norm(ret)}'
    z = applied[1]
    if (i0, i1) == (0, 1):
        return (z == y), f'{z}(inputs[0], inputs[1])'
    if (i0, i1) == (1, 0):
        if y in SYMMETRIC_OPS and z == y:
            return True, f'`{y}` is symmetric'
        if MIRROR_OPS.get(y) == z:
            return True, f'a {y} b evaluated as b {z} a'
        return False, (f'`{y}` is evaluated as {z}(inputs[1], inputs[0]) with the operands exchanged although `{y}` is not symmetric: '
                       f'np.{y}(x, a) with a plain x and a secure a returns {y}(a, x)')
    return None, 'unrecognised operand order'


def rule_OP6(ctx, rep):
    """NumPy ufunc delegation of secure objects: when the secure object is the *second* input of a binary ufunc, the
    operation must be carried out in its reflected form -- exchanged operands are correct only for symmetric
    operators, comparisons need the mirrored comparison, and the other operators their __r<op>__ method."""
    model = ctx.model
    fn = model.func('sectypes::__array_ufunc__')
    tree = model.trees['sectypes']
    dicts = _module_dicts(tree)
    if 'binary_ops' not in dicts:
        raise AnalysisError('OP6: table binary_ops not found in sectypes')
    ops = [_opname(v) for v in dicts['binary_ops'].values]
    if any(o is None for o in ops) or len(ops) < 10:
        raise AnalysisError('OP6: entries of binary_ops are not operator.<name> / divmod')
    # The dispatch is decided on path conditions: for each operator y, the atoms of the conditions governing the return statements
    # are given their value for "ufunc is y, the first input is plain, the second is the secure object" -- table look-ups by the
    # tables' keys -- and the one return whose condition holds is judged.  Walrus tests, assignments followed by `if`, operand
    # temporaries and flipped branches all give the same conditions.
    from . import cond, sem
    import itertools
    pm = parents(fn.node)
    rets = [r for r in iter_nodes(fn.node) if isinstance(r, ast.Return) and r.value is not None]

    def table(e):
        """D for `D.get(X)` / `D[X]` with D one of the module's operator tables"""
        if isinstance(e, ast.Call) and isinstance(e.func, ast.Attribute) and e.func.attr == 'get' and isinstance(e.func.value, ast.Name) and e.func.value.id in dicts:
            return e.func.value.id
        if isinstance(e, ast.Subscript) and isinstance(e.value, ast.Name) and e.value.id in dicts:
            return e.value.id
        return None

    def is_op(e):
        return table(e) == 'binary_ops'

    def atom_value(a, y):
        try:
            e = ast.parse(a, mode='eval').body
        except SyntaxError:
            return None
        if table(e) == 'binary_ops':
            return True
        if table(e) is not None:
            return y in [_opname(k) for k in dicts[table(e)].keys]
        if isinstance(e, ast.Call) and attr_tail(e.func) == 'isinstance' and len(e.args) == 2 and _input_index(e.args[0]) is not None and 'Secure' in norm(e.args[1]):
            return _input_index(e.args[0]) == 1
        if isinstance(e, ast.Compare) and len(e.ops) == 1:
            l, r = e.left, e.comparators[0]
            if isinstance(e.ops[0], (ast.Eq, ast.Is)) and (is_op(l) or is_op(r)):
                return _opname(r if is_op(l) else l) == y
            if isinstance(e.ops[0], ast.In) and is_op(l):
                if isinstance(r, (ast.Tuple, ast.List, ast.Set)):
                    return y in [_opname(x) for x in r.elts]
                if isinstance(r, ast.Name) and r.id in dicts:
                    return y in [_opname(k) for k in dicts[r.id].keys]
            if isinstance(e.ops[0], ast.Is) and isinstance(r, ast.Constant) and r.value is None and table(l) is not None:
                v = atom_value(cnorm(l), y)
                return None if v is None else not v
        return None
    cands = []
    for r in rets:
        cx = cond.context(fn, r, pm)
        if any(table(_parse(a)) == 'binary_ops' for a in cond.implied(cx)):
            cands.append((r, cx))
    if not cands:
        raise AnalysisError('OP6: dispatch on binary_ops not found in sectypes.__array_ufunc__')
    opvar = '__op__'
    for y in ops:
        verdict, why, site = None, 'no statement handles this operator', cands[0][0]
        chosen = []
        for r, cx in cands:
            ats = sorted(cond.atoms_of(cx))
            known = {a: atom_value(a, y) for a in ats}
            unk = [a for a in ats if known[a] is None]
            outcomes = set()
            for bits in itertools.product([True, False], repeat=min(len(unk), 6)):
                v = dict(known)
                v.update(dict(zip(unk, bits)))
                outcomes.add(cond.evalf(cx, v))
            if outcomes == {True}:
                chosen.append(r)
            elif outcomes != {False}:
                chosen.append(None)
                why = f'a condition governing `{norm(r)[:60]}` is not understood: {unk[:2]}'
        if len(chosen) == 1 and chosen[0] is not None:
            r = chosen[0]
            ropvars = {}

            class T(ast.NodeTransformer):
                def visit_Call(self, n):
                    n = self.generic_visit(n)
                    return self.tbl(n)

                def visit_Subscript(self, n):
                    n = self.generic_visit(n)
                    return self.tbl(n)

                def tbl(self, n):
                    d = table(n)
                    if d == 'binary_ops':
                        return ast.Name(id=opvar, ctx=ast.Load())
                    if d is not None:
                        ropvars[f'__{d}__'] = d
                        return ast.Name(id=f'__{d}__', ctx=ast.Load())
                    return n
            val = T().visit(sem.expand(fn, r.value, r, pm))
            verdict, why = _swapped_verdict(y, val, dicts, opvar, ropvars)
            site = r
        if verdict is True:
            rep.ok('OP6', fn, f'np.{y}(x, <secure>)', why, site)
        elif verdict is False:
            rep.bad('OP6', fn, f'np.{y}(x, <secure>)', why, site)
        else:
            rep.skip('OP6', fn, f'np.{y}(x, <secure>)', why, site)


def _parse(a):
    try:
        return ast.parse(a, mode='eval').body
    except SyntaxError:
        return None


# ---------------------------------------------------------------------------------- OP7
BINARY_DUNDERS = ('add', 'sub', 'mul', 'truediv', 'floordiv', 'mod', 'divmod', 'pow', 'lshift', 'rshift', 'and', 'xor', 'or', 'matmul')
COMPARISONS = ('lt', 'le', 'eq', 'ge', 'gt', 'ne')


def rule_OP7(ctx, rep):
    """scalar / array broadcast through the operators: a binary operator method of a secure *scalar* type that hands its operand
    to a runtime protocol first establishes what the operand is -- so that for a secure array it answers NotImplemented and
    Python lets the array's own (reflected / mirrored) method broadcast the scalar.  Checked for every operator the secure
    array class implements, on the path condition of each `runtime.<protocol>(.. other ..)` call."""
    from . import cond
    model = ctx.model
    arr = model.classes.get('sectypes::SecureArray')
    if arr is None:
        raise AnalysisError('OP7: class sectypes.SecureArray not found')
    arr_ops = {m.name for m in arr.body if isinstance(m, ast.FunctionDef)} | set(model.class_alias['sectypes::SecureArray'])
    supported = set()
    for op in BINARY_DUNDERS:
        if f'__{op}__' in arr_ops or f'__r{op}__' in arr_ops:
            supported |= {f'__{op}__', f'__r{op}__'}
    for op in COMPARISONS:
        if f'__{op}__' in arr_ops:
            supported.add(f'__{op}__')
    if len(supported) < 12:
        raise AnalysisError(f'OP7: only {len(supported)} operator methods found on SecureArray')
    # scalar secure types: SecureNumber and its subclasses (transitively), from the parsed class headers
    scal = {'sectypes::SecureNumber'}
    grew = True
    while grew:
        grew = False
        for ck, bases in model.class_bases.items():
            if ck.startswith('sectypes::') and ck not in scal and any(f'sectypes::{b.split(".")[-1]}' in scal for b in bases):
                scal.add(ck)
                grew = True
    n = 0
    for ck in sorted(scal):
        cnode = model.classes[ck]
        for m in cnode.body:
            if not (isinstance(m, ast.FunctionDef) and m.name in supported and len(m.args.args) >= 2):
                continue
            othern = m.args.args[1].arg
            fnrec = model.by_node.get(id(m))
            if fnrec is None:
                continue
            pm = parents(fnrec.node)
            for c in iter_nodes(fnrec.node):
                if not (isinstance(c, ast.Call) and isinstance(c.func, ast.Attribute) and isinstance(c.func.value, ast.Name) and c.func.value.id == 'runtime'
                        and any(isinstance(a, ast.Name) and a.id == othern for a in c.args)):
                    continue
                n += 1
                cx = cond.context(fnrec, c, pm)
                imp, ref = cond.implied(cx), cond.refuted(cx)
                # established: some isinstance(other, <not an array class>) holds, isinstance(other, SecureArray) is excluded, or the
                # operand went through _coerce/_coerce2 and the NotImplemented answer was returned
                est = any(a.startswith(f'isinstance({othern},') and 'Array' not in a and 'SecureObject' not in a for a in imp) \
                    or any(a.startswith(f'isinstance({othern},') and 'SecureArray' in a for a in ref) \
                    or any('_coerce' in a and 'NotImplemented' in a for a in ref)
                if not est and any('NotImplemented' in a and othern in a for a in ref):
                    # `other = self._coerce(other)` (a definition in terms of the previous value) followed by the NotImplemented return
                    ds = astq.reaching_definitions(fnrec.node, othern, c, pm)
                    est = bool(ds) and all(d[1] is not None and isinstance(d[1], ast.Call) and attr_tail(d[1].func) in ('_coerce', '_coerce2') for d in ds)
                if est:
                    rep.ok('OP7', fnrec, c, f'{m.name}: the operand is filtered (NotImplemented for a secure array) before it reaches runtime.{c.func.attr}')
                else:
                    rep.bad('OP7', fnrec, c, f'{m.name} hands its operand to the scalar protocol runtime.{c.func.attr} without establishing what it is: for a secure array '
                            f'operand (scalar {m.name.strip("_")} array, a broadcast plain NumPy supports and the array\'s own method handles) the scalar protocol is '
                            'run on an array and fails, instead of NotImplemented letting the array method take over')
    return n


# ---------------------------------------------------------------------------------- OP8
def _le_atom(t, truth, xpf):
    """a comparison as (Lin, c) meaning Lin <= c, or None"""
    from .linform import to_lin
    if not (isinstance(t, ast.Compare) and len(t.ops) == 1):
        return None
    op = type(t.ops[0])
    if not truth:
        op = {ast.Lt: ast.GtE, ast.GtE: ast.Lt, ast.Gt: ast.LtE, ast.LtE: ast.Gt}.get(op)
    if op not in (ast.Lt, ast.LtE, ast.Gt, ast.GtE):
        return None
    L, R = to_lin(xpf(t.left), opaque=True), to_lin(xpf(t.comparators[0]), opaque=True)
    if L is None or R is None:
        return None
    d, c = (L - R, -1) if op is ast.Lt else (L - R, 0) if op is ast.LtE else (R - L, -1) if op is ast.Gt else (R - L, 0)
    return (d - Lin(d.c), c - d.c)        # constants on the right: m <= n - 1 is m - n <= -1


def rule_OP8(ctx, rep):
    """division algorithm, both representations: `_mod` / `_divmod` hand the dividend back unreduced as the remainder exactly under
    deg a < deg b, with deg as defined by the representation's own `_degree` (len(a) - 1 for coefficient lists, a.bit_length() - 1 for
    bitmasks); any other guard returns a remainder of degree >= deg b for some operands (or reduces needlessly)."""
    from . import routes
    from .linform import to_lin, Lin
    model = ctx.model
    n = 0
    for cname in ('Polynomial', 'BinaryPolynomial'):
        dg = model.func(f'gfpx::{cname}._degree')
        dret = [r for r in iter_nodes(dg.node) if isinstance(r, ast.Return) and r.value is not None]
        dpar = [p for p in dg.params if p not in ('cls', 'self')]
        if len(dret) != 1 or len(dpar) != 1:
            raise AnalysisError(f'OP8: {cname}._degree is not a single expression of its operand')

        def deg(of):
            class S(ast.NodeTransformer):
                def visit_Name(self, x):
                    return ast.Name(id=of, ctx=ast.Load()) if x.id == dpar[0] else x
            return to_lin(S().visit(copy.deepcopy(dret[0].value)), opaque=True)
        for fname in ('_mod', '_divmod'):
            fn = model.func(f'gfpx::{cname}.{fname}')
            pm = parents(fn.node)
            pa = [p for p in fn.params if p not in ('cls', 'self')]
            if len(pa) < 2:
                raise AnalysisError(f'OP8: {cname}.{fname} does not take (a, b)')
            a, b = pa[0], pa[1]
            da, db = deg(a), deg(b)
            if da is None or db is None:
                raise AnalysisError(f'OP8: degree of {cname} not linear in a size of the operand')
            target = ((da - db) - Lin((da - db).c), -1 - (da - db).c)
            for r in iter_nodes(fn.node):
                if not (isinstance(r, ast.Return) and r.value is not None):
                    continue
                v = r.value.elts[-1] if isinstance(r.value, ast.Tuple) and r.value.elts else r.value
                if not (isinstance(v, ast.Name) and v.id == a):
                    continue
                rd = reaching_definitions(fn.node, a, r, pm)
                if not rd or any(x[2] != 'param' for x in rd):
                    continue        # the reduced dividend, not the operand
                _b, guards = routes._context(fn, r, pm)
                if any(isinstance(t, ast.Compare) and isinstance(t.ops[0], (ast.Is, ast.IsNot)) and (isinstance(t.ops[0], ast.Is) == tv) for t, tv in guards):
                    continue        # `b is None`: no modulus at all (see _powmod)
                n += 1
                atoms = [_le_atom(t, tv, lambda e: routes.xp(fn, e, r, pm)) for t, tv in guards]
                if any(at is not None and repr(at[0]) == repr(target[0]) and at[1] == target[1] for at in atoms):
                    rep.ok('OP8', fn, r, f'the dividend is the remainder exactly when deg {a} < deg {b} ({norm(dret[0].value)} of the operands)')
                else:
                    shown = [norm(t) if tv else f'not ({norm(t)})' for t, tv in guards if isinstance(t, ast.Compare) and not isinstance(t.ops[0], (ast.Eq, ast.NotEq))]
                    rep.bad('OP8', fn, r, f'the dividend is handed back unreduced under {shown or "no degree test"}, which is not deg {a} < deg {b} '
                            f'(degree = {norm(dret[0].value)}): for operands of equal degree the remainder keeps the degree of the divisor (a = q*b + r with deg r < deg b fails)')
    if n < 4:
        raise AnalysisError(f'OP8: only {n} early exits of _mod/_divmod returning the dividend found (expected 4)')


# ---------------------------------------------------------------------------------- OP9
class _Unknown:
    def __repr__(self):
        return '?'


_UNK = _Unknown()


class _AbsList:
    """an operand of the coefficient-list representation, known by its length only"""
    def __init__(self, origin, n):
        self.origin, self.n = origin, n


def _op9_eval(e, env):
    """value of an expression over operands known by length only: an int, a bool, an _AbsList or _UNK"""
    if isinstance(e, ast.Constant) and isinstance(e.value, (int, bool)):
        return e.value
    if isinstance(e, ast.Name):
        return env.get(e.id, _UNK)
    if isinstance(e, ast.Tuple):
        return tuple(_op9_eval(x, env) for x in e.elts)
    if isinstance(e, ast.Call) and isinstance(e.func, ast.Name) and e.func.id == 'len' and len(e.args) == 1 and not e.keywords:
        v = _op9_eval(e.args[0], env)
        return v.n if isinstance(v, _AbsList) else _UNK
    if isinstance(e, ast.Call) and isinstance(e.func, ast.Name) and e.func.id in ('min', 'max') and e.args and not e.keywords:
        vs = [_op9_eval(a, env) for a in e.args]
        if all(isinstance(v, int) for v in vs) and len(vs) >= 2:
            return (min if e.func.id == 'min' else max)(vs)
        return _UNK
    if isinstance(e, ast.UnaryOp) and isinstance(e.op, ast.Not):
        v = _op9_truth(e.operand, env)
        return _UNK if v is _UNK else (not v)
    if isinstance(e, ast.UnaryOp) and isinstance(e.op, ast.USub):
        v = _op9_eval(e.operand, env)
        return -v if isinstance(v, int) else _UNK
    if isinstance(e, ast.BinOp) and isinstance(e.op, (ast.Add, ast.Sub, ast.Mult, ast.LShift)):
        l, r = _op9_eval(e.left, env), _op9_eval(e.right, env)
        if isinstance(l, int) and isinstance(r, int):
            return l + r if isinstance(e.op, ast.Add) else l - r if isinstance(e.op, ast.Sub) else l * r if isinstance(e.op, ast.Mult) else (l << r if r >= 0 else _UNK)
        return _UNK
    if isinstance(e, ast.BoolOp):
        vs = [_op9_truth(v, env) for v in e.values]
        if isinstance(e.op, ast.And):
            return False if any(v is False for v in vs) else _UNK if any(v is _UNK for v in vs) else True
        return True if any(v is True for v in vs) else _UNK if any(v is _UNK for v in vs) else False
    if isinstance(e, ast.Compare) and len(e.ops) == 1:
        l, r = _op9_eval(e.left, env), _op9_eval(e.comparators[0], env)
        op = e.ops[0]
        if isinstance(l, _AbsList) and isinstance(op, (ast.Eq, ast.NotEq)) \
                and isinstance(e.comparators[0], ast.List) and not e.comparators[0].elts:
            return (l.n == 0) == isinstance(op, ast.Eq)            # a == []
        if isinstance(l, int) and isinstance(r, int):
            f = {ast.Lt: lambda: l < r, ast.LtE: lambda: l <= r, ast.Gt: lambda: l > r, ast.GtE: lambda: l >= r,
                 ast.Eq: lambda: l == r, ast.NotEq: lambda: l != r}.get(type(op))
            return f() if f else _UNK
        return _UNK
    if isinstance(e, ast.IfExp):
        t = _op9_truth(e.test, env)
        return _UNK if t is _UNK else _op9_eval(e.body if t else e.orelse, env)
    return _UNK


def _op9_truth(e, env):
    v = _op9_eval(e, env)
    if isinstance(v, _AbsList):
        return v.n > 0
    if isinstance(v, (int, bool)):
        return bool(v)
    return _UNK           # tuples and unknown values: both branches are explored


def _op9_paths(stmts, env, target, hits, fn):
    """walk the statements in order for one choice of operand lengths; returns the environments that fall through.
    `hits` collects (allocation node, evaluated length, env) whenever the target allocation is reached"""
    envs = [env]
    for s in stmts:
        nxt = []
        for env in envs:
            if isinstance(s, (ast.Return, ast.Raise)):
                _op9_scan(s, env, target, hits)
                continue
            if isinstance(s, ast.If):
                t = _op9_truth(s.test, env)
                if t is not False:
                    nxt += _op9_paths(s.body, dict(env), target, hits, fn)
                if t is not True:
                    nxt += _op9_paths(s.orelse, dict(env), target, hits, fn)
                continue
            _op9_scan(s, env, target, hits)
            if isinstance(s, ast.Assign) and len(s.targets) == 1:
                tg = s.targets[0]
                if isinstance(tg, ast.Name):
                    env[tg.id] = _op9_eval(s.value, env)
                elif isinstance(tg, ast.Tuple) and all(isinstance(x, ast.Name) for x in tg.elts):
                    vals = _op9_eval(s.value, env)          # a tuple display, also behind a conditional expression
                    if not (isinstance(vals, tuple) and len(vals) == len(tg.elts)):
                        vals = [_UNK] * len(tg.elts)
                    for x, v in zip(tg.elts, vals):
                        env[x.id] = v
                else:
                    for x in iter_nodes(tg):
                        if isinstance(x, ast.Name) and isinstance(x.ctx, ast.Store):
                            env[x.id] = _UNK
            elif isinstance(s, (ast.For, ast.While, ast.With, ast.Try, ast.AugAssign, ast.AnnAssign)):
                # anything stored inside is no longer known (operands are not reassigned in loops of these primitives; if they were,
                # their length is unknown from here on)
                for x in iter_nodes(s):
                    if isinstance(x, ast.Name) and isinstance(x.ctx, ast.Store):
                        env[x.id] = _UNK
            nxt.append(env)
        envs = nxt
    return envs


def _op9_scan(s, env, target, hits):
    for x in iter_nodes(s):
        if id(x) in target:
            hits.append((x, _op9_eval(target[id(x)], env), dict(env)))


def rule_OP9(ctx, rep):
    """normal form of products in the coefficient-list representation: `_mul` and `_sq` allocate the coefficient list of the product
    (length len(a) + len(b) - 1, resp. 2 len(a) - 1) only when no operand is the zero polynomial [].  With an empty operand the product
    is the zero polynomial, whose only representation is []: reaching the allocation with a positive length returns [0, .., 0], a
    second representation of zero (equality, degree, truth value and the leading-coefficient loops of _mod all read the representation).
    Decided over operand lengths only -- the primitives touch the operands up to that point through length comparisons and emptiness
    tests alone, a finite set of orderings, enumerated here as lengths 0..3 for each operand."""
    model = ctx.model
    n = 0
    for fname in ('_mul', '_sq'):
        fn = model.func(f'gfpx::Polynomial.{fname}')
        ops = [p for p in fn.params if p not in ('cls', 'self')]
        if not ops:
            raise AnalysisError(f'OP9: Polynomial.{fname} has no operands')
        # allocations `[0] * E` / `E * [0]`
        target = {}
        for x in iter_nodes(fn.node):
            if isinstance(x, ast.BinOp) and isinstance(x.op, ast.Mult):
                for lst, ln in ((x.left, x.right), (x.right, x.left)):
                    if isinstance(lst, ast.List) and len(lst.elts) == 1 and isinstance(lst.elts[0], ast.Constant) and lst.elts[0].value == 0:
                        target[id(x)] = ln
        if not target:
            raise AnalysisError(f'OP9: no allocation of a coefficient list found in Polynomial.{fname}')
        import itertools
        verdict = {}
        for lens in itertools.product(range(4), repeat=len(ops)):
            env = {p: _AbsList(p, k) for p, k in zip(ops, lens)}
            hits = []
            _op9_paths(fn.node.body, env, target, hits, fn)
            if 0 not in lens:
                for node, ln, _e in hits:
                    verdict.setdefault(id(node), [node, None])
                continue
            for node, ln, _e in hits:
                v = verdict.setdefault(id(node), [node, None])
                if ln is _UNK:
                    raise AnalysisError(f'OP9: length of the list allocated in Polynomial.{fname} (line {node.lineno}) is not a function of the operand lengths')
                if ln > 0 and v[1] is None:
                    v[1] = (dict(zip(ops, lens)), ln)
        for node, badcase in verdict.values():
            n += 1
            if badcase is None:
                rep.ok('OP9', fn, node, f'{fname}: the product\'s coefficient list is allocated only for non-zero operands (operand lengths 0..3 enumerated)')
            else:
                lens, ln = badcase
                shown = ', '.join(f'len({p}) = {k}' for p, k in lens.items())
                rep.bad('OP9', fn, node, f'{fname}: for {shown} (a zero operand) the guards let the allocation through and a list of {ln} zero coefficient(s) is returned: '
                        'a second representation of the zero polynomial, which is [] everywhere else (equality, degree and truth value read the representation)')
    if n < 2:
        raise AnalysisError(f'OP9: only {n} product allocations judged (expected _mul and _sq)')
    return n


# ---------------------------------------------------------------------------------- OP10
_SHIFT_PAIRS = (('__lshift__', '__ilshift__'), ('__rshift__', '__irshift__'))


def _op10_strip(e):
    """receiver-independent form: self.f / cls.f / type(self).f -> f, so that `self._reciprocal(..)` and `cls._reciprocal(..)` agree"""
    class S(ast.NodeTransformer):
        def visit_Attribute(self, x):
            v = x.value
            if isinstance(v, ast.Name) and v.id in ('self', 'cls'):
                return ast.Name(id=x.attr, ctx=ast.Load())
            if isinstance(v, ast.Call) and isinstance(v.func, ast.Name) and v.func.id == 'type' and len(v.args) == 1 \
                    and isinstance(v.args[0], ast.Name) and v.args[0].id == 'self':
                return ast.Name(id=x.attr, ctx=ast.Load())
            return self.generic_visit(x)
    return norm(S().visit(copy.deepcopy(e)))


def _op10_mentions(e, name):
    return any(isinstance(x, ast.Name) and x.id == name for x in ast.walk(e))


def _op10_application(fnrec, m, othern, pm):
    """how the operator applies its operand: (operator name, receiver-independent operand expression), 'delegates', or None"""
    from . import routes
    inplace = m.name.startswith('__i')
    if inplace:
        for s in iter_nodes(m):
            if isinstance(s, ast.AugAssign) and _op10_mentions(s.value, othern) or \
                    isinstance(s, ast.AugAssign) and _op10_mentions(routes.xp(fnrec, s.value, s, pm), othern):
                return type(s.op).__name__, _op10_strip(routes.xp(fnrec, s.value, s, pm)), s
        for s in iter_nodes(m):
            if isinstance(s, ast.Assign) and isinstance(s.value, ast.AST):
                v = routes.xp(fnrec, s.value, s, pm)
                b = _op10_outer_binop(v, othern)
                if b is not None:
                    return type(b.op).__name__, _op10_strip(b.right if _op10_mentions(b.right, othern) else b.left), s
        return None
    for r in iter_nodes(m):
        if isinstance(r, ast.Return) and r.value is not None and not (isinstance(r.value, ast.Name) and r.value.id == 'NotImplemented'):
            v = routes.xp(fnrec, r.value, r, pm)
            b = _op10_outer_binop(v, othern)
            if b is not None:
                return type(b.op).__name__, _op10_strip(b.right if _op10_mentions(b.right, othern) else b.left), r
    return None


def _op10_outer_binop(v, othern):
    """outermost binary operation one side of which carries the operand and the other side of which is the receiver (self / its value)"""
    todo = [v]
    while todo:
        x = todo.pop(0)
        if isinstance(x, ast.BinOp):
            lo, ro = _op10_mentions(x.left, othern), _op10_mentions(x.right, othern)
            ls, rs = _op10_mentions(x.left, 'self'), _op10_mentions(x.right, 'self')
            if (ro and not lo and ls) or (lo and not ro and rs):
                # the receiver side must be the receiver itself (self, self.value), not merely a helper called on it
                side = x.left if ro else x.right
                if isinstance(side, ast.Name) or (isinstance(side, ast.Attribute) and isinstance(side.value, ast.Name) and side.value.id == 'self'):
                    return x
        todo.extend(ast.iter_child_nodes(x))
    return None


def rule_OP10(ctx, rep):
    """in-place / binary agreement of the shifts: in every field element / array class that defines both `a >> n` and `a >>= n`
    (resp. `<<`, `<<=`), the two methods apply the same operation with the same operand expression to the receiver's value
    (multiplication by the reciprocal of 2**n for >>, a left shift of the representation followed by reduction for <<).  A binary
    shift that does something else than its in-place sibling makes `a >>= n` and `a = a >> n` differ."""
    model = ctx.model
    n = 0
    for ck, cnode in sorted(model.classes.items()):
        if not ck.startswith('finfields::'):
            continue
        meths = {m.name: m for m in cnode.body if isinstance(m, ast.FunctionDef)}
        for bname, iname in _SHIFT_PAIRS:
            mb, mi = meths.get(bname), meths.get(iname)
            if mb is None or mi is None or _trivial(mb) or _trivial(mi) or len(mb.args.args) < 2 or len(mi.args.args) < 2:
                continue
            apps = []
            for m in (mb, mi):
                fnrec = model.by_node.get(id(m))
                if fnrec is None:
                    apps.append(None)
                    continue
                apps.append(_op10_application(fnrec, m, m.args.args[1].arg, parents(fnrec.node)))
            if apps[0] is None or apps[1] is None:
                continue          # a form this rule does not read (e.g. delegation to the sibling): not judged, see the floor
            n += 1
            (ob, eb, nb), (oi, ei, _ni) = apps
            # the operand is named by each method's own parameter
            eb = eb.replace(mb.args.args[1].arg, '<n>') if mb.args.args[1].arg != mi.args.args[1].arg else eb
            ei = ei.replace(mi.args.args[1].arg, '<n>') if mb.args.args[1].arg != mi.args.args[1].arg else ei
            fnb = model.by_node.get(id(mb))
            if ob == oi and eb == ei:
                rep.ok('OP10', fnb, nb, f'{ck.split("::")[1]}: {bname} and {iname} both apply {ob}({ei}) to the value')
            else:
                rep.bad('OP10', fnb, nb, f'{ck.split("::")[1]}: {bname} applies {ob}({eb}) to the value while its in-place sibling {iname} applies {oi}({ei}): '
                        f'`a {"<<" if "l" == bname[2] else ">>"}= n` and `a = a {"<<" if "l" == bname[2] else ">>"} n` give different field elements')
    if n < 4:
        raise AnalysisError(f'OP10: only {n} binary/in-place shift pairs judged (expected >= 4)')
    return n


# ---------------------------------------------------------------------------------- ID1
def _id1_zero_test(e):
    """`<name> == 0` -> name"""
    if isinstance(e, ast.Compare) and len(e.ops) == 1 and isinstance(e.ops[0], ast.Eq) and isinstance(e.left, ast.Name) \
            and isinstance(e.comparators[0], ast.Constant) and e.comparators[0].value == 0:
        return e.left.id
    return None


def _id1_free(e, hot):
    """does `e` mention a name of `hot` (or a zero test) outside every divisor / reciprocal?"""
    if isinstance(e, ast.BinOp) and isinstance(e.op, (ast.Div, ast.FloorDiv)):
        return _id1_free(e.left, hot)                      # the divisor is a barrier
    if isinstance(e, ast.Call) and attr_tail(e.func) in ('reciprocal', '_reciprocal', 'inverse', 'invert'):
        return False
    if isinstance(e, ast.Name):
        return e.id in hot
    if _id1_zero_test(e) is not None:
        return True
    return any(_id1_free(c, hot) for c in ast.iter_child_nodes(e))


def rule_ID1(ctx, rep):
    """oblivious counterpart of the identity case of `normalize`: where the plain curve class returns `cls.identity` under a zero test of
    a coordinate (`if z == 0: return cls.identity`), the secure `normalize` branch for that class computes the same zero test and every
    part of the coordinate list it returns depends on that test *other than through a divisor*.  The divisor `1 / (z + [z == 0])` only
    keeps the inversion defined: for z = 0 it is 1 and leaves (x, y) as they are -- (0 : y : 0) with whatever y the arithmetic produced
    -- so equality with the canonical identity (0, 1, 0), which compares normalised coordinates, fails for a computed identity."""
    model = ctx.model
    fn = model.func('secgroups::SecureEllipticCurvePoint.normalize')
    pm = parents(fn.node)
    n = 0
    for br in iter_nodes(fn.node):
        if not (isinstance(br, ast.If) and isinstance(br.test, ast.Call) and isinstance(br.test.func, ast.Name) and br.test.func.id == 'issubclass'
                and len(br.test.args) == 2):
            continue
        pname = attr_tail(br.test.args[1])
        pcls = model.classes.get(f'fingroups::{pname}')
        if pcls is None:
            raise AnalysisError(f'ID1: plain class fingroups.{pname} named in SecureEllipticCurvePoint.normalize not found')
        pnorm = next((m for m in pcls.body if isinstance(m, ast.FunctionDef) and m.name == 'normalize'), None)
        if pnorm is None:
            raise AnalysisError(f'ID1: fingroups.{pname}.normalize not found')
        # the plain identity case: `if <coord> == 0: return cls.identity`
        plain = [i for i in iter_nodes(pnorm) if isinstance(i, ast.If) and _id1_zero_test(i.test) is not None
                 and any(isinstance(r, ast.Return) and r.value is not None and attr_tail(r.value) == 'identity' for r in i.body)]
        if not plain:
            continue            # no identity case split in the plain sibling: nothing to mirror
        body = [s for b in br.body for s in iter_nodes(b)]
        preds = {t.id for s in body if isinstance(s, ast.Assign) and _id1_zero_test(s.value) is not None for t in s.targets if isinstance(t, ast.Name)}
        inline = any(_id1_zero_test(x) is not None for s in body for x in ast.walk(s))
        rets = [s for s in body if isinstance(s, ast.Return) and s.value is not None]
        if not rets:
            raise AnalysisError(f'ID1: the {pname} branch of the secure normalize returns nothing')
        if not (preds or inline):
            n += 1
            rep.bad('ID1', fn, rets[0], f'the plain {pname}.normalize returns the identity under `{norm(plain[0].test)}`; the secure branch has no zero test of a coordinate at all')
            continue
        hot = set(preds)
        grew = True
        while grew:              # names computed from the test other than through a divisor
            grew = False
            for s in body:
                if isinstance(s, ast.Assign) and _id1_free(s.value, hot):
                    for t in s.targets:
                        for x in ast.walk(t):
                            if isinstance(x, ast.Name) and isinstance(x.ctx, ast.Store) and x.id not in hot:
                                hot.add(x.id)
                                grew = True
        for r in rets:
            v = r.value
            while isinstance(v, ast.Call) and len(v.args) >= 1 and not (isinstance(v.func, ast.Attribute) and v.func.attr in ('scalar_mul', 'if_else')):
                v = v.args[0]    # cls(..), tuple(..), list(..) wrappers
            parts = []
            todo = [v]
            while todo:
                x = todo.pop()
                if isinstance(x, ast.BinOp) and isinstance(x.op, ast.Add):
                    todo += [x.left, x.right]
                elif isinstance(x, (ast.List, ast.Tuple)):
                    parts += x.elts
                else:
                    parts.append(x)
            n += 1
            cold = [p for p in parts if not _id1_free(p, hot)]
            if cold:
                rep.bad('ID1', fn, r, f'the part `{norm(cold[0])}` of the coordinates returned for {pname} depends on the zero test only through a divisor (or not at all): '
                        f'for a computed identity (z = 0) it keeps whatever the arithmetic produced, while the plain {pname}.normalize returns cls.identity there')
            else:
                rep.ok('ID1', fn, r, f'every part of the returned coordinates is selected on the zero test that the plain {pname}.normalize branches on')
    if n < 1:
        raise AnalysisError('ID1: no branch of SecureEllipticCurvePoint.normalize mirrors an identity case of a plain normalize')
    return n


# ---------------------------------------------------------------------------------- SR1
def _sr1_neg_test(t):
    """`n < 0` / `0 > n` / `n <= -1` -> n"""
    if isinstance(t, ast.Compare) and len(t.ops) == 1:
        l, r, op = t.left, t.comparators[0], t.ops[0]
        if isinstance(l, ast.Name) and isinstance(op, ast.Lt) and isinstance(r, ast.Constant) and r.value == 0:
            return l.id
        if isinstance(r, ast.Name) and isinstance(op, ast.Gt) and isinstance(l, ast.Constant) and l.value == 0:
            return r.id
        if isinstance(l, ast.Name) and isinstance(op, ast.LtE) and isinstance(r, ast.UnaryOp) and isinstance(r.op, ast.USub) \
                and isinstance(r.operand, ast.Constant) and r.operand.value == 1:
            return l.id
    return None


def _sr1_settles(stmts, name):
    """every path through `stmts` that falls through re-binds `name` (to anything: what it is bound to is judged by the caller) or leaves"""
    for s in stmts:
        if isinstance(s, (ast.Return, ast.Raise, ast.Continue, ast.Break)):
            return True
        if isinstance(s, ast.Assign) and any(isinstance(x, ast.Name) and x.id == name and isinstance(x.ctx, ast.Store) for t in s.targets for x in ast.walk(t)):
            return True
        if isinstance(s, ast.AugAssign) and isinstance(s.target, ast.Name) and s.target.id == name:
            return True
        if isinstance(s, ast.If) and s.orelse and _sr1_settles(s.body, name) and _sr1_settles(s.orelse, name):
            return True
    return False


def rule_SR1(ctx, rep, modules=('gfpx',)):
    """sign of a bit-scanned exponent: a square-and-multiply loop reads its exponent through `n.bit_length()` and `(n >> i) & 1`, which
    describe |n| only for n >= 0.  Where the function itself tests `n < 0` (so negative exponents are part of its contract) the branch
    taken for a negative exponent leaves (raise / return) or re-binds the exponent before the scan; a negative exponent that reaches the
    scan is read in two's complement and a different power is computed."""
    model = ctx.model
    n = 0
    for k, fn in sorted(model.funcs.items()):
        if fn.module not in modules:
            continue
        scanned = set()
        for x in iter_nodes(fn.node):
            if isinstance(x, ast.Call) and isinstance(x.func, ast.Attribute) and x.func.attr == 'bit_length' and isinstance(x.func.value, ast.Name):
                scanned.add(x.func.value.id)
        scanned &= set(fn.params)
        if not scanned:
            continue
        shifted = {x.left.id for x in iter_nodes(fn.node) if isinstance(x, ast.BinOp) and isinstance(x.op, ast.RShift) and isinstance(x.left, ast.Name)}
        scanned &= shifted
        for br in iter_nodes(fn.node):
            if not isinstance(br, ast.If):
                continue
            nm = _sr1_neg_test(br.test)
            if nm is None or nm not in scanned:
                continue
            n += 1
            if _sr1_settles(br.body, nm):
                rep.ok('SR1', fn, br, f'a negative `{nm}` leaves or is re-bound before its bits are scanned')
            else:
                rep.bad('SR1', fn, br, f'under `{norm(br.test)}` the exponent `{nm}` reaches the bit scan (`{nm}.bit_length()`, `{nm} >> i`) as it is: '
                        'the bits of a negative int are those of its two\'s complement, so a different power is computed')
    if n < 1:
        raise AnalysisError(f'SR1: no bit-scanned exponent with a negative case found in {modules}')
    return n
