"""Semantic query helpers shared by the rules: canonical symbols for the protocol parameters, resolution
of local names through their reaching definitions, path contexts of a node, and case analysis of a value
over the branches that define it.  Everything is read off the (canonicalised) syntax tree."""
import ast
import copy

from .core import norm, cnorm, iter_nodes
from . import astq
from .astq import reaching_definitions, definitions, enclosing_ifs, ancestors, position
from .linform import Lin, to_lin

RUNTIME_NAMES = ('self', 'runtime', 'rt', 'mpc')


class _Sym(ast.NodeTransformer):
    """self.threshold -> T, len(self.parties) -> M, self.pid -> P, self.options.sec_param -> K."""

    def visit_Attribute(self, n):
        if isinstance(n.value, ast.Name) and n.value.id in RUNTIME_NAMES:
            if n.attr == 'threshold':
                return ast.copy_location(ast.Name(id='T', ctx=ast.Load()), n)
            if n.attr == 'pid':
                return ast.copy_location(ast.Name(id='P', ctx=ast.Load()), n)
        if n.attr == 'sec_param' and isinstance(n.value, ast.Attribute) and n.value.attr == 'options':
            return ast.copy_location(ast.Name(id='K', ctx=ast.Load()), n)
        return self.generic_visit(n)

    def visit_IfExp(self, n):
        # `self.threshold if X is None else X` (and the mirrored form): the threshold in force for this call
        t = n.test
        if isinstance(t, ast.Compare) and len(t.ops) == 1 and isinstance(t.ops[0], (ast.Is, ast.IsNot)) and len(t.comparators) == 1:
            a, b = t.left, t.comparators[0]
            if isinstance(a, ast.Constant) and a.value is None:
                a, b = b, a
            if isinstance(b, ast.Constant) and b.value is None and isinstance(a, ast.Name):
                dflt, given = (n.body, n.orelse) if isinstance(t.ops[0], ast.Is) else (n.orelse, n.body)
                if isinstance(given, ast.Name) and given.id == a.id and isinstance(dflt, ast.Attribute) and dflt.attr == 'threshold' \
                        and isinstance(dflt.value, ast.Name) and dflt.value.id in RUNTIME_NAMES:
                    return ast.copy_location(ast.Name(id='T', ctx=ast.Load()), n)
        return self.generic_visit(n)

    def visit_Call(self, n):
        if isinstance(n.func, ast.Name) and n.func.id == 'len' and len(n.args) == 1 and isinstance(n.args[0], ast.Attribute) \
                and n.args[0].attr == 'parties' and isinstance(n.args[0].value, ast.Name) and n.args[0].value.id in RUNTIME_NAMES:
            return ast.copy_location(ast.Name(id='M', ctx=ast.Load()), n)
        return self.generic_visit(n)


def symx(e):
    """Copy of e with the protocol parameters written as the symbols T, M, P, K."""
    return _Sym().visit(copy.deepcopy(e))


def resolve(fn, e, use, pm, depth=0):
    """Follow a local name through its single reaching plain definition (copy propagation)."""
    while isinstance(e, ast.Name) and depth < 8:
        ds = reaching_definitions(fn.node, e.id, use, pm)
        if len(ds) != 1 or ds[0][1] is None or ds[0][2] != 'assign':
            return e
        use = ds[0][0]
        e = ds[0][1]
        depth += 1
    return e


def _list_builder(fn, name, init, use, pm):
    """`name = []` (statement init) followed in the same block by `for T in IT: [if C:] name.append(E)` -- and nothing else touching
    the list before `use` -- is the comprehension [E for T in IT if C]; returns that comprehension (a fresh node) or None."""
    par = pm.get(id(init))
    blk = next((b for b in astq._blocks(par) if any(init is s for s in b)), None) if par is not None else None
    if blk is None:
        return None
    i = next(k for k, s in enumerate(blk) if s is init)
    loop = None
    for s in blk[i + 1:]:
        mentions = any(isinstance(x, ast.Name) and x.id == name for x in ast.walk(s))
        if not mentions:
            if any(s is a or any(x is use for x in ast.walk(s)) for a in [use]):
                break
            continue
        if loop is None and isinstance(s, (ast.For,)) and not s.orelse and len(s.body) == 1:
            loop = s
            continue
        break
    if loop is None or any(x is use for x in ast.walk(loop)) or position(loop) > position(use):
        return None
    b, ifs = loop.body[0], []
    while isinstance(b, ast.If) and not b.orelse and len(b.body) == 1:
        ifs.append(b.test)
        b = b.body[0]
    if not (isinstance(b, ast.Expr) and isinstance(b.value, ast.Call) and isinstance(b.value.func, ast.Attribute) and b.value.func.attr == 'append'
            and isinstance(b.value.func.value, ast.Name) and b.value.func.value.id == name and len(b.value.args) == 1):
        return None
    if any(isinstance(x, ast.Name) and x.id == name for e_ in [b.value.args[0], loop.iter] + ifs for x in ast.walk(e_)):
        return None
    if any(isinstance(x, (ast.Await, ast.Yield, ast.NamedExpr)) for x in ast.walk(loop)):
        return None
    # no other statement between the initialisation and the use touches the list
    for c in iter_nodes(fn.node):
        if isinstance(c, ast.Name) and c.id == name and position(init) < position(c) < position(use) and not any(x is c for x in ast.walk(loop)) \
                and not any(x is c for x in ast.walk(init)):
            p_ = pm.get(id(c))
            if astq.exclusive(init, c, pm, stop=fn.node):
                continue               # in another branch: not on a path from this initialisation
            if not isinstance(c.ctx, ast.Load):
                return None
            if isinstance(p_, ast.Attribute) and p_.attr in ('append', 'extend', 'insert', 'pop', 'remove', 'clear', 'sort', 'reverse'):
                return None
            if isinstance(p_, ast.Subscript) and not isinstance(p_.ctx, ast.Load):
                return None
    tnames = {x.id for x in ast.walk(loop.target) if isinstance(x, ast.Name)}
    later = [x for x in iter_nodes(fn.node) if isinstance(x, ast.Name) and x.id in tnames and isinstance(x.ctx, ast.Load) and not any(y is x for y in ast.walk(loop))]
    comp = ast.ListComp(elt=copy.deepcopy(b.value.args[0]),
                        generators=[ast.comprehension(target=copy.deepcopy(loop.target), iter=copy.deepcopy(loop.iter), ifs=[copy.deepcopy(c) for c in ifs], is_async=0)])
    return ast.copy_location(comp, loop)


def expand(fn, e, use, pm, depth=0):
    """Copy of e in which local names with a single reaching plain definition are replaced by that definition
    (recursively), as long as the definition is call-free arithmetic / attribute access.  Names bound by a comprehension
    inside e are left alone; free names inside comprehensions are expanded like any other."""
    class X(ast.NodeTransformer):
        def __init__(self):
            self.bound = []

        def visit_Name(self, n):
            if not isinstance(n.ctx, ast.Load) or depth > 6 or any(n.id in b for b in self.bound):
                return n
            ds = reaching_definitions(fn.node, n.id, use, pm)
            if len(ds) == 1 and ds[0][1] is not None and ds[0][2] == 'assign' and isinstance(ds[0][1], ast.List) and not ds[0][1].elts:
                comp = _list_builder(fn, n.id, ds[0][0], use, pm)
                if comp is not None:
                    return expand(fn, comp, use, pm, depth + 1)
            if len(ds) == 1 and ds[0][1] is not None and ds[0][2] == 'assign':
                v = ds[0][1]
                if not any(isinstance(x, (ast.Await, ast.Yield, ast.Lambda)) for x in ast.walk(v)) and not any(
                        isinstance(x, ast.Name) and x.id == n.id for x in ast.walk(v)):
                    return expand(fn, v, ds[0][0], pm, depth + 1)
            if len(ds) == 2 and all(d[1] is not None and d[2] == 'assign' and isinstance(d[0], ast.stmt) for d in ds):
                # `if C: v = A  else: v = B` is the statement form of `v = A if C else B`
                pa, pb = pm.get(id(ds[0][0])), pm.get(id(ds[1][0]))
                if pa is pb and isinstance(pa, ast.If):
                    inb = [any(d[0] is s for s in pa.body) for d in ds]
                    ino = [any(d[0] is s for s in pa.orelse) for d in ds]
                    if (inb[0] and ino[1]) or (inb[1] and ino[0]):
                        a, b = (ds[0], ds[1]) if inb[0] else (ds[1], ds[0])
                        if not any(isinstance(x, (ast.Await, ast.Yield, ast.Lambda, ast.NamedExpr)) or (isinstance(x, ast.Name) and x.id == n.id)
                                   for v in (a[1], b[1], pa.test) for x in ast.walk(v)):
                            return ast.IfExp(test=expand(fn, pa.test, pa, pm, depth + 1), body=expand(fn, a[1], a[0], pm, depth + 1),
                                             orelse=expand(fn, b[1], b[0], pm, depth + 1))
            return n

        def _comp(self, n):
            names = set()
            for g in n.generators:
                names |= {x.id for x in ast.walk(g.target) if isinstance(x, ast.Name)}
            self.bound.append(names)
            try:
                return self.generic_visit(n)
            finally:
                self.bound.pop()

        visit_ListComp = visit_GeneratorExp = visit_SetComp = visit_DictComp = _comp

        def visit_Lambda(self, n):
            return n
    return X().visit(copy.deepcopy(e))


def slin(fn, e, use=None, pm=None, opaque=False):
    """Linear form of e over the symbols T, M, P, K and remaining local names (resolved where possible)."""
    if use is not None and pm is not None:
        e = expand(fn, e, use, pm)
    return to_lin(symx(e), {}, opaque=opaque)


def path_context(fn, node, pm):
    """[(canonical test text, truth)] of the if statements and conditional expressions enclosing node."""
    out = []
    for i, br in enclosing_ifs(node, pm, stop=fn.node):
        out.append((i.test, br == 'body'))
    child = node
    for a in ancestors(node, pm):
        if a is fn.node or isinstance(a, ast.stmt):
            break
        if isinstance(a, ast.IfExp) and child is not a.test:
            out.append((a.test, child is a.body))
        child = a
    return out


def _atoms(test, truth):
    """Split a test known to be `truth` into atomic facts [(expr, bool)] where that is forced."""
    if isinstance(test, ast.UnaryOp) and isinstance(test.op, ast.Not):
        return _atoms(test.operand, not truth)
    if isinstance(test, ast.BoolOp):
        if isinstance(test.op, ast.And) and truth:
            return [x for v in test.values for x in _atoms(v, True)]
        if isinstance(test.op, ast.Or) and not truth:
            return [x for v in test.values for x in _atoms(v, False)]
        return []
    return [(test, truth)]


def flag_in_context(fn, node, pm, pred):
    """Truth of the atomic condition recognised by pred(expr) on the path to node: True / False / None."""
    for test, truth in path_context(fn, node, pm):
        for e, tv in _atoms(test, truth):
            e2 = resolve(fn, e, node, pm)
            if isinstance(e2, ast.UnaryOp) and isinstance(e2.op, ast.Not):
                e2, tv = e2.operand, not tv
            if pred(e2):
                return tv
    return None


def is_noprss(e):
    return isinstance(e, ast.Attribute) and e.attr == 'no_prss'


def cases(fn, e, use, pm, pred, ctx=None, depth=0):
    """Case analysis of the value of e over the flag recognised by pred: list of (flag truth or None, expr), following
    names through all their reaching definitions and splitting conditional expressions."""
    if ctx is None:
        ctx = flag_in_context(fn, use, pm, pred)
    if depth > 6:
        return [(ctx, e)]
    if isinstance(e, ast.IfExp):
        t = e.test
        neg = False
        t2 = resolve(fn, t, use, pm)
        if isinstance(t2, ast.UnaryOp) and isinstance(t2.op, ast.Not):
            t2, neg = t2.operand, True
        if pred(t2):
            a = cases(fn, e.body, use, pm, pred, (not neg) if ctx is None else ctx, depth + 1)
            b = cases(fn, e.orelse, use, pm, pred, neg if ctx is None else ctx, depth + 1)
            if ctx is not None:
                return a if ctx == (not neg) else b
            return a + b
        return cases(fn, e.body, use, pm, pred, ctx, depth + 1) + cases(fn, e.orelse, use, pm, pred, ctx, depth + 1)
    if isinstance(e, ast.Name):
        ds = [d for d in reaching_definitions(fn.node, e.id, use, pm) if d[2] == 'assign' and d[1] is not None]
        alld = reaching_definitions(fn.node, e.id, use, pm)
        if ds and len(ds) == len(alld):
            out = []
            for st, v, how in ds:
                c2 = flag_in_context(fn, st, pm, pred)
                if ctx is not None and c2 is not None and c2 != ctx:
                    continue        # defined on the other branch
                out.extend(cases(fn, v, st, pm, pred, ctx if ctx is not None else c2, depth + 1))
            return out
    return [(ctx, e)]


# ------------------------------------------------------------------------------------------------ guarded values
def _ctx_of(fn, node, pm):
    """frozenset of (canonical atomic condition text, truth) governing node (if statements, conditional expressions)."""
    out = set()
    for test, truth in path_context(fn, node, pm):
        for e, tv in _atoms(test, truth) or [(test, truth)]:
            e2 = expand(fn, e, node, pm)
            if isinstance(e2, ast.NamedExpr):
                e2 = e2.value
            if isinstance(e2, ast.UnaryOp) and isinstance(e2.op, ast.Not):
                e2, tv = e2.operand, not tv
                if isinstance(e2, ast.NamedExpr):
                    e2 = e2.value
            if isinstance(e2, ast.Compare) and len(e2.ops) == 1 and isinstance(e2.ops[0], (ast.NotEq, ast.IsNot, ast.NotIn)):
                inv = {ast.NotEq: ast.Eq, ast.IsNot: ast.Is, ast.NotIn: ast.In}[type(e2.ops[0])]
                e2, tv = ast.Compare(left=e2.left, ops=[inv()], comparators=e2.comparators), not tv
            out.add((cnorm(e2), tv))
    return frozenset(out)


def guarded_values(fn, e, use, pm, depth=0, ctx=frozenset(), follow=True):
    """[(conditions, value expr)]: the values e can take at `use`, split over conditional expressions and over the
    reaching definitions of local names (each with the conditions of the branch it is defined in).  `conditions` is a
    frozenset of (canonical atomic condition, truth)."""
    if depth > 6:
        return [(ctx, e)]
    if isinstance(e, ast.IfExp):
        out = []
        for branch, tv in ((e.body, True), (e.orelse, False)):
            c = set(ctx)
            for a, av in _atoms(e.test, tv) or [(e.test, tv)]:
                a2 = expand(fn, a, use, pm)
                if isinstance(a2, ast.UnaryOp) and isinstance(a2.op, ast.Not):
                    a2, av = a2.operand, not av
                if isinstance(a2, ast.Compare) and len(a2.ops) == 1 and isinstance(a2.ops[0], (ast.NotEq, ast.IsNot, ast.NotIn)):
                    inv = {ast.NotEq: ast.Eq, ast.IsNot: ast.Is, ast.NotIn: ast.In}[type(a2.ops[0])]
                    a2, av = ast.Compare(left=a2.left, ops=[inv()], comparators=a2.comparators), not av
                c.add((cnorm(a2), av))
            out += guarded_values(fn, branch, use, pm, depth + 1, frozenset(c), follow)
        return out
    if isinstance(e, ast.Name) and follow:
        ds = reaching_definitions(fn.node, e.id, use, pm)
        if ds and all(how == 'assign' and v is not None for _, v, how in ds) and not any(
                isinstance(x, ast.Name) and x.id == e.id for _, v, _ in ds for x in ast.walk(v)):
            out = []
            for st, v, how in ds:
                c = frozenset(set(ctx) | set(_ctx_of(fn, st, pm)))
                if isinstance(v, ast.NamedExpr):
                    v = v.value
                out += guarded_values(fn, v, st, pm, depth + 1, c, follow)
            return out
    return [(ctx, e)]
