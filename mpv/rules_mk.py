"""MK rules: who receives what (MK3, MK4, NR1) -- properties C19, C07.  The masking rules proper
(MK1, MK2) live in rules_pai.py because they need the protocol abstract interpreter."""
import ast
import copy

from .core import AnalysisError, iter_nodes, norm, cnorm, cnorm_text
from . import astq
from .astq import (parents, ancestors, calls_named, mentions_attr, mentions_name, definitions, reaching_definitions,
                   enclosing_loops, enclosing_ifs, const_int, attr_tail, resolve_value)

RT = 'runtime::Runtime.'


def _arg(call, pos, kw):
    if len(call.args) > pos:
        return call.args[pos]
    for k in call.keywords:
        if k.arg == kw:
            return k.value
    return None


# ---------------------------------------------------------------------------------- MK3
def rule_MK3(ctx, rep):
    """receivers forwarding: every _output implementation hands the receivers and threshold it was given
    to each nested runtime.output; Runtime.output delegates with the same arguments."""
    model = ctx.model
    n = 0
    for k, fn in sorted(model.funcs.items()):
        if fn.node.name != '_output' or 'receivers' not in fn.params:
            continue
        outs = [c for c in iter_nodes(fn.node) if isinstance(c, ast.Call) and attr_tail(c.func) == 'output'
                and ctx.flow.rs.is_runtime_expr(fn, c.func.value if isinstance(c.func, ast.Attribute) else c.func)]
        if not outs:
            rep.bad('MK3', fn, fn.qualname, '_output implementation that does not open through runtime.output', fn.node)
            continue
        for c in outs:
            n += 1
            r, t = _arg(c, 1, 'receivers'), _arg(c, 2, 'threshold')
            probs = []
            if r is None or norm(r) != 'receivers':
                probs.append(f'receivers argument is {norm(r) if r is not None else "missing (defaults to all parties)"}: parties outside the requested '
                             'receivers get shares of (part of) the value')
            if t is None or norm(t) != 'threshold':
                probs.append(f'threshold argument is {norm(t) if t is not None else "missing"}')
            # the receivers parameter must not be rebound before
            if any(how != 'param' for _, _, how in definitions(fn.node, 'receivers')):
                probs.append('the receivers parameter is rebound inside _output')
            if probs:
                for p in probs:
                    rep.bad('MK3', fn, c, p)
            else:
                rep.ok('MK3', fn, c, 'nested opening restricted to the requested receivers / threshold')
        # non-receiver path returns the Nones it got without touching opened values
        rets = [r for r in iter_nodes(fn.node) if isinstance(r, ast.Return)]
        pm = parents(fn.node)
        from . import cond
        # a return reachable exactly by the parties that received None placeholders: either guarded by `<x> is None`, or an
        # unconditional final return while all processing of the opened values is guarded by `<x> is not None`
        def none_atoms(f):
            return {a for a in cond.atoms_of(f) if a.startswith('None is ') or a.endswith(' is None')}
        early = [r for r in rets if any(cond.satisfiable(cond.conj([cond.context(fn, r, pm), cond.atom(a)])) and
                                        not cond.satisfiable(cond.conj([cond.context(fn, r, pm), cond.neg(cond.atom(a))]))
                                        for a in none_atoms(cond.context(fn, r, pm)))]
        guarded_tail = False
        last_out = max(outs, key=lambda c_: astq.position(c_))
        if not early and rets:
            final = max(rets, key=lambda r_: astq.position(r_))
            post = [s_ for s_ in iter_nodes(fn.node) if isinstance(s_, ast.stmt) and astq.position(s_) > astq.position(astq.enclosing_stmt(last_out, pm))
                    and s_ is not final and not isinstance(s_, ast.If)]
            ats = set()
            for s_ in post:
                ats |= none_atoms(cond.context(fn, s_, pm))
            guarded_tail = bool(post) and bool(ats) and cond.context(fn, final, pm) in (cond.TRUE,) and all(
                any(not cond.satisfiable(cond.conj([cond.context(fn, s_, pm), cond.atom(a)])) for a in ats) for s_ in post)
        if early:
            rep.ok('MK3', fn, early[0], 'non-receivers return the None placeholders')
        elif guarded_tail:
            rep.ok('MK3', fn, rets[-1], 'the opened values are processed only when they are not None; non-receivers return the None placeholders')
        else:
            rep.bad('MK3', fn, fn.qualname, 'no early return for parties that received None: non-receivers crash or fabricate a value', fn.node)
    # delegation in Runtime.output
    fo = model.func(RT + 'output')
    dele = [c for c in iter_nodes(fo.node) if isinstance(c, ast.Call) and attr_tail(c.func) == '_output']
    if len(dele) != 1:
        raise AnalysisError('MK3: delegation to sftype._output not found in Runtime.output')
    a = dele[0].args
    rdefs = definitions(fo.node, 'receivers')
    if len(a) >= 3 and norm(a[1]) == 'receivers' and norm(a[2]) == 'threshold':
        rep.ok('MK3', fo, dele[0], 'composite types are opened with the caller\'s receivers and threshold')
    else:
        rep.bad('MK3', fo, dele[0], 'Runtime.output delegates to _output without the caller\'s receivers/threshold')
    n += 1
    if n < 5:
        raise AnalysisError(f'MK3: only {n} forwarding sites found (expected >= 5)')
    # SecureFloat._output with a receiver subset: the only extra interaction is a fresh input by one receiver
    sf = model.func('sectypes::SecureFloat._output')
    ins = [c for c in iter_nodes(sf.node) if isinstance(c, ast.Call) and attr_tail(c.func) == 'input']
    pm = parents(sf.node)
    if len(ins) == 1:
        snd = _arg(ins[0], 1, 'senders')
        lead = resolve_value(sf.node, snd) if snd is not None else None
        if lead is not None and isinstance(lead, ast.Call) and attr_tail(lead.func) in ('min', 'max') and lead.args and norm(lead.args[0]) == 'receivers':
            rep.ok('MK3', sf, ins[0], 'the zero-indicator is dealt by one of the receivers (who already knows the significand)')
        else:
            rep.bad('MK3', sf, ins[0], f'the zero-indicator is input by {norm(snd) if snd is not None else "all parties"}, not by a receiver: '
                    'a non-receiver would have to know whether the value is zero')
        # what the leader inputs depends on opened data only under `pid == leader`
        src = ins[0].args[0]
        vals = [v for _, v, _ in definitions(sf.node, norm(src))] if isinstance(src, ast.Name) else []
        opened = {norm(t) for s in iter_nodes(sf.node) if isinstance(s, ast.Assign) and isinstance(s.value, ast.Await) for t in s.targets}
        # every value the input can hold, with its condition (statement or expression form alike): one that is computed from
        # opened data is held only by the party with `pid == leader`
        from . import cond
        leak = False
        for f, v in cond.expr_cases(sf, src, ins[0], pm, keep=opened):
            if {x.id for x in ast.walk(v) if isinstance(x, ast.Name)} & opened:
                if not any(('.pid' in a or a.startswith('P == ') or a.endswith(' == P')) and '==' in a for a in cond.implied(f)):
                    leak = True
        # the indicator at position i is the indicator of element i: inside a positional comprehension every opened list is read at
        # the comprehension's own index
        misidx = None
        for f, v in cond.expr_cases(sf, src, ins[0], pm, keep=opened):
            if isinstance(v, (ast.ListComp, ast.GeneratorExp)) and len(v.generators) == 1 and isinstance(v.generators[0].target, ast.Name):
                iv_ = v.generators[0].target.id
                for x_ in ast.walk(v.elt):
                    if isinstance(x_, ast.Subscript) and isinstance(x_.value, ast.Name) and x_.value.id in opened and norm(x_.slice) != iv_:
                        misidx = x_
        if misidx is not None:
            rep.bad('MK3', sf, misidx, f'the zero-indicator of every element is computed from {norm(misidx)} instead of the element at its own position: '
                    'the exponents of the other elements are opened (or hidden) according to the wrong element')
        if leak:
            rep.bad('MK3', sf, ins[0], 'a party other than the designated receiver computes its input from opened values')
        else:
            rep.ok('MK3', sf, src, 'only the designated receiver feeds opened information back in; others input empty placeholders')
    else:
        rep.bad('MK3', sf, sf.qualname, 'SecureFloat._output no longer has exactly one auxiliary input', sf.node)


# ---------------------------------------------------------------------------------- MK4
def _receivers_forms(fn, name, allowed_sources):
    """All definitions of `name` are: the parameter itself, all parties (`range(m)`) exactly where `<name> is None`, or a
    list() / [..] normalisation of itself -- whatever the spelling (statement or conditional expression, either polarity)."""
    from . import cond, sem
    bad = []
    pm = parents(fn.node)
    none_txt = cond.fmt(cond.formula(fn, ast.parse(f'{name} is None', mode='eval').body, fn.node.body[-1], pm))
    for st, v, how in definitions(fn.node, name):
        if v is None:
            bad.append(st)
            continue
        cx = cond.context(fn, st, pm)
        okay = True
        for g, leaf in cond.expr_cases(fn, v, st, pm, keep=(name,) + tuple(allowed_sources)):
            full = cond.conj([cx, g])
            if not cond.satisfiable(full):
                continue
            x = leaf
            while (isinstance(x, ast.Call) and isinstance(x.func, ast.Name) and x.func.id in ('list', 'tuple') and len(x.args) == 1) or \
                    (isinstance(x, ast.List) and len(x.elts) == 1):
                x = x.args[0] if isinstance(x, ast.Call) else x.elts[0]
            if isinstance(x, ast.Name) and (x.id == name or x.id in allowed_sources):
                continue
            if cnorm(sem.symx(sem.expand(fn, x, st, pm))) == 'range(M)' and none_txt in cond.implied(full):
                continue
            okay = False
        if not okay:
            bad.append(st)
    return bad


def _flat_values(fn, e, use, pm, depth=0):
    """Value expressions a payload name can hold: reaching plain definitions, conditional expressions split."""
    if isinstance(e, ast.IfExp):
        return _flat_values(fn, e.body, use, pm, depth) + _flat_values(fn, e.orelse, use, pm, depth)
    if isinstance(e, ast.Name) and depth < 4:
        from .astq import reaching_definitions
        ds = reaching_definitions(fn.node, e.id, use, pm)
        if ds and all(how == 'assign' and v is not None for _, v, how in ds):
            out = []
            for st, v, how in ds:
                if any(isinstance(x, ast.Name) and x.id == e.id for x in ast.walk(v)):
                    return [e]
                out += _flat_values(fn, v, st, pm, depth + 1)
            return out
    return [e]


def rule_MK4(ctx, rep):
    """destination provenance: messages of output/transfer go only to parties derived from the receivers
    argument(s); the non-receiver branch yields None and recombines nothing.  Destinations are read off the
    routing summaries (routes.py), so the spelling of the loops does not matter."""
    from . import rules_rt
    model = ctx.model
    fo, evs, cases = rules_rt._summary(ctx, 'output')
    pm = parents(fo.node)
    sends = [e for e in evs if e.kind == 'send']
    if not sends:
        raise AnalysisError('MK4: send site in output not found')
    for e in sends:
        at = cases[sorted(cases)[0]][id(e)]
        if ('In', 'R', 'receivers') in at:
            bad = _receivers_forms(fo, 'receivers', [])
            if not bad:
                rep.ok('MK4', fo, e.node, 'a share is sent only to members of the receivers argument (default: all parties, only when None)')
            else:
                rep.bad('MK4', fo, bad[0], 'the receivers list used for sending is redefined from something other than the receivers argument')
        else:
            rep.bad('MK4', fo, e.node, f'the destination {norm(e.peer_raw)} of a share in output does not range over the receivers argument: '
                    'parties outside the receivers get a message')
        # payload is the party's own share vector (marshalled)
        vals = [norm(v) for v in _flat_values(fo, e.payload, e.node, pm)]
        if all(v in ('None', 'marshal(x)') for v in vals) and 'marshal(x)' in vals:
            rep.ok('MK4', fo, e.payload, 'payload is this party\'s own share')
        else:
            rep.bad('MK4', fo, e.node, 'payload of the output message is not marshal(own share)')
    # receive/recombine only under `self.pid in receivers`; the other parties obtain None for every element
    from . import cond
    rec = [c for c in iter_nodes(fo.node) if isinstance(c, ast.Call) and isinstance(c.func, ast.Name) and c.func.id == 'recombine']
    recvs = [e for e in evs if e.kind == 'recv']
    member = cond.formula(fo, ast.parse('self.pid in receivers', mode='eval').body, fo.node.body[-1], pm)
    gated = bool(rec) and not cond.satisfiable(cond.conj([cond.context(fo, rec[0], pm), cond.neg(member)]))
    if gated and all(('In', 'R', 'receivers') in cases[sorted(cases)[0]][id(r)] for r in recvs):
        rep.ok('MK4', fo, rec[0], 'shares are collected and recombined only by receivers')
        def none_valued(v):
            """[None] * k, None, or a conditional expression choosing between such values"""
            if isinstance(v, ast.IfExp):
                return none_valued(v.body) and none_valued(v.orelse)
            if isinstance(v, ast.Constant) and v.value is None:
                return True
            return isinstance(v, ast.BinOp) and isinstance(v.op, ast.Mult) and '[None]' in (norm(v.left), norm(v.right))
        nones = [s_ for s_ in iter_nodes(fo.node) if isinstance(s_, (ast.Assign, ast.Return)) and s_.value is not None and none_valued(s_.value)
                 and not (isinstance(s_.value, ast.Constant))
                 and cond.equivalent(cond.project(cond.context(fo, s_, pm), lambda a: 'receivers' in a), cond.neg(member))]
        if nones:
            rep.ok('MK4', fo, nones[0], 'non-receivers obtain None for every element')
        else:
            rep.bad('MK4', fo, rec[0], 'the non-receiver branch of output does not simply yield None values')
    else:
        rep.bad('MK4', fo, rec[0] if rec else fo.qualname, 'recombination in output is not restricted to `self.pid in receivers`', fo.node)
    # transfer
    ft, evs, cases = rules_rt._summary(ctx, 'transfer')
    pmt = parents(ft.node)
    sends = [e for e in evs if e.kind == 'send']
    if not sends:
        raise AnalysisError('MK4: send site in transfer not found')
    for e in sends:
        foreign = []
        for k in sorted(cases):
            for a in cases[k][id(e)]:
                if a[0] == 'In' and a[2] in ('receivers', 'senders'):
                    continue
                if a[0] in ('Arc', 'Arc-reversed') and a[1] == 'sender_receivers':
                    continue
                if a[0] == 'Neq':
                    continue
                foreign.append(a)
        if not foreign:
            badr = _receivers_forms(ft, 'receivers', [])
            if not badr:
                rep.ok('MK4', ft, e.node, 'objects are sent only along the designated arcs (receivers / sender_receivers arguments)')
            else:
                rep.bad('MK4', ft, badr[0], 'receivers is redefined from something other than the argument')
        else:
            rep.bad('MK4', ft, e.node, f'the destinations of transfer depend on {sorted(set(map(repr, foreign)))[:3]}: not derived from the routing arguments only')
        vals = [norm(v) for v in _flat_values(ft, e.payload, e.node, pmt)]
        if all(v in ('None', 'pickle.dumps(obj)') for v in vals) and 'pickle.dumps(obj)' in vals:
            rep.ok('MK4', ft, e.payload, 'payload is the pickled object of this sender')
        else:
            rep.bad('MK4', ft, e.node, 'payload of transfer is not pickle.dumps(obj)')


# ---------------------------------------------------------------------------------- NR1
def rule_NR1(ctx, rep):
    """non-receivers of a transfer obtain None: the result list (empty for a party that receives
    nothing) is never indexed without a guard."""
    from . import rules_rt
    ft, evs, cases = rules_rt._summary(ctx, 'transfer')
    pm = parents(ft.node)
    recvs = [e for e in evs if e.kind == 'recv' and e.slot is not None and e.slot[1]]
    if not recvs:
        raise AnalysisError('NR1: the result list of transfer (the list the received values are stored in) was not found')
    # the list of parties received from is empty for a non-receiver in the bipartite form
    empties = False
    for k in cases:
        for e in recvs:
            if any(a[0] == 'In' and a[1] == 'R' for a in cases[k][id(e)]):
                empties = True
    if not empties:
        raise AnalysisError('NR1: no case of transfer restricts receiving to the members of a receivers list; rule needs re-confirmation')
    res = {e.slot[1] for e in recvs}
    # names derived from the result list (gathered, unpickled, ...)
    changed = True
    while changed:
        changed = False
        for st in iter_nodes(ft.node):
            if isinstance(st, ast.Assign) and len(st.targets) == 1 and isinstance(st.targets[0], ast.Name) and st.targets[0].id not in res:
                if any(isinstance(x, ast.Name) and x.id in res for x in ast.walk(st.value)) and not isinstance(st.value, ast.Subscript):
                    res.add(st.targets[0].id)
                    changed = True
    lists = res | {norm(b.src) for e in recvs for b in e.binders if b.kind in ('enum', 'iter') and b.src is not None}

    def is_guard(t):
        t = norm(t)
        return any(t == r or f'len({r})' in t for r in lists) or 'self.pid in receivers' in t
    n = 0
    for sub in iter_nodes(ft.node):
        if isinstance(sub, ast.Subscript) and isinstance(sub.ctx, ast.Load) and isinstance(sub.value, ast.Name) and sub.value.id in res \
                and const_int(sub.slice) is not None:
            n += 1
            st = astq.enclosing_stmt(sub, pm)
            guarded = False
            for i, br in enclosing_ifs(sub, pm, stop=ft.node):
                if br == 'body' and is_guard(i.test):
                    guarded = True
            for a in ancestors(sub, pm):
                if isinstance(a, ast.IfExp) and any(x is sub for x in ast.walk(a.body)) and is_guard(a.test):
                    guarded = True
                if isinstance(a, ast.BoolOp) and isinstance(a.op, ast.And) and norm(a.values[0]) in lists:
                    guarded = True
            if guarded:
                rep.ok('NR1', ft, st, 'indexing of the result list is guarded against the empty (non-receiver) case')
            else:
                rep.bad('NR1', ft, st, f'{norm(sub)} is evaluated although {norm(sub.value)} is empty for a party outside the receivers: IndexError instead of None '
                        '(transfer with an int sender and a receiver subset)')
    if n == 0:
        rep.ok('NR1', ft, 'no constant indexing of the result list', '', ft.node)


# ---------------------------------------------------------------------------------- RB1
def _bool_eval(t, val):
    """truth of a test under a valuation of plain names (None = not determined)"""
    if isinstance(t, ast.Name):
        return val.get(t.id)
    if isinstance(t, ast.UnaryOp) and isinstance(t.op, ast.Not):
        v = _bool_eval(t.operand, val)
        return None if v is None else not v
    if isinstance(t, ast.BoolOp):
        vs = [_bool_eval(v, val) for v in t.values]
        if isinstance(t.op, ast.And):
            return False if any(v is False for v in vs) else (None if any(v is None for v in vs) else True)
        return True if any(v is True for v in vs) else (None if any(v is None for v in vs) else False)
    if isinstance(t, ast.Constant) and isinstance(t.value, bool):
        return t.value
    return None


class _IntOfTest(ast.NodeTransformer):
    """int(<test over flags>) -> 0 / 1 under a valuation of the flags"""
    def __init__(self, val):
        self.val, self.failed = val, False

    def visit_Call(self, n):
        if isinstance(n.func, ast.Name) and n.func.id == 'int' and len(n.args) == 1 and not n.keywords:
            v = _bool_eval(n.args[0], self.val)
            if v is None:
                self.failed = True
                return n
            return ast.Constant(value=int(v))
        return self.generic_visit(n)

    def visit_IfExp(self, n):
        v = _bool_eval(n.test, self.val)
        if v is None:
            self.failed = True
            return n
        return self.visit(n.body if v else n.orelse)


def rule_RB1(ctx, rep, scope=None):
    """a buffer of N fresh random bits is never over-subscribed: when a protocol takes a head part `B[:J]` and a tail part `B[-K:]`
    of the same buffer for different purposes (bits of the mask / sign mask), J + K <= N for every valuation of the flags that
    select the parts -- otherwise one secret random bit masks two different values."""
    import itertools
    from . import routes
    from .astq import reaching_definitions, enclosing_ifs
    from .linform import to_poly, poly_sub
    n_sites = 0
    for key, fn in sorted(ctx.model.funcs.items()):
        if not key.startswith('runtime::Runtime.') or (scope and fn.name not in scope):
            continue
        pm = parents(fn.node)
        draws = [s for s in iter_nodes(fn.node) if isinstance(s, ast.Assign) and len(s.targets) == 1 and isinstance(s.targets[0], ast.Name)
                 and any(isinstance(c, ast.Call) and attr_tail(c.func) in ('random_bits', 'np_random_bits') and len(c.args) >= 2 for c in ast.walk(s.value))]
        for d in draws:
            call = next(c for c in ast.walk(d.value) if isinstance(c, ast.Call) and attr_tail(c.func) in ('random_bits', 'np_random_bits') and len(c.args) >= 2)
            # the buffer under its successive names: B = draw; B = (await B).value; B = await B (same bits)
            same = {id(d)}
            nm = d.targets[0].id
            for s in iter_nodes(fn.node):
                if isinstance(s, ast.Assign) and len(s.targets) == 1 and isinstance(s.targets[0], ast.Name) and s.targets[0].id == nm:
                    v = s.value
                    while isinstance(v, (ast.Await, ast.Attribute)) or isinstance(v, ast.Call) and isinstance(v.func, ast.Attribute) and v.func.attr in ('copy',):
                        v = v.value if not isinstance(v, ast.Call) else v.func.value
                    if isinstance(v, ast.Name) and v.id == nm and any(id(x[0]) in same for x in reaching_definitions(fn.node, nm, s, pm)):
                        same.add(id(s))
            heads, tails, rests = [], [], []
            for x in iter_nodes(fn.node):
                if isinstance(x, ast.Subscript) and isinstance(x.value, ast.Name) and x.value.id == nm and isinstance(x.slice, ast.Slice) and x.slice.step is None:
                    st = astq.enclosing_stmt(x, pm)
                    rd = reaching_definitions(fn.node, nm, st, pm)
                    if not rd or not all(id(r[0]) in same for r in rd):
                        continue
                    lo, hi = x.slice.lower, x.slice.upper
                    if lo is None and hi is not None and not (isinstance(hi, ast.UnaryOp) and isinstance(hi.op, ast.USub)):
                        heads.append((x, hi))
                    elif hi is None and isinstance(lo, ast.UnaryOp) and isinstance(lo.op, ast.USub):
                        tails.append((x, lo.operand))
                    elif hi is None and lo is not None:
                        rests.append((x, lo))
            if not (heads and (tails or rests)):
                continue
            n_sites += 1
            N = call.args[1]      # (sizes are compared as written: the names in them must mean the same at the draw and at the parts)
            for _ in range(3):    # a size named first: n_bits = ..; draw(n_bits)
                if isinstance(N, ast.Name):
                    rd_ = reaching_definitions(fn.node, N.id, d, pm)
                    if len(rd_) == 1 and rd_[0][2] == 'assign' and rd_[0][1] is not None:
                        N = rd_[0][1]
            flags = sorted({x.id for c in ast.walk(N) if isinstance(c, ast.Call) and isinstance(c.func, ast.Name) and c.func.id == 'int' for x in ast.walk(c.args[0]) if isinstance(x, ast.Name)}
                           | {x.id for c in ast.walk(N) if isinstance(c, ast.IfExp) for x in ast.walk(c.test) if isinstance(x, ast.Name)}
                           | {x.id for s_, _e in heads + tails + rests for i_, _br in enclosing_ifs(s_, pm) for x in ast.walk(i_.test) if isinstance(x, ast.Name) and isinstance(i_.test, (ast.Name, ast.UnaryOp, ast.BoolOp))})
            bad = None
            undecided = False
            for vals in itertools.product((False, True), repeat=len(flags)):
                val = dict(zip(flags, vals))
                tr = _IntOfTest(val)
                Nv = to_poly(tr.visit(copy.deepcopy(N)))
                if tr.failed or Nv is None:
                    undecided = True
                    break

                def live(site):
                    for i_, br in enclosing_ifs(site, pm):
                        v = _bool_eval(i_.test, val)
                        if v is not None and v != (br == 'body'):
                            return False
                    return True
                for (hs, he), (ts, te) in itertools.product(heads, tails):
                    if not (live(hs) and live(ts)):
                        continue
                    hp, tp = to_poly(he), to_poly(te)
                    stable = all({id(r[0]) for r in reaching_definitions(fn.node, v_, d, pm)} == {id(r[0]) for r in reaching_definitions(fn.node, v_, astq.enclosing_stmt(site_, pm), pm)}
                                 for site_, e_ in ((hs, he), (ts, te)) for v_ in {x.id for x in ast.walk(e_) if isinstance(x, ast.Name)})
                    if hp is None or tp is None or not stable:
                        undecided = True
                        continue
                    rest = poly_sub(poly_sub(Nv, hp), tp)
                    if any(c < 0 for c in rest.values()):
                        bad = (hs, ts, val, norm(he), '-' + norm(te))
                # a part `B[J2:]` taking the rest starts behind every head part
                for (hs, he), (ts, te) in itertools.product(heads, rests):
                    if not (live(hs) and live(ts)):
                        continue
                    hp, tp = to_poly(he), to_poly(te)
                    if hp is None or tp is None:
                        undecided = True
                        continue
                    if any(c < 0 for c in poly_sub(tp, hp).values()):
                        bad = (hs, ts, val, norm(he), norm(te))
            if bad:
                rep.bad('RB1', fn, bad[1], f'{norm(call)} draws {norm(N)} bits, but with {bad[2]} the head part [:{bad[3]}] and the tail part [{bad[4]}:] together need more: '
                        'the two parts overlap, so the same secret random bit masks two different values (what is opened with the one reveals the other)')
            elif undecided:
                rep.skip('RB1', fn, d, 'sizes of the parts of the random-bit buffer not polynomial in the recognised form')
            else:
                rep.ok('RB1', fn, d, f'head and tail parts of the {norm(N)} drawn bits are disjoint for every valuation of {flags}')
    if n_sites == 0:
        raise AnalysisError('RB1: no random-bit buffer that is split into a head and a tail part was found (np_sgn)')
