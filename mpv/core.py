"""Source model shared by all rules: parses /repo/mpyc/*.py (never imports or runs it).

Nothing in this package executes repository code; every fact is read off the syntax tree.
"""
import ast
import copy
import glob
import hashlib
import os
from dataclasses import dataclass, field


class AnalysisError(Exception):
    """The analysis itself cannot proceed (vanished anchor, unrecognised idiom, floor not met).

    Reported as exit status 2 (ANALYSIS-ERROR), never as a VIOLATION.
    """


REPO = os.environ.get('MPV_REPO', '/repo')


def unparse(node):
    try:
        return ast.unparse(node)
    except Exception:  # pragma: no cover
        return '<?>'


def norm(node):
    """Normalised statement/expression text (used as a line-independent key)."""
    return ' '.join(unparse(node).split())


@dataclass
class Func:
    module: str
    qualname: str            # e.g. 'Runtime.mul' or 'Runtime._randoms.add_shares' or 'random_split'
    node: ast.AST
    cls: str = None          # enclosing class name (direct), if a method
    parent: 'Func' = None    # enclosing function for nested defs
    kind: str = 'sync'       # 'pc' | 'nopc' | 'async' | 'sync'
    annotated: bool = False  # has a return annotation (then nothing runs in the caller's context)
    decorators: tuple = ()

    @property
    def key(self):
        return f'{self.module}::{self.qualname}'

    @property
    def file(self):
        return f'mpyc/{self.module}.py'

    @property
    def params(self):
        a = self.node.args
        ps = [x.arg for x in a.posonlyargs + a.args + a.kwonlyargs]
        if a.vararg:
            ps.append(a.vararg.arg)
        if a.kwarg:
            ps.append(a.kwarg.arg)
        return ps

    def __repr__(self):
        return f'<Func {self.key} {self.kind}>'


def _deco_kind(node):
    """Coroutine kind from decorators: how the repo marks MPyC coroutines."""
    kind = None
    for d in node.decorator_list:
        s = unparse(d)
        tail = s.split('.')[-1]
        if tail == 'mpc_coro_no_pc':
            kind = 'nopc'
        elif tail in ('mpc_coro', 'coroutine') and ('mpc' in s or 'asyncoro' in s or 'runtime' in s or tail == 'mpc_coro'):
            if kind is None:
                kind = 'pc'
    return kind


_KNOWN = None


def known_functions():
    """Frozen table of the function names the rules were written against (reference tree).  A function that is not in
    the table is new to the rules: when it is small enough its calls are analysed as if its body stood at the call site."""
    global _KNOWN
    if _KNOWN is None:
        p = os.path.join(os.path.dirname(os.path.abspath(__file__)), 'known_funcs.txt')
        try:
            with open(p) as fh:
                _KNOWN = {l.strip() for l in fh if l.strip() and not l.startswith('#')}
        except OSError:
            _KNOWN = set()
    return _KNOWN


_LOCALS = None


def known_locals():
    """Frozen table {module::qualname of a top-level function or method: local names bound anywhere inside it} of the
    reference tree.  Used only to tell a temporary that a later change introduced from one the rules were written
    against: the former is substituted into its uses (pass GN/PN of canon.py, an equivalence), the latter is left alone.
    No verdict depends on the table: with an empty table the passes do nothing."""
    global _LOCALS
    if _LOCALS is None:
        _LOCALS = {}
        p = os.path.join(os.path.dirname(os.path.abspath(__file__)), 'known_locals.txt')
        try:
            with open(p) as fh:
                for l in fh:
                    if l.strip() and not l.startswith('#'):
                        k, _, v = l.rstrip('\n').partition('\t')
                        _LOCALS[k] = frozenset(x for x in v.split(',') if x)
        except OSError:
            _LOCALS = {}
    return _LOCALS


_DEFS = None


def known_defs():
    """Frozen table {module::qualname: [(local name, definition signatures)]} of the reference tree: how each local of a function is
    defined, up to the names of locals.  Used only by the vocabulary-restoration pass of canon.py, which gives a renamed local its
    reference name back (a consistent renaming is an equivalence whatever the table says).  No verdict depends on the table."""
    global _DEFS
    if _DEFS is None:
        import json
        p = os.path.join(os.path.dirname(os.path.abspath(__file__)), 'known_defs.json')
        try:
            with open(p) as fh:
                raw = json.load(fh)
            _DEFS = {k: [(nm, tuple(sg)) for nm, sg in v] for k, v in raw.items()}
        except (OSError, ValueError):
            _DEFS = {}
    return _DEFS


def bound_names(fn):
    """Every name bound anywhere inside a function (parameters, stores, comprehension targets, nested defs, imports)."""
    out = set()
    for n in ast.walk(fn):
        if isinstance(n, ast.Name) and isinstance(n.ctx, (ast.Store, ast.Del)):
            out.add(n.id)
        elif isinstance(n, ast.arg):
            out.add(n.arg)
        elif isinstance(n, (ast.FunctionDef, ast.AsyncFunctionDef, ast.ClassDef)) and n is not fn:
            out.add(n.name)
        elif isinstance(n, (ast.Import, ast.ImportFrom)):
            out |= {(a.asname or a.name).split('.')[0] for a in n.names}
        elif isinstance(n, ast.ExceptHandler) and n.name:
            out.add(n.name)
    return out


class _CanonCache:
    """Optional on-disk memo of canonicalised functions, keyed by the function's source text (and the version of the
    canonicaliser).  Purely an optimisation: a miss recomputes from the current source; nothing else is read from it."""

    def __init__(self, module):
        import pickle
        self.pickle = pickle
        self.dir = os.environ.get('MPV_CACHE', os.path.join(os.path.dirname(os.path.dirname(os.path.abspath(__file__))), '.cache'))
        try:
            h = hashlib.sha1()
            for f in ('canon.py', 'known_funcs.txt', 'known_locals.txt', 'known_defs.json'):
                with open(os.path.join(os.path.dirname(os.path.abspath(__file__)), f), 'rb') as fh:
                    h.update(fh.read())
            ver = h.hexdigest()[:12]
        except OSError:  # pragma: no cover
            ver = 'x'
        self.path = os.path.join(self.dir, f'canon-{ver}-{module}.pkl')
        if os.environ.get('MPV_PASSES') is not None:     # developer override of the pass set: never share a memo
            self.path = None
        self.data = {}
        self.new = {}
        if os.environ.get('MPV_NOCACHE'):
            self.path = None
            return
        try:
            with open(self.path, 'rb') as fh:
                self.data = pickle.load(fh)
        except Exception:
            self.data = {}

    def get(self, key, lineno):
        v = self.data.get(key)
        if v is None:
            return None
        try:
            base, blob = v
            node = self.pickle.loads(blob)
        except Exception:
            return None
        if base != lineno:
            ast.increment_lineno(node, lineno - base)
        return node

    def put(self, key, lineno, node):
        if self.path is None:
            return
        try:
            self.new[key] = (lineno, self.pickle.dumps(node, protocol=4))
        except Exception:  # pragma: no cover
            pass

    def flush(self):
        if not self.new or self.path is None:
            return
        try:
            os.makedirs(self.dir, exist_ok=True)
            cur = {}
            try:
                with open(self.path, 'rb') as fh:
                    cur = self.pickle.load(fh)
            except Exception:
                cur = {}
            if len(cur) > 6000:
                cur = {}
            cur.update(self.new)
            tmp = f'{self.path}.{os.getpid()}.tmp'
            with open(tmp, 'wb') as fh:
                self.pickle.dump(cur, fh, protocol=4)
            os.replace(tmp, self.path)
        except Exception:  # pragma: no cover
            pass


def _number(tree):
    """Source-order positions for every node of a (canonicalised) module: statements inlined from helpers carry the line numbers
    of the helper, so program order is recorded separately (attribute `_pos`, read by astq.position); `lineno` keeps pointing
    at the original source for reports."""
    k = 0
    stack = [tree]
    while stack:
        n = stack.pop()
        k += 1
        n._pos = (k, 0)
        stack.extend(reversed(list(ast.iter_child_nodes(n))))


class Model:
    """All modules of the package, indexed."""

    def __init__(self, sources):
        # sources: {module name: source text}
        self.sources = dict(sources)
        self.trees = {}
        self.funcs = {}         # key -> Func
        self.by_node = {}       # id(node) -> Func
        self.classes = {}       # 'module::Class' -> ClassDef
        self.class_alias = {}   # 'module::Class' -> {alias name: target name}
        self.class_bases = {}   # 'module::Class' -> [base names]
        self.helpers = {}       # module -> helper functions inlined at their call sites
        for m, src in self.sources.items():
            try:
                tree = ast.parse(src)
            except SyntaxError as e:
                raise AnalysisError(f'cannot parse mpyc/{m}.py: {e}')
            tree = self._canonicalise(m, tree)
            _number(tree)
            self.trees[m] = tree
            self._index(m, tree.body, prefix='', cls=None, parent=None)
        self.digest = hashlib.sha256('\0'.join(f'{m}\0{s}' for m, s in sorted(self.sources.items())).encode()).hexdigest()

    # functions whose bodies are canonicalised (aliases inlined, comparisons oriented, if-polarity and early
    # returns normalised) before any rule looks at them: the small protocol functions whose *shape* the
    # FR/PC/GA/LV rules inspect.  None = every function of the module.
    CANON = {'asyncoro': None,
             'runtime': {'_send_message', '_receive_message', '_prss_uci', 'set_protocol', 'unset_protocol'}}

    def _canonicalise(self, m, tree):
        sel = self.CANON.get(m, False)
        from . import canon
        lines = self.sources[m].splitlines()
        cache = _CanonCache(m)
        known = known_functions()
        locs = known_locals()
        rdefs = known_defs()

        # helpers: small functions that are not part of the vocabulary the rules were written against
        helpers = {}
        htext = []

        def scan(body, cls):
            for n in body:
                if isinstance(n, (ast.FunctionDef, ast.AsyncFunctionDef)):
                    q = f'{m}::{cls + "." if cls else ""}{n.name}'
                    if known and q not in known:
                        kind = canon.helper_candidate(n)
                        if kind is not None:
                            if cls and kind in ('function', 'afunction'):
                                kind = 'method' if kind == 'function' else 'amethod'
                            try:
                                hn = canon.canon_function(n, protocol=False)
                            except RecursionError:  # pragma: no cover
                                continue
                            helpers[(cls, n.name)] = canon.Helper(hn, kind, cls)
                            htext.append('\n'.join(lines[n.lineno - 1:n.end_lineno]))
                elif isinstance(n, ast.ClassDef) and cls is None:
                    scan(n.body, n.name)
                elif isinstance(n, (ast.If, ast.Try)) and cls is None:
                    scan(getattr(n, 'body', []) + getattr(n, 'orelse', []), None)
        scan(tree.body, None)
        hkey = hashlib.sha1('\0'.join(htext).encode()).hexdigest() if htext else ''
        self.helpers[m] = sorted(f'{c + "." if c else ""}{nm}' for c, nm in helpers)

        class T(ast.NodeTransformer):
            def __init__(self):
                self.cls = []
                self.depth = 0
                self.qual = []        # names of the enclosing functions
                self.clsname = None   # class of the enclosing method
                self.vocab = None     # reference-tree local names of the enclosing top-level function / method

            def visit_ClassDef(self, n):
                self.cls.append(n.name)
                self.generic_visit(n)
                self.cls.pop()
                return n

            def visit_FunctionDef(self, n):
                proto = sel is None or (sel is not False and n.name in sel)
                first = min([n.lineno] + [d.lineno for d in n.decorator_list])
                text = '\n'.join(lines[first - 1:n.end_lineno])
                cls = self.cls[-1] if (self.cls and self.depth == 0) else None
                if self.depth == 0:
                    self.clsname = cls
                    self.vocab = locs.get(f'{m}::{cls + "." if cls else ""}{n.name}')
                refsigs = rdefs.get(f'{m}::{cls + "." if cls else ""}{n.name}') if self.depth == 0 else None
                vocab = self.vocab
                vkey = ','.join(sorted(vocab)) if vocab is not None else '-'
                key = hashlib.sha1(f'{int(proto)}|{n.col_offset}|{hkey}|{vkey}|{text}'.encode()).hexdigest()
                hit = cache.get(key, n.lineno)
                if hit is not None:
                    return hit
                self.depth += 1
                saved, self.cls = self.cls, []
                self.qual.append(n.name)
                self.generic_visit(n)
                self.qual.pop()
                self.cls = saved
                self.depth -= 1
                try:
                    # local helper functions the reference tree does not have (plain nested `def` / `async def`, no decorator,
                    # only ever called): their body is analysed where they are called, and the definition disappears
                    outerq = f'{m}::{(self.clsname + ".") if self.clsname else ""}{".".join(self.qual + [n.name])}'
                    local_h = {}
                    for s_ in n.body:
                        if isinstance(s_, (ast.FunctionDef, ast.AsyncFunctionDef)) and not s_.decorator_list and known and f'{outerq}.{s_.name}' not in known:
                            kind_ = canon.helper_candidate(s_)
                            if kind_ is not None and kind_ in ('function', 'afunction'):
                                local_h[(None, s_.name)] = canon.Helper(copy.deepcopy(s_), kind_, None)
                    if local_h:
                        n = copy.deepcopy(n)
                        canon.h1_inline(n, local_h, None)
                        for (_c, nm_) in local_h:
                            if not any(isinstance(x_, ast.Name) and x_.id == nm_ and isinstance(x_.ctx, ast.Load) for x_ in ast.walk(n)):
                                n.body = [s_ for s_ in n.body if not (isinstance(s_, (ast.FunctionDef, ast.AsyncFunctionDef)) and s_.name == nm_)]
                    if helpers:
                        n = copy.deepcopy(n)
                        canon.h1_inline(n, {k: h for k, h in helpers.items() if h.node.name != n.name}, cls)
                    out = canon.canon_function(n, protocol=proto, vocab=vocab, refsigs=refsigs)
                except RecursionError:  # pragma: no cover
                    out = n
                cache.put(key, n.lineno, out)
                return out

            visit_AsyncFunctionDef = visit_FunctionDef
        tree = T().visit(tree)
        ast.fix_missing_locations(tree)
        cache.flush()
        return tree

    def _index(self, m, body, prefix, cls, parent):
        for n in body:
            if isinstance(n, (ast.FunctionDef, ast.AsyncFunctionDef)):
                q = prefix + n.name
                k = _deco_kind(n)
                if k is None:
                    k = 'async' if isinstance(n, ast.AsyncFunctionDef) else 'sync'
                f = Func(m, q, n, cls=cls, parent=parent, kind=k, annotated=n.returns is not None,
                         decorators=tuple(unparse(d) for d in n.decorator_list))
                # later definitions with the same qualname override (Python semantics)
                self.funcs[f.key] = f
                self.by_node[id(n)] = f
                self._index_nested(m, n, q + '.', f)
            elif isinstance(n, ast.ClassDef):
                ck = f'{m}::{prefix}{n.name}'
                self.classes[ck] = n
                self.class_bases[ck] = [unparse(b) for b in n.bases]
                al = {}
                for s in n.body:
                    if isinstance(s, ast.Assign) and isinstance(s.value, ast.Name):
                        for t in s.targets:
                            if isinstance(t, ast.Name):
                                al[t.id] = s.value.id
                self.class_alias[ck] = al
                self._index(m, n.body, prefix + n.name + '.', n.name, parent)
            elif isinstance(n, (ast.If, ast.Try)):
                # module-level conditional definitions (e.g. "if np:" in sectypes)
                for blk in ('body', 'orelse', 'finalbody'):
                    self._index(m, getattr(n, blk, []) or [], prefix, cls, parent)
                for h in getattr(n, 'handlers', []) or []:
                    self._index(m, h.body, prefix, cls, parent)

    def _index_nested(self, m, fn, prefix, parent):
        # nested function definitions anywhere in the body (not inside deeper defs: recursion does that)
        for n in iter_nodes(fn, skip_nested=True):
            if n is fn:
                continue
            if isinstance(n, (ast.FunctionDef, ast.AsyncFunctionDef)):
                q = prefix + n.name
                k = _deco_kind(n)
                if k is None:
                    k = 'async' if isinstance(n, ast.AsyncFunctionDef) else 'sync'
                f = Func(m, q, n, cls=None, parent=parent, kind=k, annotated=n.returns is not None,
                         decorators=tuple(unparse(d) for d in n.decorator_list))
                self.funcs[f.key] = f
                self.by_node[id(n)] = f
                self._index_nested(m, n, q + '.', f)

    # ---- lookup helpers
    def func(self, key, required=True):
        f = self.funcs.get(key)
        if f is None and required:
            raise AnalysisError(f'anchor vanished: function {key} not found')
        return f

    def cls(self, key, required=True):
        c = self.classes.get(key)
        if c is None and required:
            raise AnalysisError(f'anchor vanished: class {key} not found')
        return c

    def methods(self, clskey):
        c = self.cls(clskey)
        m = clskey.split('::')[0]
        out = {}
        for n in c.body:
            if isinstance(n, (ast.FunctionDef, ast.AsyncFunctionDef)):
                out[n.name] = self.by_node[id(n)]
        for a, t in self.class_alias[clskey].items():
            if t in out and a not in out:
                out[a] = out[t]
        return out

    def module_funcs(self, m):
        return {f.qualname: f for f in self.funcs.values() if f.module == m}


def iter_nodes(root, skip_nested=True):
    """Pre-order walk in source order; optionally not descending into nested defs/lambdas/classes."""
    stack = [root]
    while stack:
        n = stack.pop()
        yield n
        if skip_nested and n is not root and isinstance(n, (ast.FunctionDef, ast.AsyncFunctionDef, ast.Lambda, ast.ClassDef)):
            continue
        stack.extend(reversed(list(ast.iter_child_nodes(n))))


def names_in(node):
    return {n.id for n in ast.walk(node) if isinstance(n, ast.Name)}


def load_sources(repo=None, pkg='mpyc'):
    repo = repo or REPO
    d = os.path.join(repo, pkg)
    files = sorted(glob.glob(os.path.join(d, '*.py')))
    if not files:
        raise AnalysisError(f'no sources found under {d}')
    out = {}
    for f in files:
        with open(f, encoding='utf-8') as fh:
            out[os.path.basename(f)[:-3]] = fh.read()
    return out


def load_model(repo=None, overrides=None):
    src = load_sources(repo)
    if overrides:
        src.update(overrides)
    return Model(src)


# ---- obligations -------------------------------------------------------------------------------

@dataclass
class Ob:
    rule: str                 # e.g. 'PC1'
    file: str                 # 'mpyc/runtime.py'
    construct: str            # qualname, e.g. 'Runtime.mod'
    site: str                 # normalised text of the site / instance
    status: str               # 'ok' | 'violation' | 'unanalysed'
    detail: str = ''
    line: int = 0             # informative only

    @property
    def key(self):
        return f'{self.rule}|{self.file}::{self.construct}|{self.site}'

    def as_dict(self):
        return {'rule': self.rule, 'file': self.file, 'construct': self.construct, 'site': self.site,
                'line': self.line, 'verdict': self.status, 'detail': self.detail}


class Report:
    """Collects obligations of one rule run."""

    def __init__(self):
        self.obs = []
        self.analysed = {}     # rule -> set of constructs analysed

    def add(self, rule, fn, site, status, detail='', node=None):
        if isinstance(fn, Func):
            file, construct = fn.file, fn.qualname
        else:
            file, construct = fn
        if isinstance(site, ast.AST):
            node = node or site
            site = norm(site)
        line = getattr(node, 'lineno', 0) if node is not None else 0
        site = site if len(site) <= 160 else site[:157] + '...'
        o = Ob(rule, file, construct, site, status, detail, line)
        self.obs.append(o)
        self.analysed.setdefault(rule, set()).add(f'{file}::{construct}')
        return o

    def ok(self, rule, fn, site, detail='', node=None):
        return self.add(rule, fn, site, 'ok', detail, node)

    def bad(self, rule, fn, site, detail='', node=None):
        return self.add(rule, fn, site, 'violation', detail, node)

    def skip(self, rule, fn, site, detail='', node=None):
        return self.add(rule, fn, site, 'unanalysed', detail, node)

    def count(self, rule, status=None):
        return sum(1 for o in self.obs if o.rule == rule and (status is None or o.status == status))

    def floor(self, rule, n, what='instances'):
        """Fail closed when a rule matched fewer instances than confirmed by hand."""
        c = sum(1 for o in self.obs if o.rule == rule and o.status != 'unanalysed')
        if c < n:
            raise AnalysisError(f'rule {rule}: only {c} analysed {what}, floor is {n} '
                                f'(the rule would pass vacuously; anchors moved?)')


# ---- canonical text: insensitive to operand order of commutative operators and to the direction of
# comparisons (a > b == b < a), so that rules comparing conditions do not depend on how they are written
class _Canon(ast.NodeTransformer):
    def visit_Compare(self, n):
        self.generic_visit(n)
        if len(n.ops) == 1:
            l, r, op = n.left, n.comparators[0], n.ops[0]
            if isinstance(op, (ast.Gt, ast.GtE)):
                return ast.Compare(left=r, ops=[ast.Lt() if isinstance(op, ast.Gt) else ast.LtE()], comparators=[l])
            if isinstance(op, (ast.Eq, ast.NotEq, ast.Is, ast.IsNot)):
                a, b = sorted([l, r], key=lambda x: ast.unparse(x))
                return ast.Compare(left=a, ops=[op], comparators=[b])
        return n

    def visit_BoolOp(self, n):
        self.generic_visit(n)
        n.values = sorted(n.values, key=lambda x: ast.unparse(x))
        return n

    def visit_BinOp(self, n):
        self.generic_visit(n)
        if isinstance(n.op, (ast.Add, ast.Mult, ast.BitAnd, ast.BitOr, ast.BitXor)):
            # flatten and sort the operands of an associative-commutative chain
            def flat(x):
                if isinstance(x, ast.BinOp) and type(x.op) is type(n.op):
                    return flat(x.left) + flat(x.right)
                return [x]
            ops = sorted(flat(n), key=lambda x: ast.unparse(x))
            out = ops[0]
            for o in ops[1:]:
                out = ast.BinOp(left=out, op=n.op, right=o)
            return out
        return n

    def visit_UnaryOp(self, n):
        self.generic_visit(n)
        if isinstance(n.op, ast.Not) and isinstance(n.operand, ast.UnaryOp) and isinstance(n.operand.op, ast.Not):
            return n.operand.operand
        return n


def cnorm(node):
    """Canonical text of an expression (commutative operands sorted, comparisons oriented)."""
    import copy
    try:
        t = _Canon().visit(copy.deepcopy(node))
        ast.fix_missing_locations(t)
        return ' '.join(ast.unparse(t).split())
    except Exception:
        return norm(node)


def cnorm_text(text):
    try:
        return cnorm(ast.parse(text, mode='eval').body)
    except Exception:
        return text
