"""Regenerate /verif/MANIFEST.json from the property table (python -m mpv.manifest)."""
import json
import os

from .props import PROPS, NOT_APPLICABLE

VERIF = os.path.dirname(os.path.dirname(os.path.abspath(__file__)))
BASELINE = 'cd /repo && /venv/bin/python -m pytest -ra -q -p no:cacheprovider --timeout=900 --continue-on-collection-errors'


def _na():
    na = dict(NOT_APPLICABLE)
    for i in range(1, 40):
        pid = f'C{i:02d}'
        if pid not in PROPS and pid not in na:
            na[pid] = 'not claimed yet: the static rules for this property are still under construction (see DESIGN.md section 10)'
    return na


def build():
    checks = []
    for pid in sorted(PROPS):
        s = PROPS[pid]
        checks.append({
            'property_id': pid,
            'quick_cmd': f'bin/vcheck {pid}',
            'thorough_cmd': f'bin/vcheck {pid} --tier thorough',
            'evidence_file': f'/verif/evidence/{pid}.json',
            'replay_cmd_template': 'bin/vcheck ' + pid + ' --explain {path}',
            'engine': 'mpv',
            'level_claimed': {
                'category': 'other',
                'text': s['level'],
                'design_ref': 'DESIGN.md section 5 (' + pid + ') and section 4 (rules ' + ', '.join(r['id'] for r in s['rules']) + ')',
            },
            'level_note': s.get('note', 'Trusted base: the CPython parser, the rule implementations under /verif/mpv and their hand-confirmed '
                                        'tables (every entry carries its reason). Assumes: ' + '; '.join(s.get('assumptions', [])) + '.'),
            'technique': s.get('technique', 'static analysis: repo-specific AST/flow rules over the parsed source of /repo/mpyc (no execution)'),
        })
    return {
        'version': 1,
        'setup_cmd': 'true',
        'hooks': {
            'guard': 'LSCHOE_MPYC_VERIF',
            'enable': 'none: the checks read the source of /repo/mpyc and never run it, so no instrumentation exists',
            'baseline_off_cmd': BASELINE,
            'source_commits': [],
            'add_only': True,
        },
        'engines': [{
            'name': 'mpv',
            'path': '/verif/mpv',
            'serves_properties': sorted(PROPS),
            'kind_free_text': 'custom static analyser for mpyc (Python ast): source model + callee resolution through self./runtime./'
                              'aliases/operator dunders, await-aware flow walker with pc-consumer closure, protocol abstract interpreter '
                              '(degree/randomness/input dependence), linear forms for byte counts and bit lengths, routing algebra mod m, '
                              'writer/reader and sibling cross-checks; fail-closed (exit 2) on vanished anchors',
        }],
        'checks': checks,
        'not_applicable': [{'property_id': k, 'reason': v} for k, v in sorted(_na().items())],
        'notes': 'Technique family: static analysis only. Each claimed check decides named structural clauses that are necessary '
                 'conditions of the property (stated in level_claimed.text), never the runtime behaviour itself. Thorough tier = the same '
                 'rules plus self-validation: hand-written mutants and the seeded changes under /verif/seeded must be reported, '
                 'behaviour-preserving variants must stay silent. Genuine defects found on the pinned tree are recorded in '
                 'known_findings.json (all repaired by fix: commits in /repo).',
    }


def main():
    m = build()
    with open(os.path.join(VERIF, 'MANIFEST.json'), 'w') as f:
        json.dump(m, f, indent=1)
        f.write('\n')
    print(f'MANIFEST.json: {len(m["checks"])} checks, {len(m["not_applicable"])} not applicable')


if __name__ == '__main__':
    main()
