"""SG rules: scalar/array sibling agreement and array-type discipline (property C37, parts of C18/C02)."""
import ast

from .core import AnalysisError, iter_nodes, norm, cnorm
from . import astq, sem
from .astq import parents, calls_named, definitions, enclosing_ifs, const_int, attr_tail
from .linform import Lin, to_lin

RT = 'runtime::Runtime.'
SCALAR_CLASSES = {'SecureFixedPoint', 'SecureInteger', 'SecureFiniteField', 'SecureNumber', 'SecureFloat'}
ARRAY_CLASSES = {'SecureFixedPointArray', 'SecureIntegerArray', 'SecureFiniteFieldArray', 'SecureArray'}


# ---------------------------------------------------------------------------------- TC1
def rule_TC1(ctx, rep):
    """array-type discipline: a name bound to the type of a secure *array* (its .sectype is used) is never
    tested against a scalar secure class -- such a test is constantly False, so the branch it guards
    (e.g. the extra f bits of head-room in a truncation) silently never runs for arrays."""
    model = ctx.model
    n = 0
    for k, fn in sorted(model.funcs.items()):
        if fn.module != 'runtime':
            continue
        arr_types = set()
        scal_types = set()
        for x in iter_nodes(fn.node):
            if isinstance(x, ast.Attribute) and x.attr == 'sectype' and isinstance(x.value, ast.Name):
                arr_types.add(x.value.id)
            if isinstance(x, ast.Attribute) and x.attr == 'array' and isinstance(x.value, ast.Name):
                scal_types.add(x.value.id)
        # only names that are defined as type(<something>) and never re-bound to .sectype
        arr_types = {t for t in arr_types if all(v is not None and isinstance(v, ast.Call) and attr_tail(v.func) == 'type' for _, v, _ in definitions(fn.node, t))
                     and definitions(fn.node, t)}
        if not arr_types:
            continue
        for c in iter_nodes(fn.node):
            if isinstance(c, ast.Call) and isinstance(c.func, ast.Name) and c.func.id == 'issubclass' and len(c.args) == 2 \
                    and isinstance(c.args[0], ast.Name) and c.args[0].id in arr_types:
                n += 1
                cls = norm(c.args[1]).split('.')[-1]
                if cls in SCALAR_CLASSES:
                    rep.bad('TC1', fn, c, f'{c.args[0].id} is the type of a secure array (its .sectype is used in this function) but is tested against the scalar class {cls}: '
                            'the test is always False, so the guarded adjustment never happens for arrays (the scalar sibling does perform it)')
                else:
                    rep.ok('TC1', fn, c, f'array type tested against {cls}')
    if n < 10:
        raise AnalysisError(f'TC1: only {n} type tests on array types found (expected >= 10)')


# ---------------------------------------------------------------------------------- SG2
def rule_SG2(ctx, rep):
    """constructor-keyword agreement: `integral=` is passed to a polymorphic secure-type constructor only
    where the type is known to be a fixed-point (array) type."""
    model = ctx.model
    n = 0
    for k, fn in sorted(model.funcs.items()):
        if fn.module not in ('runtime', 'random', 'statistics', 'seclists', 'secgroups', 'secpols'):
            continue
        pm = None
        for c in iter_nodes(fn.node):
            if not (isinstance(c, ast.Call) and any(kw.arg == 'integral' for kw in c.keywords)):
                continue
            f = c.func
            poly = (isinstance(f, ast.Call) and attr_tail(f.func) == 'type') or (isinstance(f, ast.Name) and f.id in ('stype', 'sftype', 'sectype', 'secnum'))
            if not poly:
                continue
            n += 1
            pm = pm or parents(fn.node)
            # the path condition of the call (if statements, conditional expressions, flags, early exits) forces a fixed-point type
            from . import cond
            cx = cond.context(fn, c, pm)
            fx = any(('frac_length' in a and '==' not in a) or 'SecureFixedPoint' in a for a in cond.implied(cx)) or \
                any('frac_length' in a and '== 0' in a.replace('0 ==', '== 0') for a in cond.refuted(cx))
            if fx:
                rep.ok('SG2', fn, c, 'integral= passed only under a fixed-point guard')
            else:
                rep.bad('SG2', fn, c, 'integral= is passed to a constructor whose type may be a secure integer / field (array) type, which takes no such keyword: TypeError at the parties taking this branch')
    if n < 1:
        raise AnalysisError('SG2: no polymorphic constructor call with integral= found (the positive instance vanished)')


# ---------------------------------------------------------------------------------- SG1
PAIRS = [('trunc', 'np_trunc'), ('lsb', 'np_lsb'), ('sgn', 'np_sgn'), ('to_bits', 'np_to_bits'), ('is_zero_public', 'np_is_zero_public'),
         ('reciprocal', 'np_reciprocal'), ('_randoms', '_np_randoms'), ('random_bits', 'np_random_bits'), ('_is_zero', '_np_is_zero'),
         ('mul', 'np_multiply')]


_FIELD_RE = None


def _norm_atom(t):
    """Sibling-independent spelling of an atomic condition: the field of the type at hand is written FIELD -- whether it is
    spelled `stype.field`, `sftype.sectype.field`, a local `field`, or `(<type>.field if <secure> else <type>)`."""
    import copy

    class F(ast.NodeTransformer):
        def visit_Attribute(self, n):
            if n.attr == 'field':
                return ast.Name(id='FIELD', ctx=ast.Load())
            if norm(n) == 'runtime.options':
                return ast.parse('self.options', mode='eval').body
            return self.generic_visit(n)

        def visit_Name(self, n):
            return ast.Name(id='FIELD', ctx=ast.Load()) if n.id == 'field' else n

        def visit_IfExp(self, n):
            n = self.generic_visit(n)
            if isinstance(n.body, ast.Name) and n.body.id == 'FIELD':
                return n.body          # `X.field if issubclass(X, SecureObject) else X`: the field either way
            if isinstance(n.orelse, ast.Name) and n.orelse.id == 'FIELD':
                return n.orelse
            return n
    try:
        e = ast.parse(t, mode='eval').body
    except SyntaxError:
        return t
    return cnorm(ast.fix_missing_locations(F().visit(copy.deepcopy(e))))


def _relevant(a):
    return 'no_prss' in a or 'FIELD' in a or 'K' in a.split() or ' K' in a or 'characteristic' in a or 'sec_param' in a


def _map_atoms(f, fn_):
    if f[0] == 'atom':
        return ('atom', fn_(f[1]))
    if f[0] == 'not':
        return ('not', _map_atoms(f[1], fn_))
    if f[0] in ('and', 'or'):
        return (f[0], [_map_atoms(x, fn_) for x in f[1]])
    return f


def _thr_text(v):
    """Opening threshold as a linear form in T where possible (`2 * self.threshold // 2` -> T)."""
    from . import sem

    def lin(e):
        if isinstance(e, ast.BinOp) and isinstance(e.op, ast.FloorDiv) and const_int(e.right):
            l = lin(e.left)
            c = const_int(e.right)
            if l is not None and l.c % c == 0 and all(x % c == 0 for x in l.t.values()):
                return l * (1 / Lin(c).c)
            return None
        if isinstance(e, ast.BinOp) and isinstance(e.op, (ast.Add, ast.Sub)):
            a, b = lin(e.left), lin(e.right)
            if a is None or b is None:
                return None
            return a + b if isinstance(e.op, ast.Add) else a - b
        return to_lin(e, {}, opaque=False)
    l = lin(sem.symx(v))
    return repr(l) if l is not None else norm(v)


def _skeleton(ctx, fn):
    """Protocol events of a coroutine with the conditions under which they happen: {(kind, detail): formula}.  Kinds: mask
    bounds (as linear forms), openings with their threshold, resharings, PRSS calls, head-room additions, contributor divisors.
    Conditions are propositional formulas over option / field-size atoms (other atoms are quantified away), so the
    nesting, polarity and naming of the tests do not matter."""
    from .rules_pai import MaskEval
    from . import cond
    pm = parents(fn.node)
    ev = {}

    def add(kind, detail, f):
        f = cond.project(_map_atoms(f, _norm_atom), _relevant)
        key = (kind, detail)
        ev[key] = cond.disj([ev[key], f]) if key in ev else f
    knames = {s.targets[0].id for s in iter_nodes(fn.node) if isinstance(s, ast.Assign) and isinstance(s.targets[0], ast.Name)
              and norm(s.value).endswith('options.sec_param')}
    me = MaskEval(fn, knames)
    for c in iter_nodes(fn.node):
        if isinstance(c, ast.Call):
            name = attr_tail(c.func)
            if name in ('_random', '_randoms', '_np_randoms'):
                pos = 1 if name == '_random' else 2
                b = c.args[pos] if len(c.args) > pos else None
                if b is not None:
                    m = me._flat(me.ev(b))
                    add('mask', ' | '.join(sorted(map(repr, m.exps))) if m.exps else norm(b), cond.context(fn, c, pm))
                else:
                    add('mask', 'field', cond.context(fn, c, pm))
            if name == 'output':
                thr = [kw.value for kw in c.keywords if kw.arg == 'threshold']
                cx = cond.context(fn, c, pm)
                if thr:
                    for f, v, st in cond.value_cases(fn, thr[0], c, pm):
                        add('open', _thr_text(v), cond.conj([cx, f]))
                else:
                    add('open', 'default', cx)
            # NB: resharings are not compared: scalar protocols reshare inside schur_prod()/mul(), array ones call _reshare directly
            if name in ('pseudorandom_share_zero', 'np_pseudorandom_share_0'):
                add('prss', 'zero', cond.context(fn, c, pm))
            if name in ('pseudorandom_share', 'np_pseudorandom_share'):
                add('prss', 'share', cond.context(fn, c, pm))
        if isinstance(c, ast.AugAssign) and isinstance(c.op, ast.Add) and norm(c.target) == 'l':
            add('headroom', norm(c.value), cond.TRUE)
        if isinstance(c, ast.Assign) and norm(c.targets[0]) == 'bound' and 'bit_length' in norm(c.value):
            # the reduced bound per contributor, with temporaries and conditional expressions resolved into cases
            cx = cond.context(fn, c, pm)
            for f, v in cond.expr_cases(fn, c.value, c, pm):
                add('divisor', cnorm(sem.symx(v)), cond.conj([cx, f]))
    return ev


def rule_SG1(ctx, rep):
    """protocol-skeleton agreement between scalar and array siblings: the same mask bounds (as linear forms in k, l, f),
    openings with the same thresholds, resharings and PRSS calls, each under equivalent option / field-size conditions."""
    from . import cond
    model = ctx.model
    for a, b in PAIRS:
        fa, fb = model.func(RT + a), model.func(RT + b)
        sa, sb = _skeleton(ctx, fa), _skeleton(ctx, fb)
        diffs = []
        for key in sorted(set(sa) | set(sb)):
            what = f'{key[0]} {key[1]}'.strip()
            if key not in sb:
                diffs.append(f'the scalar protocol has `{what}` (when {cond.fmt(sa[key])}), the array sibling has not')
            elif key not in sa:
                diffs.append(f'the array sibling has `{what}` (when {cond.fmt(sb[key])}), the scalar protocol has not')
            elif not cond.equivalent(sa[key], sb[key]):
                diffs.append(f'`{what}` happens when {cond.fmt(sa[key])} in the scalar protocol but when {cond.fmt(sb[key])} in the array sibling')
        if diffs:
            for d in diffs:
                rep.bad('SG1', fb, f'{a} / {b}', f'array sibling deviates from the scalar protocol -- {d}', fb.node)
        else:
            rep.ok('SG1', fb, f'{a} / {b}', 'same events under equivalent conditions: ' + '; '.join(f'{k[0]} {k[1]}'.strip() for k in sorted(sa)), fb.node)


# ---------------------------------------------------------------------------------- AW1
RANDOM_SOURCES = ('_random', '_randoms', '_np_randoms')
FUTURE_FOR_FIELDS = ('random_bits', 'np_random_bits')      # declared returnType(Future) for a field type, with or without PRSS
SECTYPE_CTORS = ('SecFxp', 'SecInt', 'SecFld', 'SecFlt')


def rule_AW1(ctx, rep, scope=None):
    """typestate of locally generated randomness: `_random` / `_randoms` / `_np_randoms` asked for *field* values return the values
    themselves with PRSS but a Future without it (the contributions must first arrive), so on every path on which `options.no_prss`
    may hold the result has to be awaited before anything else is done with it.  For every call site with a field-typed (or not
    provably secure-typed) first argument: the result is bound to a name, and every use of that name that the call's own
    definition can reach un-awaited is either the `await` itself or lies where `no_prss` is excluded.
    scope 'np' / 'scalar' restricts the rule to the array / list protocols."""
    from . import cond
    model = ctx.model
    n = 0
    for k, fn in sorted(model.funcs.items()):
        if fn.module != 'runtime' or fn.cls != 'Runtime':
            continue
        pm = None
        for c in iter_nodes(fn.node):
            if not (isinstance(c, ast.Call) and isinstance(c.func, ast.Attribute) and c.func.attr in RANDOM_SOURCES + FUTURE_FOR_FIELDS and norm(c.func.value) == 'self' and c.args):
                continue
            always = c.func.attr in FUTURE_FOR_FIELDS
            if scope == 'np' and not c.func.attr.startswith(('_np_', 'np_')):
                continue
            if scope == 'scalar' and c.func.attr.startswith(('_np_', 'np_')):
                continue
            if fn.qualname.split('.')[-1] in RANDOM_SOURCES + FUTURE_FOR_FIELDS + ('random_bit',):
                continue                      # _random wraps _randoms and tests for the Future itself
            pm = pm or parents(fn.node)
            t0 = sem.expand(fn, c.args[0], c, pm)
            if isinstance(t0, ast.Call) and attr_tail(t0.func) in SECTYPE_CTORS:
                continue                      # a secure type: placeholders of that type are returned in both modes
            if always and not norm(t0).endswith('.field'):
                continue                      # only a type that is certainly a field makes the result certainly a Future
            if always and isinstance(pm.get(id(c)), ast.Await):
                n += 1
                rep.ok('AW1', fn, c, f'the Future returned by self.{c.func.attr} for a field type is awaited where it is created')
                continue
            n += 1
            par = pm.get(id(c))
            if not (isinstance(par, ast.Assign) and par.value is c and len(par.targets) == 1 and isinstance(par.targets[0], ast.Name)):
                rep.bad('AW1', fn, c, f'the result of self.{c.func.attr}({norm(c.args[0])}, ..) is used directly ({norm(par)[:70]}): without PRSS it is a Future that has to be '
                        'awaited first (AttributeError / TypeError at every party when the runtime runs with --no-prss)')
                continue
            r = par.targets[0].id
            bad = None
            for u in iter_nodes(fn.node):
                if not (isinstance(u, ast.Name) and u.id == r and isinstance(u.ctx, ast.Load)):
                    continue
                ds = astq.reaching_definitions(fn.node, r, u, pm)
                if not any(d[0] is par for d in ds):
                    continue
                up = pm.get(id(u))
                # the await itself: `await r`, `await self.gather(.., r, ..)`
                awaited = isinstance(up, ast.Await) or (isinstance(up, ast.Call) and attr_tail(up.func) == 'gather' and isinstance(pm.get(id(up)), ast.Await))
                cx = cond.context(fn, u, pm)
                excluded = not always and any('no_prss' in a for a in cond.refuted(cx))
                # a later definition `r = await r` under no_prss in between takes over on the no_prss paths
                taken_over = not always and any(d[0] is not par and isinstance(d[0], ast.stmt) and astq.position(par) < astq.position(d[0]) < astq.position(u)
                                                and any('no_prss' in a for a in cond.implied(cond.context(fn, d[0], pm)))
                                                and any(isinstance(x, ast.Await) for x in ast.walk(d[0])) for d in ds)
                if not (awaited or excluded or taken_over):
                    bad = u
                    break
            if bad is not None:
                st = astq.enclosing_stmt(bad, pm)
                rep.bad('AW1', fn, c, f'{r} = self.{c.func.attr}({norm(c.args[0])}, ..) is used in `{norm(st)[:70]}` before it is awaited on the paths with options.no_prss: '
                        'without PRSS it is a Future')
            else:
                rep.ok('AW1', fn, c, f'{r} is awaited {"" if always else "under options.no_prss "}before its value is used')
    return n


# ---------------------------------------------------------------------------------- WK1
_WK1_WITNESS = '''
def collect(executor, parts, out, W, n):
    tasks = [executor.submit(work, parts[i]) for i in range(W)]
    for i, task in enumerate(concurrent.futures.as_completed(tasks)):
        out[i*n//W:(i+1)*n//W] = task.result()
'''


def _wk1_sites(fnode):
    """[(for node, task names, order names)] for every loop over concurrent.futures.as_completed(..) in the function"""
    out = []
    for f in iter_nodes(fnode):
        if not isinstance(f, (ast.For, ast.AsyncFor)):
            continue
        it = f.iter
        if isinstance(it, ast.Call) and attr_tail(it.func) == 'as_completed':
            out.append((f, {x.id for x in ast.walk(f.target) if isinstance(x, ast.Name)}, set()))
            continue
        if isinstance(it, ast.Call) and isinstance(it.func, ast.Name) and it.func.id in ('enumerate', 'zip') and \
                any(isinstance(a, ast.Call) and attr_tail(a.func) == 'as_completed' for a in it.args):
            elts = f.target.elts if isinstance(f.target, (ast.Tuple, ast.List)) else None
            args = ([None] + list(it.args[:1])) if it.func.id == 'enumerate' else list(it.args)
            if elts is None or len(elts) != len(args):
                out.append((f, set(), {x.id for x in ast.walk(f.target) if isinstance(x, ast.Name)}))
                continue
            task, order = set(), set()
            for e, a in zip(elts, args):
                names = {x.id for x in ast.walk(e) if isinstance(x, ast.Name)}
                if a is not None and isinstance(a, ast.Call) and attr_tail(a.func) == 'as_completed':
                    task |= names
                else:
                    order |= names
            out.append((f, task, order))
    return out


def _wk1_judge(fnode):
    """[(store statement, verdict, text)] for the positional stores in loops over as_completed"""
    res = []
    for f, task, order in _wk1_sites(fnode):
        body = [s for b in f.body for s in iter_nodes(b)]
        tainted = set(task)
        counters = {s.target.id for s in body if isinstance(s, ast.AugAssign) and isinstance(s.target, ast.Name)}
        changed = True
        while changed:          # names computed from the completed task (i = tasks[task]; lo, hi = bounds[task]; ..)
            changed = False
            for s in body:
                if isinstance(s, ast.Assign) and any(isinstance(x, ast.Name) and x.id in tainted for x in ast.walk(s.value)):
                    for t in s.targets:
                        for x in ast.walk(t):
                            if isinstance(x, ast.Name) and isinstance(x.ctx, ast.Store) and x.id not in tainted:
                                tainted.add(x.id)
                                changed = True
        for s in body:
            tgts = s.targets if isinstance(s, ast.Assign) else [s.target] if isinstance(s, ast.AugAssign) else []
            for t in tgts:
                if not isinstance(t, ast.Subscript):
                    continue
                idx = {x.id for x in ast.walk(t.slice) if isinstance(x, ast.Name)}
                if idx & tainted:
                    res.append((s, True, 'the position of each result is looked up from the completed task itself'))
                elif idx & (order | counters):
                    res.append((s, False, f'the position is computed from {sorted(idx & (order | counters))}, which counts completions, not submissions'))
    return res


def rule_WK1(ctx, rep):
    """results of worker threads are placed by submission, not by completion: in a loop over `concurrent.futures.as_completed(..)` the
    futures arrive in the order they finish, so every positional store of a result takes its position from the completed task (a
    look-up keyed on the future), never from an enumeration index or a running counter of the loop.  Otherwise the chunks of an
    array result are permuted whenever a later chunk finishes first -- a schedule of the thread pool no test controls."""
    model = ctx.model
    # the rule's expected count may legitimately become zero (executor.map keeps submission order): keep a positive example
    wit = ast.parse(_WK1_WITNESS).body[0]
    if [v for _s, v, _t in _wk1_judge(wit)] != [False]:
        raise AnalysisError('WK1: the built-in witness (enumerate over as_completed used as position) is no longer reported')
    n = 0
    for k, fn in sorted(model.funcs.items()):
        if not any(isinstance(c, ast.Call) and attr_tail(c.func) == 'as_completed' for c in iter_nodes(fn.node)):
            continue
        sites = _wk1_sites(fn.node)
        if not sites:
            raise AnalysisError(f'WK1: {fn.qualname} uses as_completed outside a for statement: not read by this rule')
        for s, good, text in _wk1_judge(fn.node):
            n += 1
            if good:
                rep.ok('WK1', fn, s, text)
            else:
                rep.bad('WK1', fn, s, f'{text}: when a later chunk finishes first the chunks of the result are exchanged')
    return n
