"""Syntax-directed flow walker used by the PC rules.

For every function it records *sites* (calls, operator applications on possibly-secure operands,
direct program-counter references, function references) together with

  * `after`  -- the site may execute after an `await` of the function (i.e. not in the caller's
                synchronous context but from a later task step),
  * `ctrl`   -- tags of the conditions the site is control-dependent on (PID: derived from the
                party's own id; SH: derived from this party's plain shares; RND: local entropy;
                TIME: completion state of futures),
  * a light value tag for operands: SEC (a secure object / placeholder), SH (plain share obtained
    from gather), PID, RND, TYPE (a secure type object), PLAIN, None (unknown).

The consumer closure (which functions consume the program counter when *called*) is a fixed point
over these sites.
"""
import ast

from .core import Func, iter_nodes, unparse, norm
from .resolve import (Resolver, RUNTIME_CLASS, BINOP_DUNDER, CMP_DUNDER, UNARY_DUNDER)

SECURE_OPERAND_CLASSES = ('sectypes::SecureNumber', 'sectypes::SecureArray')
PUBLIC_ATTRS = {'integral', 'shape', 'size', 'ndim', 'bit_length', 'frac_length', 'field', 'order',
                'modulus', 'characteristic', 'ext_deg', 'options', 'threshold', 'parties',
                'sec_param', 'no_prss', 'mix32_64bit', 'is_signed', 'subfield', 'dtype',
                'byte_length', 'group', '__name__'}
TYPE_ATTRS = {'sectype', 'array'}
CONTAINER_FUNCS = {'list', 'tuple', 'zip', 'map', 'reversed', 'enumerate', 'iter', 'sorted', 'sum',
                   'next', 'filter'}
PUBLIC_FUNCS = {'len', 'range', 'isinstance', 'issubclass', 'hasattr', 'callable', 'id'}
SCHEDULERS = {'add_done_callback', 'call_soon', 'call_later', 'call_at', 'call_soon_threadsafe'}
SPAWNERS = {'create_task', 'ensure_future', 'Task', 'run_coroutine_threadsafe'}


class Site:
    __slots__ = ('node', 'kind', 'targets', 'dunder', 'after', 'ctrl', 'recv_sec', 'arg_sec', 'text')

    def __init__(self, node, kind, targets=(), dunder=None, after=False, ctrl=(), recv_sec=False,
                 arg_sec=False):
        self.node = node
        self.kind = kind          # 'call' | 'op' | 'pcref' | 'ref' | 'method'
        self.targets = tuple(targets)   # Func keys
        self.dunder = dunder
        self.after = after
        self.ctrl = tuple(ctrl)
        self.recv_sec = recv_sec
        self.arg_sec = arg_sec
        self.text = norm(node)

    def __repr__(self):
        return f'<Site {self.kind} {self.text[:40]} after={self.after} ctrl={self.ctrl}>'


def _join(a, b):
    if a == b:
        return a
    if a is None or b is None:
        return None
    if 'SEC' in (a, b):
        # SEC on one path, something else on the other: unknown (must-analysis stays silent)
        return None
    for t in ('SH', 'RND', 'PID', 'TIME'):
        if t in (a, b):
            return t
    return None


def _dep(*tags):
    """Tag of a value computed from values with the given tags (data dependence)."""
    for t in ('SEC', 'SH', 'RND', 'PID', 'TIME'):
        if t in tags:
            return t
    if tags and all(x == 'PLAIN' for x in tags):
        return 'PLAIN'
    return None


class Walker:
    def __init__(self, fn, resolver, init_env=None):
        self.fn = fn
        self.rs = resolver
        self.env = dict(init_env or {})
        self.after = fn.kind in ('pc', 'nopc') and fn.annotated  # annotated: nothing runs in caller
        self.sites = []
        self.ctrl = []
        self.has_await = False
        self.callbacks = []   # (node, expr registered as callback, how)
        self.spawns = []      # (node, coroutine expr)
        self.cond_sites = []  # (test node, tag, after)

    # ------------------------------------------------------------------ helpers
    def site(self, node, kind, **kw):
        s = Site(node, kind, after=self.after, ctrl=[c for c in self.ctrl if c and c[0]], **kw)
        self.sites.append(s)
        return s

    def bind(self, target, tag, value=None):
        if isinstance(target, ast.Name):
            self.env[target.id] = tag
        elif isinstance(target, (ast.Tuple, ast.List)):
            if isinstance(value, (ast.Tuple, ast.List)) and len(value.elts) == len(target.elts) \
                    and not any(isinstance(x, ast.Starred) for x in target.elts):
                for t, v in zip(target.elts, value.elts):
                    self.bind(t, self.ev_quiet(v), v)
            else:
                for t in target.elts:
                    self.bind(t, tag)
        elif isinstance(target, ast.Starred):
            self.bind(target.value, tag)
        elif isinstance(target, ast.Subscript):
            self.ev(target.value)
            self.ev(target.slice)
            base = target.value
            while isinstance(base, ast.Subscript):
                base = base.value
            if isinstance(base, ast.Name):
                old = self.env.get(base.id)
                if old != tag:
                    self.env[base.id] = _join(old, tag) if old is not None else None
        elif isinstance(target, ast.Attribute):
            self.ev(target.value)

    def ev_quiet(self, e):
        """Tag of an expression without recording sites (already recorded)."""
        n = len(self.sites)
        a, h = self.after, self.has_await
        t = self.ev(e)
        del self.sites[n:]
        self.after, self.has_await = a, h
        return t

    # ------------------------------------------------------------------ expressions
    def ev(self, e):
        if e is None:
            return 'PLAIN'
        m = getattr(self, 'e_' + type(e).__name__, None)
        if m is None:
            tags = [self.ev(c) for c in ast.iter_child_nodes(e) if isinstance(c, ast.expr)]
            return _dep(*tags) if tags else None
        return m(e)

    def e_Constant(self, e):
        return 'PLAIN'

    def e_JoinedStr(self, e):
        for v in e.values:
            if isinstance(v, ast.FormattedValue):
                self.ev(v.value)
        return 'PLAIN'

    def e_Lambda(self, e):
        return None

    def e_Name(self, e):
        return self.env.get(e.id)

    def e_Attribute(self, e):
        if e.attr == '_program_counter':
            self.site(e, 'pcref')
            self.ev(e.value)
            return 'PLAIN'
        if e.attr == 'pid' and self.rs.is_runtime_expr(self.fn, e.value):
            return 'PID'
        if e.attr == 'pid' and isinstance(e.value, ast.Name) and e.value.id in ('rt',):
            return 'PID'
        base = self.ev(e.value)
        if e.attr in PUBLIC_ATTRS:
            return 'PLAIN'
        if e.attr in ('value', 'share'):
            return 'SH' if base in ('SEC', 'SH') else base
        if e.attr in TYPE_ATTRS and base in ('TYPE', 'SEC'):
            return 'TYPE'
        if base in ('SH', 'PID', 'RND', 'TIME'):
            return base
        return None

    def e_Subscript(self, e):
        b = self.ev(e.value)
        s = self.ev(e.slice)
        if b in ('SEC', 'SH', 'TYPE'):
            return b
        return _dep(b, s) if b is not None else None

    def e_Slice(self, e):
        tags = [self.ev(x) for x in (e.lower, e.upper, e.step) if x is not None]
        return _dep(*tags) if tags else 'PLAIN'

    def _seq(self, e):
        tags = [self.ev(x) for x in e.elts]
        if 'SEC' in tags:
            return 'SEC'
        return _dep(*tags) if tags else 'PLAIN'

    e_Tuple = e_List = e_Set = _seq

    def e_Dict(self, e):
        tags = [self.ev(x) for x in list(e.keys) + list(e.values) if x is not None]
        return _dep(*tags) if tags else 'PLAIN'

    def e_Starred(self, e):
        return self.ev(e.value)

    def e_NamedExpr(self, e):
        t = self.ev(e.value)
        self.bind(e.target, t, e.value)
        return t

    def e_IfExp(self, e):
        ct = self.ev(e.test)
        self.cond_sites.append((e.test, ct, self.after))
        self.ctrl.append(self._ctrl_tag(e.test, ct))
        a = self.ev(e.body)
        b = self.ev(e.orelse)
        self.ctrl.pop()
        return _join(a, b)

    def e_BoolOp(self, e):
        tags = [self.ev(v) for v in e.values]
        return _dep(*tags)

    def e_UnaryOp(self, e):
        t = self.ev(e.operand)
        if isinstance(e.op, ast.Not):
            return 'PLAIN' if t in ('PLAIN', 'SEC', 'TYPE', None) else t
        if t == 'SEC':
            self.site(e, 'op', dunder=UNARY_DUNDER[type(e.op)])
        return t

    def e_BinOp(self, e):
        l = self.ev(e.left)
        r = self.ev(e.right)
        if 'SEC' in (l, r):
            d = BINOP_DUNDER[type(e.op)]
            self.site(e, 'op', dunder=d if l == 'SEC' else 'r' + d)
            return 'SEC'
        return _dep(l, r)

    def e_Compare(self, e):
        tags = [self.ev(e.left)] + [self.ev(c) for c in e.comparators]
        if all(isinstance(o, (ast.Is, ast.IsNot)) for o in e.ops):
            return 'PLAIN' if 'SEC' in tags else _dep(*tags)
        if all(isinstance(o, (ast.In, ast.NotIn)) for o in e.ops):
            return _dep(*[t for t in tags if t != 'SEC']) if any(t != 'SEC' for t in tags) else 'PLAIN'
        if 'SEC' in tags:
            op = e.ops[0]
            if type(op) in CMP_DUNDER:
                # `x == []`, `x != []` on possibly-secure *lists* are plain list comparisons
                if any(isinstance(c, (ast.List, ast.Tuple)) and not c.elts for c in [e.left] + e.comparators):
                    return 'PLAIN'
                self.site(e, 'op', dunder=CMP_DUNDER[type(op)])
                return 'SEC'
        return _dep(*tags)

    def _comp(self, e, elts):
        saved = dict(self.env)
        for g in e.generators:
            it = self.ev(g.iter)
            self.bind(g.target, it)
            for c in g.ifs:
                self.ev(c)
        tags = [self.ev(x) for x in elts]
        self.env = saved
        return tags[0] if len(tags) == 1 else _dep(*tags)

    def e_ListComp(self, e):
        return self._comp(e, [e.elt])

    e_SetComp = e_GeneratorExp = e_ListComp

    def e_DictComp(self, e):
        return self._comp(e, [e.key, e.value])

    def e_Await(self, e):
        self.ev(e.value)
        self.has_await = True
        self.after = True
        v = e.value
        if isinstance(v, ast.Call) and isinstance(v.func, ast.Attribute) and v.func.attr in ('gather', 'gather_shares'):
            return 'SH'
        # awaiting an opening (output & co) or returnType yields public values / None
        return 'PLAIN'

    def e_Yield(self, e):
        if e.value is not None:
            self.ev(e.value)
        return None

    e_YieldFrom = e_Yield

    def e_Call(self, e):
        f = e.func
        fname = f.id if isinstance(f, ast.Name) else (f.attr if isinstance(f, ast.Attribute) else None)
        # receiver / callee expression
        recv_tag = None
        ftag = None
        if isinstance(f, ast.Attribute):
            recv_tag = self.ev(f.value)
        elif isinstance(f, ast.Name):
            ftag = self.env.get(f.id)
        else:
            ftag = self.ev(f)
        args = list(e.args) + [k.value for k in e.keywords]
        atags = [self.ev(a) for a in args]
        arg_sec = 'SEC' in atags
        # references to functions passed as arguments (higher-order use)
        for a in args:
            if isinstance(a, (ast.Attribute, ast.Name)):
                tg = self.rs.resolve_attr(self.fn, a)
                if tg:
                    self.site(a, 'ref', targets=[t.key for t in tg])
        # callbacks / task spawning
        if fname in SCHEDULERS and args:
            cb = args[1] if fname in ('call_later', 'call_at') and len(args) > 1 else args[0]
            self.callbacks.append((e, cb, fname))
        if fname in SPAWNERS and args:
            self.spawns.append((e, args[0]))
        if isinstance(f, ast.Name) and f.id == 'type' and len(e.args) == 1:
            return 'TYPE' if atags[0] in ('SEC', 'TYPE') else 'PLAIN'
        if isinstance(f, ast.Name) and f.id in PUBLIC_FUNCS:
            return 'PLAIN'
        if isinstance(f, ast.Attribute) and isinstance(f.value, ast.Name) and f.value.id == 'secrets':
            return 'RND'
        if fname == 'done' and not args:
            return 'TIME'
        targets = self.rs.resolve_call(self.fn, e)
        if targets:
            self.site(e, 'call', targets=[t.key for t in targets], arg_sec=arg_sec)
            if any(t.cls == 'Runtime' or t.kind in ('pc', 'nopc') for t in targets):
                if fname in ('gather', 'gather_shares'):
                    return None
                return 'SEC' if arg_sec else None
            return _dep(*atags) if atags and _dep(*atags) in ('SH', 'RND', 'PID', 'TIME') else None
        if recv_tag == 'SEC' and isinstance(f, ast.Attribute):
            # method of a secure object: resolved against the secure operand classes
            tg = []
            for ck in SECURE_OPERAND_CLASSES:
                m = self.rs.method(ck, f.attr)
                if m is not None:
                    tg.append(m.key)
            if tg:
                self.site(e, 'method', targets=tg, recv_sec=True)
            return 'SEC'
        if ftag == 'TYPE' or recv_tag == 'TYPE':
            return 'SEC'
        if isinstance(f, ast.Name) and f.id in CONTAINER_FUNCS:
            if arg_sec:
                return 'SEC'
            return _dep(*atags) if atags else 'PLAIN'
        d = _dep(recv_tag, *atags) if (atags or recv_tag) else None
        if d in ('SH', 'RND', 'PID', 'TIME'):
            return d
        return None

    # ------------------------------------------------------------------ conditions
    @staticmethod
    def _structural(test):
        """Identity / type tests are structural (same outcome is not required for pc-uniformity
        reasons: they test presence, not values)."""
        if isinstance(test, ast.Compare) and all(isinstance(o, (ast.Is, ast.IsNot)) for o in test.ops):
            return True
        if isinstance(test, ast.UnaryOp) and isinstance(test.op, ast.Not):
            return Walker._structural(test.operand)
        if isinstance(test, ast.Call) and isinstance(test.func, ast.Name) and test.func.id in ('isinstance', 'issubclass', 'hasattr'):
            return True
        return False

    def _ctrl_tag(self, test, tag):
        if tag in ('SH', 'PID', 'RND', 'TIME') and not self._structural(test):
            return (tag, test)
        return None

    # ------------------------------------------------------------------ statements
    def block(self, stmts):
        """Walk statements; return True if control may fall through the end."""
        pushed = 0
        alive = True
        for s in stmts:
            if not alive:
                break
            alive = self.stmt(s)
            # statements after `if T: <all paths leave>` are control-dependent on T
            if alive and isinstance(s, ast.If) and getattr(s, '_mpv_exit_tag', None):
                self.ctrl.append(s._mpv_exit_tag)
                pushed += 1
        for _ in range(pushed):
            self.ctrl.pop()
        return alive

    def stmt(self, s):
        m = getattr(self, 's_' + type(s).__name__, None)
        if m is None:
            for c in ast.iter_child_nodes(s):
                if isinstance(c, ast.expr):
                    self.ev(c)
            return True
        return m(s)

    def s_Expr(self, s):
        self.ev(s.value)
        return True

    def s_Assign(self, s):
        t = self.ev(s.value)
        for tg in s.targets:
            self.bind(tg, t, s.value)
        return True

    def s_AnnAssign(self, s):
        if s.value is not None:
            t = self.ev(s.value)
            self.bind(s.target, t, s.value)
        return True

    def s_AugAssign(self, s):
        cur = self.ev_quiet(s.target) if not isinstance(s.target, ast.Name) else self.env.get(s.target.id)
        r = self.ev(s.value)
        if 'SEC' in (cur, r):
            d = BINOP_DUNDER[type(s.op)]
            self.site(s, 'op', dunder=d if cur == 'SEC' else 'r' + d)
            t = 'SEC'
        else:
            t = _dep(cur, r)
        self.bind(s.target, t)
        return True

    def s_Return(self, s):
        if s.value is not None:
            self.ev(s.value)
        return False

    def s_Raise(self, s):
        if s.exc is not None:
            self.ev(s.exc)
        return False

    def s_Break(self, s):
        return False

    def s_Continue(self, s):
        return False

    def s_Pass(self, s):
        return True

    def s_Delete(self, s):
        for t in s.targets:
            if isinstance(t, ast.Name):
                self.env.pop(t.id, None)
        return True

    def s_Assert(self, s):
        self.ev(s.test)
        return True

    def s_FunctionDef(self, s):
        return True

    s_AsyncFunctionDef = s_ClassDef = s_Import = s_ImportFrom = s_Global = s_Nonlocal = s_FunctionDef

    def _branches(self, alts):
        """alts: list of callables, each walking one alternative from the same entry state.
        Returns whether any falls through; merges env/after of those that do."""
        env0, after0 = dict(self.env), self.after
        outs = []
        for alt in alts:
            self.env, self.after = dict(env0), after0
            alive = alt()
            outs.append((alive, self.env, self.after))
        live = [(e, a) for al, e, a in outs if al]
        if not live:
            # keep a state for the (dead) continuation
            self.env, self.after = env0, any(a for _, _, a in outs) or after0
            return False
        env = {}
        for k in set().union(*[set(e) for e, _ in live]):
            v = live[0][0].get(k)
            for e, _ in live[1:]:
                v = _join(v, e.get(k)) if (k in e or v is not None) else None
                if k not in e:
                    v = None
            if all(k in e for e, _ in live):
                env[k] = v
        self.env = env
        self.after = any(a for _, a in live)
        return True

    def s_If(self, s):
        ct = self.ev(s.test)
        self.cond_sites.append((s.test, ct, self.after))
        tag = self._ctrl_tag(s.test, ct)
        self.ctrl.append(tag)
        res = []

        def body():
            r = self.block(s.body)
            res.append(r)
            return r

        def orelse():
            r = self.block(s.orelse)
            res.append(r)
            return r
        alive = self._branches([body, orelse])
        self.ctrl.pop()
        s._mpv_exit_tag = tag if (tag and not all(res)) else None
        return alive

    def _loop(self, s, head):
        env0 = dict(self.env)
        head()
        n0 = len(self.sites)
        a0 = self.after
        self.block(s.body)
        if self.after and not a0:
            # second iteration: the whole body may run after an await
            for k in set(env0) | set(self.env):
                self.env[k] = _join(env0.get(k), self.env.get(k)) if k in env0 and k in self.env else None
            seen = {(id(x.node), x.kind) for x in self.sites[n0:] if x.after}
            head()
            n1 = len(self.sites)
            self.block(s.body)
            # keep only newly-after sites from the second pass (avoid duplicates)
            keep = []
            for x in self.sites[n1:]:
                if (id(x.node), x.kind) not in seen:
                    keep.append(x)
            # drop first-pass not-after twins of those
            twins = {(id(x.node), x.kind) for x in keep}
            first = [x for x in self.sites[n0:n1] if not ((id(x.node), x.kind) in twins and not x.after)]
            self.sites[n0:] = first + keep
        else:
            for k in list(self.env):
                if k in env0:
                    self.env[k] = _join(env0[k], self.env[k])
        if s.orelse:
            self.block(s.orelse)
        return True

    def s_For(self, s):
        def head():
            t = self.ev(s.iter)
            self.bind(s.target, t)
        return self._loop(s, head)

    def s_AsyncFor(self, s):
        def head():
            t = self.ev(s.iter)
            self.has_await = True
            self.after = True
            self.bind(s.target, t)
        return self._loop(s, head)

    def s_While(self, s):
        tagbox = []

        def head():
            ct = self.ev(s.test)
            self.cond_sites.append((s.test, ct, self.after))
            tagbox.append(self._ctrl_tag(s.test, ct))
        # the loop body is control-dependent on the loop test
        ct0 = self.ev_quiet(s.test)
        self.ctrl.append(self._ctrl_tag(s.test, ct0))
        r = self._loop(s, head)
        self.ctrl.pop()
        return r

    def s_With(self, s):
        for it in s.items:
            t = self.ev(it.context_expr)
            if it.optional_vars is not None:
                self.bind(it.optional_vars, t)
        return self.block(s.body)

    def s_AsyncWith(self, s):
        for it in s.items:
            t = self.ev(it.context_expr)
            self.has_await = True
            self.after = True
            if it.optional_vars is not None:
                self.bind(it.optional_vars, t)
        return self.block(s.body)

    def s_Try(self, s):
        env0, after0 = dict(self.env), self.after
        alive = self.block(s.body)
        if alive and s.orelse:
            alive = self.block(s.orelse)
        outs = [(alive, dict(self.env), self.after)]
        for h in s.handlers:
            self.env = dict(env0)
            # an exception may be raised after an await inside the body
            self.after = outs[0][2] or after0
            if h.type is not None:
                self.ev(h.type)
            a = self.block(h.body)
            outs.append((a, dict(self.env), self.after))
        live = [o for o in outs if o[0]]
        self.after = any(o[2] for o in outs)
        if live:
            env = {}
            for k in live[0][1]:
                if all(k in o[1] for o in live):
                    v = live[0][1][k]
                    for o in live[1:]:
                        v = _join(v, o[1][k])
                    env[k] = v
            self.env = env
        if s.finalbody:
            fa = self.block(s.finalbody)
            return bool(live) and fa
        return bool(live)

    s_TryStar = s_Try

    def s_Match(self, s):
        self.ev(s.subject)
        alts = []
        for c in s.cases:
            def alt(c=c):
                if c.guard is not None:
                    self.ev(c.guard)
                return self.block(c.body)
            alts.append(alt)
        alts.append(lambda: True)  # no case matches
        return self._branches(alts)


def gather_params(fn):
    """Parameters that are (or contain) secure objects on some call: those handed to `gather`."""
    ps = set(fn.params)
    out = set()
    for n in iter_nodes(fn.node):
        if isinstance(n, ast.Call) and isinstance(n.func, ast.Attribute) and n.func.attr in ('gather', 'gather_shares'):
            for a in n.args:
                # receivers of method calls inside the argument (`self.trunc(..)`) are not operands
                recv = {id(c.func.value) for c in ast.walk(a) if isinstance(c, ast.Call) and isinstance(c.func, ast.Attribute)}
                for x in ast.walk(a):
                    if isinstance(x, ast.Name) and x.id in ps and id(x) not in recv and x.id not in ('self', 'cls'):
                        out.add(x.id)
    return out


SECURE_CLASSES_SELF = ('SecureNumber', 'SecureFiniteField', 'SecureInteger', 'SecureFixedPoint',
                       'SecureFloat', 'SecureArray', 'SecureFiniteFieldArray', 'SecureIntegerArray',
                       'SecureFixedPointArray', 'SecureFiniteGroup')


def initial_env(fn):
    env = {}
    if fn.kind in ('pc', 'nopc') or fn.cls == 'Runtime':
        for p in gather_params(fn):
            env[p] = 'SEC'
    if fn.cls in SECURE_CLASSES_SELF and fn.params and fn.params[0] == 'self':
        env['self'] = 'SEC'
        nm = fn.node.name.strip('_')
        if fn.node.name.startswith('__') and len(fn.params) == 2 and \
                (nm in _BIN_NAMES or (nm.startswith('r') and nm[1:] in _BIN_NAMES) or
                 (nm.startswith('i') and nm[1:] in _BIN_NAMES)):
            env[fn.params[1]] = 'SEC'
    return env


_BIN_NAMES = set(BINOP_DUNDER.values()) | set(CMP_DUNDER.values()) | {'divmod'}


class FlowAnalysis:
    """Sites of every function + the consumer closure."""

    def __init__(self, model):
        self.model = model
        self.rs = Resolver(model)
        self.walk = {}
        for k, fn in model.funcs.items():
            w = Walker(fn, self.rs, initial_env(fn))
            w.block(fn.node.body)
            self.walk[k] = w
        self.consumers = {}   # key -> reason (first consuming site text)
        self._closure()

    # which part of a function runs synchronously when it is *called*
    def sync_sites(self, fn):
        w = self.walk[fn.key]
        if fn.kind == 'nopc':
            return [s for s in w.sites if not s.after]
        if fn.kind == 'pc':
            return []   # the call itself is a fork; handled separately
        return list(w.sites)   # sync functions; plain async functions run where they are awaited

    def op_consumer(self, dunder):
        """An operator on a secure operand consumes the pc iff every secure operand class that
        defines the dunder routes it to a consumer (definite for SecureNumber and SecureArray)."""
        name = f'__{dunder}__'
        defs = []
        for ck in SECURE_OPERAND_CLASSES:
            m = self.rs.method(ck, name)
            if m is not None:
                defs.append(m)
        if not defs:
            return None
        if all(m.key in self.consumers for m in defs):
            return defs[0].key
        return None

    def consuming(self, s):
        """Reason string if site s consumes the program counter, else None."""
        if s.kind == 'pcref':
            return 'direct use of _program_counter'
        if s.kind in ('call', 'ref', 'method'):
            for t in s.targets:
                if t in self.consumers:
                    f = self.model.funcs[t]
                    how = 'forks a program counter (mpc_coro)' if f.kind == 'pc' else f'consumes the pc: {self.consumers[t]}'
                    return f'{t} {how}'
            return None
        if s.kind == 'op':
            k = self.op_consumer(s.dunder)
            if k:
                return f'operator __{s.dunder}__ on a secure operand -> {k} -> {self.consumers[k]}'
        return None

    def advancing(self, s):
        """Does the site *advance* the counter (fork / _prss_uci), as opposed to reading it?"""
        if s.kind == 'pcref':
            return False
        r = self.consuming(s)
        if not r:
            return False
        if s.kind in ('call', 'ref', 'method'):
            return any(t in self.advancers for t in s.targets)
        return True

    def _closure(self):
        changed = True
        for k, fn in self.model.funcs.items():
            if fn.kind == 'pc':
                self.consumers[k] = 'is an MPyC coroutine with its own program counter (fork on call)'
        while changed:
            changed = False
            for k, fn in self.model.funcs.items():
                if k in self.consumers:
                    continue
                for s in self.sync_sites(fn):
                    r = self.consuming(s)
                    if r:
                        self.consumers[k] = f'{s.text[:60]} [{r[:120]}]'
                        changed = True
                        break
        # advancers: functions whose call advances the counter (fork or increment)
        self.advancers = set(k for k, fn in self.model.funcs.items() if fn.kind == 'pc')
        changed = True
        while changed:
            changed = False
            for k, fn in self.model.funcs.items():
                if k in self.advancers or k not in self.consumers:
                    continue
                for s in self.sync_sites(fn):
                    adv = False
                    if s.kind == 'pcref':
                        adv = self._pc_write(fn, s)
                    elif s.kind in ('call', 'ref', 'method'):
                        adv = any(t in self.advancers for t in s.targets)
                    elif s.kind == 'op':
                        kk = self.op_consumer(s.dunder)
                        adv = kk in self.advancers if kk else False
                    if adv:
                        self.advancers.add(k)
                        changed = True
                        break

    def _pc_write(self, fn, s):
        """Is this _program_counter reference the target of a store / augmented store?"""
        for n in iter_nodes(fn.node):
            if isinstance(n, ast.AugAssign):
                if any(x is s.node for x in ast.walk(n.target)):
                    return True
            if isinstance(n, ast.Assign):
                for t in n.targets:
                    if any(x is s.node for x in ast.walk(t)):
                        return True
        return False
