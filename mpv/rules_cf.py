"""CF rules (configuration guards: C39, C26, lifting clause of C04), PF1 (PRF purity/range: C17),
G1 (secure-group conventions: C28)."""
import ast

from .core import AnalysisError, iter_nodes, norm, cnorm, cnorm_text
from . import astq
from .astq import parents, ancestors, calls_named, definitions, enclosing_ifs, enclosing_loops, const_int, attr_tail, resolve_value
from .linform import Lin, to_lin


def _halved(e):
    """X // 2 or X / 2 -> (X, floor?) else None"""
    if isinstance(e, ast.BinOp) and isinstance(e.op, (ast.FloorDiv, ast.Div)) and const_int(e.right) == 2:
        return e.left, isinstance(e.op, ast.FloorDiv)
    return None


def _implies_2t_lt_m(test, tname, mname, aliases=()):
    """Does the comparison imply 2*t < m (t, m integers >= 0)?  `aliases` are local names holding the threshold."""
    if not (isinstance(test, ast.Compare) and len(test.ops) == 1):
        return False
    l, r, op = test.left, test.comparators[0], test.ops[0]
    if isinstance(op, (ast.Gt, ast.GtE)):
        l, r = r, l
        op = ast.Lt() if isinstance(op, ast.Gt) else ast.LtE()
    if not isinstance(op, (ast.Lt, ast.LtE)):
        return False
    env = {}
    T, Msym = Lin.sym('T'), Lin.sym('M')

    def lin(e):
        class Tr(ast.NodeTransformer):
            def visit_Attribute(self, n):
                if norm(n).endswith(tname):
                    return ast.Name(id='T', ctx=ast.Load())
                return n

            def visit_Name(self, n):
                if n.id == mname:
                    return ast.Name(id='M', ctx=ast.Load())
                if n.id == tname or n.id in aliases:
                    return ast.Name(id='T', ctx=ast.Load())
                return n
        import copy
        return to_lin(Tr().visit(copy.deepcopy(e)), opaque=False)
    h = _halved(r)
    if h is not None:
        inner = lin(h[0])
        ll = lin(l)
        if inner is None or ll is None:
            return False
        # l <op> inner/2 : for floor: l <= floor(inner/2) <=> 2l <= inner ; l < floor(inner/2) => 2l <= inner - 2
        # for true division: l < inner/2 <=> 2l < inner ; l <= inner/2 <=> 2l <= inner
        if h[1]:
            gap = inner - ll * 2 - (2 if isinstance(op, ast.Lt) else 0)     # >= 0
        else:
            gap = inner - ll * 2 - (1 if isinstance(op, ast.Lt) else 0)
        # need: gap >= 0  ==>  M - 2T >= 1, i.e. (M - 2T - 1) - gap is a non-negative constant ... gap <= M - 2T - 1
        d = (Msym - T * 2 - 1) - gap
        return d.is_const() and d.c >= 0
    ll, rr = lin(l), lin(r)
    if ll is None or rr is None:
        return False
    gap = rr - ll - (1 if isinstance(op, ast.Lt) else 0)       # gap >= 0
    d = (Msym - T * 2 - 1) - gap
    if d.is_const() and d.c >= 0:
        return True
    # scaled forms, e.g. 4*t < 2*m
    for s in (2, 3, 4):
        d = (Msym - T * 2 - 1) * s - gap
        if d.is_const() and d.c >= -(s - 1):
            return True
    return False


# ---------------------------------------------------------------------------------- CF1
def rule_CF1(ctx, rep):
    """the runtime is only constructed for thresholds with 2t < m."""
    fn = ctx.model.func('runtime::setup')
    pm = parents(fn.node)
    ctor = [c for c in calls_named(fn.node, 'Runtime')]
    if len(ctor) != 1:
        raise AnalysisError('CF1: Runtime(...) construction not found in setup()')
    # local names that hold options.threshold (`t = options.threshold`), written back before the runtime is constructed
    aliases = set()
    for s in iter_nodes(fn.node):
        if isinstance(s, ast.Assign) and len(s.targets) == 1 and isinstance(s.targets[0], ast.Name) and norm(s.value) == 'options.threshold':
            aliases.add(s.targets[0].id)
    stores = [s for s in iter_nodes(fn.node) if isinstance(s, ast.Assign) and norm(s.targets[0]) == 'options.threshold']
    for a in sorted(aliases):
        redefs = [st for st, v, how in definitions(fn.node, a) if not (v is not None and norm(v) == 'options.threshold')]
        for st in redefs:
            # a re-definition of the alias (the default) must be written back to options.threshold afterwards
            if not any(norm(w.value) == a and astq.position(w) > astq.position(st) for w in stores):
                aliases.discard(a)
    checks = []
    for s in fn.node.body:
        if astq.position(s) > astq.position(ctor[0]):
            break
        if isinstance(s, ast.Assert):
            checks.append((s, s.test))
        if isinstance(s, ast.If) and any(isinstance(x, ast.Raise) for x in s.body):
            checks.append((s, ast.UnaryOp(op=ast.Not(), operand=s.test)))
    good = [s for s, t in checks if not isinstance(t, ast.UnaryOp) and _implies_2t_lt_m(t, 'threshold', 'm', aliases)]
    # nothing may change the threshold between the check and the construction
    late = [w for w in stores if good and astq.position(w) > astq.position(good[0])]
    if good and not late:
        rep.ok('CF1', fn, good[0], 'setup refuses every threshold with 2t >= m before the runtime exists')
    elif good:
        rep.bad('CF1', fn, late[0], 'options.threshold is assigned after the 2t < m check and before Runtime(...)')
    else:
        cand = [s for s, t in checks if 'threshold' in norm(s) or any(isinstance(x, ast.Name) and x.id in aliases for x in ast.walk(s))]
        rep.bad('CF1', fn, cand[0] if cand else ctor[0], 'no check before Runtime(...) implies 2*threshold < m: a threshold with 2t >= m is accepted '
                '(multiplication needs 2t+1 <= m parties)')
    # m is the number of parties actually configured; the default threshold
    dflt = [(s, s.value) for s in stores if not (isinstance(s.value, ast.Name) and s.value.id in aliases)]
    for a in sorted(aliases):
        dflt += [(st, v) for st, v, how in definitions(fn.node, a) if v is not None and norm(v) != 'options.threshold']
    for st, v in dflt[:1]:
        if norm(v) in ('(m - 1) // 2',):
            rep.ok('CF1', fn, st, 'default threshold is the largest t with 2t < m')
        else:
            h = _halved(v)
            lin = to_lin(h[0], opaque=False) if h else None
            if h and h[1] and lin is not None and (Lin.sym('m') - 1 - lin).nonneg():
                rep.ok('CF1', fn, st, 'default threshold satisfies 2t < m')
            else:
                rep.bad('CF1', fn, st, f'default threshold {norm(v)} need not satisfy 2t < m')


# ---------------------------------------------------------------------------------- CF2
def rule_CF2(ctx, rep):
    """every secure type's field has more elements than there are parties whenever t > 0; too small fields are
    lifted to an extension with q**e > m, and outputs are converted back to the base field."""
    model = ctx.model
    pf = model.func('sectypes::_pfield')
    asserts = [s for s in iter_nodes(pf.node) if isinstance(s, ast.Assert)]
    good = False
    for a in asserts:
        t = a.test
        if isinstance(t, ast.BoolOp) and isinstance(t.op, ast.Or):
            parts = [norm(v) for v in t.values]
            if any(p in ('runtime.threshold == 0',) for p in parts) and any(p in ('len(runtime.parties) < field.order', 'field.order > len(runtime.parties)') for p in parts):
                good = True
    if good:
        rep.ok('CF2', pf, asserts[0], 'prime fields of secure ints / fixed-point numbers are checked against the number of parties')
    else:
        rep.bad('CF2', pf, pf.qualname, 'no check `threshold == 0 or len(parties) < field.order` for the field of secure integers / fixed-point numbers', pf.node)
    sf = model.func('sectypes::_SecFld')
    pm = parents(sf.node)
    from . import cond, routes, sem
    import itertools
    # the two ways the field of the type is chosen: the requested field itself / GF(<irreducible>) (lifted)
    fa = [s_ for s_ in iter_nodes(sf.node) if isinstance(s_, ast.Assign) and norm(s_.targets[0]).endswith('.field')]
    direct = [s_ for s_ in fa if norm(s_.value) == sf.params[0]]
    lifted = [s_ for s_ in fa if isinstance(s_.value, ast.Call) and attr_tail(s_.value.func) == 'GF']
    if len(direct) != 1 or len(lifted) != 1:
        raise AnalysisError('CF2: lifting decision not found in _SecFld (one direct and one lifted assignment of the field expected)')
    dec = direct[0]
    cxd = cond.context(sf, direct[0], pm)
    cxl = cond.context(sf, lifted[0], pm)

    def classify(a):
        """'T0': the atom says t == 0; 'Q+': it implies q > m; 'Q-': its negation implies q > m (it says q <= m)"""
        try:
            e = ast.parse(a, mode='eval').body
        except SyntaxError:
            return None
        if not (isinstance(e, ast.Compare) and len(e.ops) == 1):
            return None
        l, r, op = e.left, e.comparators[0], e.ops[0]
        sub = {'field.order': 'Q'}
        def lin(x):
            t_ = norm(x)
            for k_, v_ in sub.items():
                t_ = t_.replace(k_, v_)
            try:
                return to_lin(ast.parse(t_, mode='eval').body, {}, opaque=False)
            except SyntaxError:
                return None
        ll, rr = lin(l), lin(r)
        if ll is None or rr is None:
            return None
        if isinstance(op, ast.Eq) and (ll - rr) in (Lin.sym('T'), Lin.sym('T') * -1):
            return 'T0'
        if isinstance(op, (ast.Gt, ast.GtE)):
            ll, rr = rr, ll
            op = ast.Lt() if isinstance(op, ast.Gt) else ast.LtE()
        if isinstance(op, (ast.Lt, ast.LtE)):
            gap = rr - ll - (1 if isinstance(op, ast.Lt) else 0)          # atom <=> gap >= 0
            d = (Lin.sym('Q') - Lin.sym('M') - 1) - gap                    # gap >= 0 implies q - m - 1 >= 0 if d is a constant >= 0
            if d.is_const() and d.c >= 0:
                return 'Q+'
            # negation: not(atom) <=> -gap - 1 >= 0
            d2 = (Lin.sym('Q') - Lin.sym('M') - 1) - (gap * -1 - 1)
            if d2.is_const() and d2.c >= 0:
                return 'Q-'
        return None
    ats = sorted(cond.atoms_of(cxd))
    kinds = {a: classify(a) for a in ats}
    nolift_ok = bool(ats) and any(k in ('Q+', 'Q-') for k in kinds.values())
    if nolift_ok:
        for bits in itertools.product([True, False], repeat=len(ats)):
            v = dict(zip(ats, bits))
            if cond.evalf(cxd, v) and not any((kinds[a] == 'T0' and v[a]) or (kinds[a] == 'Q+' and v[a]) or (kinds[a] == 'Q-' and not v[a]) for a in ats):
                nolift_ok = False
    if nolift_ok and cond.equivalent(cxl, cond.neg(cxd)):
        rep.ok('CF2', sf, dec, 'the field is used directly only if t == 0 or it has more than m elements; otherwise it is lifted')
    else:
        rep.bad('CF2', sf, dec, 'the condition for using the field without lifting is not `t == 0 or m < q`: a field with at most m elements is used for Shamir sharing '
                '(two parties get the same evaluation point)')
    mq = {'m': None, 'q': None}
    lift = [s_ for s_ in iter_nodes(sf.node) if isinstance(s_, ast.stmt) and not isinstance(s_, (ast.If, ast.FunctionDef)) and cond.equivalent(cond.context(sf, s_, pm), cxl)]
    es = [s_ for s_ in lift if isinstance(s_, ast.Assign) and isinstance(s_.value, ast.Call) and any(attr_tail(c.func) == 'log' for c in ast.walk(s_.value) if isinstance(c, ast.Call))]
    goode = False
    if es:
        e = es[0]
        v = e.value
        logs = [c for c in ast.walk(v) if isinstance(c, ast.Call) and attr_tail(c.func) == 'log']
        ceil = isinstance(v, ast.Call) and attr_tail(v.func) == 'ceil' and v.args and v.args[0] is logs[0]
        base = norm(routes.xp(sf, logs[0].args[1], e, pm)) if len(logs[0].args) == 2 else None
        if ceil and base == f'{sf.params[0]}.order':
            arg = to_lin(sem.symx(routes.xp(sf, logs[0].args[0], e, pm)), {}, opaque=False)
            if arg is not None and (arg - Lin.sym('M') - 1).nonneg():
                goode = True
        if goode:
            rep.ok('CF2', sf, e, 'extension degree e = ceil(log_q(m+1)) gives q**e >= m+1 > m')
        else:
            rep.bad('CF2', sf, e, f'extension degree {norm(v)} does not guarantee q**e > m: for m a power of q the lifted field has only m elements '
                    '(parties m-1 and m share an evaluation point, recombination divides by zero)')
        ev = norm(e.targets[0])
        irr = [s_ for s_ in lift if isinstance(s_, ast.Assign) and isinstance(s_.value, ast.Call) and attr_tail(s_.value.func) == 'find_irreducible']
        gf = lifted
        if irr and norm(irr[0].value.args[1]) == ev and 'characteristic' in norm(irr[0].value.args[0]) and norm(gf[0].value.args[0]) == norm(irr[0].targets[0]):
            rep.ok('CF2', sf, gf[0], 'lifted field = GF(irreducible polynomial of degree e over the same characteristic)')
        else:
            rep.bad('CF2', sf, sf.qualname, 'the lifted field is not GF(find_irreducible(characteristic, e))', sf.node)
    else:
        rep.bad('CF2', sf, dec, 'lifting branch does not compute an extension degree from log(m+1, q)')
    sub = [s_ for s_ in lift if isinstance(s_, ast.Assign) and norm(s_.targets[0]).endswith('.subfield') and norm(s_.value) == sf.params[0]]
    conv = [s_ for s_ in lift if isinstance(s_, ast.Assign) and norm(s_.targets[0]).endswith('._output_conversion')]
    if sub and conv:
        rep.ok('CF2', sf, conv[0], 'lifted types remember the requested field and convert outputs back to it')
    else:
        rep.bad('CF2', sf, dec, 'a lifted type does not record its base field / does not convert outputs back (outputs land in the extension field)')
    arrc = [s for s in iter_nodes(sf.node) if isinstance(s, ast.Assign) and norm(s.targets[0]) == 'secarray._output_conversion']
    if arrc and any('subfield' in norm(i.test) and br == 'body' for i, br in enclosing_ifs(arrc[0], pm, stop=sf.node)):
        rep.ok('CF2', sf, arrc[0], 'array type of a lifted field converts outputs back as well')
    else:
        rep.bad('CF2', sf, sf.qualname, 'array type of a lifted field lacks the output conversion', sf.node)
    # SecFld argument resolution: order = char**ext_deg with every branch assigning both
    fs = model.func('sectypes::SecFld')
    orders = [s for s in fs.node.body if isinstance(s, ast.Assign) and norm(s.targets[0]) == 'order']
    chk = [s for s in fs.node.body if isinstance(s, ast.Assert) and norm(s.test) in ('min_order <= order', 'order >= min_order')]
    if orders and norm(orders[-1].value) in ('order or char ** ext_deg',) and chk and astq.position(chk[0]) > astq.position(orders[-1]):
        rep.ok('CF2', fs, chk[0], 'the field order is the requested one (or char**ext_deg) and is checked against min_order')
    else:
        rep.bad('CF2', fs, fs.qualname, 'SecFld does not (compute order = char**ext_deg and) assert min_order <= order', fs.node)
    pp = [s for s in iter_nodes(fs.node) if isinstance(s, ast.Assert)]
    want = {'char == p', 'ext_deg == d', 'char == modulus.p', 'char == modulus', 'ext_deg == 1', 'modulus is None', 'min_order <= order'}
    have = {norm(a.test) for a in pp}
    if want <= have:
        rep.ok('CF2', fs, pp[0], 'inconsistent combinations of order / char / ext_deg / modulus are rejected')
    else:
        rep.bad('CF2', fs, fs.qualname, f'consistency checks missing in SecFld: {sorted(want - have)}', fs.node)


# ---------------------------------------------------------------------------------- CF3
def rule_CF3(ctx, rep):
    """prime size: the bit length requested from find_prime_root and the rejection bound for user primes agree
    and leave room for l+f+k+1 bits."""
    pf = ctx.model.func('sectypes::_pfield')
    calls = calls_named(pf.node, 'find_prime_root')
    if len(calls) != 1:
        raise AnalysisError('CF3: find_prime_root call not found in _pfield')
    kn = [norm(s.targets[0]) for s in pf.node.body if isinstance(s, ast.Assign) and norm(s.value).endswith('options.sec_param')]
    if not kn:
        raise AnalysisError('CF3: sec_param not read in _pfield')
    k = kn[0]
    l, f = pf.params[0], pf.params[1]
    R = to_lin(calls[0].args[0], opaque=False)
    need = Lin.sym(l) + Lin.sym(f) + Lin.sym(k) + 2
    if R is not None and (R - need).nonneg() and (R - need).is_const():
        rep.ok('CF3', pf, calls[0], f'generated primes have at least {l}+{f}+{k}+2 bits (p > 2^({l}+{f}+{k}+1))')
    else:
        rep.bad('CF3', pf, calls[0], f'the bit length requested for generated primes is {norm(calls[0].args[0])}, less than {l}+{f}+{k}+2: masked values can wrap around the modulus')
    rej = [i for i in iter_nodes(pf.node) if isinstance(i, ast.If) and any(isinstance(x, ast.Raise) for x in i.body) and 'bit_length' in norm(i.test)]
    good = False
    if rej and isinstance(rej[0].test, ast.Compare) and len(rej[0].test.ops) == 1:
        t = rej[0].test
        B = to_lin(t.comparators[0], opaque=False)
        if B is not None and norm(t.left) == f'{pf.params[2]}.bit_length()':
            # rejected iff bitlen <= B (resp. < B): accepted primes have bitlen >= B+1 (resp. >= B)
            acc = B + 1 if isinstance(t.ops[0], ast.LtE) else (B if isinstance(t.ops[0], ast.Lt) else None)
            if acc is not None and (acc - need).nonneg():
                good = True
    if good:
        rep.ok('CF3', pf, rej[0].test, 'user-supplied primes are accepted only with at least l+f+k+2 bits, like generated ones')
    else:
        rep.bad('CF3', pf, rej[0].test if rej else pf.qualname, 'a user-supplied prime with fewer than l+f+k+2 bits is accepted: the field is not larger than 2^(l+f+k+1) and '
                'statistically masked values wrap around', pf.node)
    # n is forwarded
    kw = {x.arg: norm(x.value) for x in calls[0].keywords}
    if kw.get('n') == pf.params[3]:
        rep.ok('CF3', pf, calls[0], 'requested root order is forwarded')
    else:
        rep.bad('CF3', pf, calls[0], 'the requested root order n is not forwarded to find_prime_root')


# ---------------------------------------------------------------------------------- CF4
def rule_CF4(ctx, rep):
    """Blum primes: every search step in find_prime_root preserves p = 3 mod 4 (when requested)."""
    fn = ctx.model.func('finfields::find_prime_root')
    pm = parents(fn.node)
    loops = [w for w in iter_nodes(fn.node) if isinstance(w, ast.While)]
    n = 0
    for w in loops:
        wtest, wbody = astq.loop_normal_form(w)          # `while C:` and `while True: if not C: break` alike
        t = norm(wtest)
        if 'is_prime' in t:
            n += 1
            steps = [s for s in wbody if isinstance(s, ast.AugAssign) and isinstance(s.op, ast.Add)]
            lin = to_lin(steps[0].value, opaque=False) if steps else None
            nsym = fn.params[2]
            if lin is not None and lin.c % 4 == 0 and all(c % 4 == 0 for c in lin.t.values()) and lin.coef(nsym) != 0 and lin.coef(nsym) % 2 == 0:
                rep.ok('CF4', fn, steps[0], 'the search step is a multiple of 4 (keeps p = 3 mod 4) and of 2n (keeps n | p-1)')
            else:
                rep.bad('CF4', fn, steps[0] if steps else w.test, 'the prime search advances by a step that is not a multiple of 4 and 2n: the result need not be a Blum prime '
                        '(p = 1 mod 4 although blum=True), or n no longer divides p-1')
            # start value: 1 + 2n*(odd)
            inits = [s for s in iter_nodes(fn.node) if isinstance(s, ast.Assign) and norm(s.targets[0]) == norm(steps[0].target) and astq.position(s) < astq.position(w)
                     and any(i is x for x in [i2 for i2, _ in enclosing_ifs(w, pm, stop=fn.node)] for i, _ in enclosing_ifs(s, pm, stop=fn.node))] if steps else []
            if inits and norm(inits[-1].value).replace(' ', '').startswith('1+2*n*(3+2*('):
                rep.ok('CF4', fn, inits[-1], 'search starts at 1 + 2n*(odd number) = 3 mod 4 for odd n')
            elif inits:
                rep.skip('CF4', fn, inits[-1], 'start value of the search not in the recognised form')
        elif '% 4' in t or '%4' in t:
            n += 1
            if t.replace(' ', '') in ('p%4!=3', '3!=p%4'):
                rep.ok('CF4', fn, w.test, 'for n <= 2 the search continues until p = 3 mod 4')
            else:
                rep.bad('CF4', fn, w.test, 'the Blum condition tested in the search is not p % 4 != 3')
    if n < 2:
        raise AnalysisError('CF4: prime search loops not found in find_prime_root')
    asr = [s for s in iter_nodes(fn.node) if isinstance(s, ast.Assert) and norm(s.test) == 'blum']
    if asr:
        rep.ok('CF4', fn, asr[0], 'the n > 2 branch only serves Blum requests')


# ---------------------------------------------------------------------------------- PF1
def rule_PF1(ctx, rep):
    """the PRF is a pure function of (key, bound, input, count) and reduces every output modulo the bound."""
    model = ctx.model
    call = model.func('thresha::PRF.__call__')
    init = model.func('thresha::PRF.__init__')
    # purity: no writes to self / globals, no entropy, time, environment
    bad = []
    for n in iter_nodes(call.node):
        tg = n.targets if isinstance(n, ast.Assign) else ([n.target] if isinstance(n, (ast.AugAssign, ast.AnnAssign)) else [])
        for t in tg:
            for x in ast.walk(t):
                if isinstance(x, ast.Attribute) and isinstance(x.value, ast.Name) and x.value.id == 'self':
                    bad.append((n, f'writes self.{x.attr}: the result of a call depends on earlier calls'))
        if isinstance(n, (ast.Global, ast.Nonlocal)):
            bad.append((n, 'uses global state'))
        if isinstance(n, ast.Call):
            txt = norm(n.func)
            if txt.split('.')[0] in ('secrets', 'random', 'time', 'os', 'uuid') or txt in ('id', 'hash') or 'urandom' in txt:
                bad.append((n, f'calls {txt}: not a deterministic function of key and input'))
        if isinstance(n, ast.Attribute) and isinstance(n.value, ast.Name) and n.value.id == 'self' and n.attr not in ('key', 'max', 'byte_length'):
            if isinstance(n.ctx, ast.Load):
                bad.append((n, f'reads self.{n.attr}, which is not part of the (key, bound) definition of the PRF'))
    for n, why in bad:
        rep.bad('PF1', call, n, why)
    if not bad:
        rep.ok('PF1', call, 'PRF.__call__ purity', 'reads only key/bound/byte_length and its arguments; writes no state; no entropy or time source', call.node)
    # expansion: shake over key + input with n_*l bytes
    dig = [c for c in iter_nodes(call.node) if isinstance(c, ast.Call) and attr_tail(c.func) == 'digest']
    if len(dig) == 1 and isinstance(dig[0].func.value, ast.Call) and norm(dig[0].func.value.args[0]) in ('self.key + s', f'self.key + {call.params[1]}'):
        rep.ok('PF1', call, dig[0], 'output bytes = XOF(key || input)')
    else:
        rep.bad('PF1', call, dig[0] if dig else call.qualname, 'the expansion is not a hash/XOF of exactly key || input', call.node)
    # every produced element is reduced modulo the bound (or is the constant 0 for bound 1)
    from . import sem, routes
    pm = parents(call.node)
    gens = [g for g in iter_nodes(call.node) if isinstance(g, (ast.GeneratorExp, ast.ListComp))]
    if len(gens) < 2:
        raise AnalysisError('PF1: the generators producing the values were not found in PRF.__call__')

    def is_bound(e):
        return norm(routes.xp(call, e, e, pm)) == 'self.max'

    def is_blocklen(e):
        e2 = routes.xp(call, e, e, pm)
        if isinstance(e2, ast.NamedExpr):
            e2 = e2.value
        return norm(e2) == 'self.byte_length'
    nprod = 0
    for g in gens:
        e = g.elt
        if isinstance(e, ast.Constant) and e.value == 0:
            nprod += 1
            cx = sem._ctx_of(call, g, pm)
            if ('self.byte_length', False) in cx or ('0 == self.byte_length', True) in cx or ('self.byte_length == 0', True) in cx:
                rep.ok('PF1', call, g, 'bound 1: the only value in range(1) is 0')
            else:
                rep.bad('PF1', call, g, 'constant 0 outputs outside the byte_length == 0 (bound 1) case')
            continue
        fb = [c for c in ast.walk(e) if isinstance(c, ast.Call) and 'from_bytes' in norm(c.func)]
        if not fb:
            if isinstance(e, ast.BinOp) and isinstance(e.op, ast.Mod) and is_bound(e.right):
                nprod += 1
                rep.bad('PF1', call, g, f'values `{norm(e)[:80]}` are reduced modulo the bound but are not separate blocks of the digest: a value depends on '
                        'more than its own byte_length bytes (on how many values were requested)')
            continue
        nprod += 1
        if isinstance(e, ast.BinOp) and isinstance(e.op, ast.Mod) and is_bound(e.right) and any(c is x for c in fb for x in ast.walk(e.left)):
            rng = g.generators[0].iter
            sl = [x for x in ast.walk(e.left) if isinstance(x, ast.Subscript) and isinstance(x.slice, ast.Slice)]
            okb = False
            if isinstance(rng, ast.Call) and attr_tail(rng.func) == 'range' and len(rng.args) == 3 and sl and dig:
                # one block of l bytes per value; n_ * l bytes digested
                step_ok = is_blocklen(rng.args[2])
                stop = cnorm(sem.symx(routes.xp(call, rng.args[1], g, pm)))
                dlen = cnorm(sem.symx(routes.xp(call, dig[0].args[0], dig[0], pm))) if dig[0].args else None
                iv = norm(g.generators[0].target)
                lo, hi = sl[0].slice.lower, sl[0].slice.upper
                width_ok = lo is not None and hi is not None and norm(lo) == iv and isinstance(hi, ast.BinOp) and isinstance(hi.op, ast.Add) and \
                    ((norm(hi.left) == iv and is_blocklen(hi.right)) or (norm(hi.right) == iv and is_blocklen(hi.left)))
                okb = step_ok and width_ok and stop == dlen and const_int(rng.args[0]) == 0
            if okb:
                rep.ok('PF1', call, g, 'every value is a block of the digest reduced modulo the bound; one block per requested value')
            else:
                rep.bad('PF1', call, g, 'the digest is not cut into consecutive blocks of byte_length bytes, one per requested value')
        else:
            rep.bad('PF1', call, g, f'values produced by `{norm(e)[:80]}` are not reduced modulo the bound: outputs can fall outside range(bound)')
    if nprod < 2:
        raise AnalysisError('PF1: alternatives for the produced values not found in PRF.__call__')
    # count: 1 if n is None else n ; shape -> prod(shape)  (decided on the cases of the count expression and their conditions)
    from . import cond
    npar = call.params[2]
    none_atom = cond.formula(call, ast.parse(f'{npar} is None', mode='eval').body, call.node.body[-1], pm)
    none_txt = cond.fmt(none_atom)

    def none_state(f):
        """True: n is None on this path, False: it is not, None: the path condition does not say"""
        if not cond.satisfiable(cond.conj([f, cond.neg(none_atom)])):
            return True
        if not cond.satisfiable(cond.conj([f, none_atom])):
            return False
        return None
    cnts = [c for c in ast.walk(call.node) if isinstance(c, ast.Call) and attr_tail(c.func) == 'range' and len(c.args) == 1]
    good = False
    for c in cnts:
        cases = cond.expr_cases(call, c.args[0], c, pm, keep=(npar,))
        vals, okc = set(), True
        for f, v in cases:
            st_ = none_state(cond.project(f, lambda a: a == none_txt))
            if st_ is not True and isinstance(v, ast.Call) and attr_tail(v.func) == 'prod' and len(v.args) == 1 \
                    and any(isinstance(x_, ast.Name) and x_.id == npar for x_ in ast.walk(sem.expand(call, v.args[0], c, pm))):
                continue                      # a shape: the number of entries of the array
            vals.add((st_, norm(v)))
        if vals == {(True, '1'), (False, npar)}:
            good = True
    # the number of entries of a shape is the exact integer product math.prod (1 for the 0-dimensional shape (), as an int):
    # numpy's prod gives the float 1.0 there, which range() rejects
    tree_ = model.trees['thresha']
    from_math = any(isinstance(n_, ast.ImportFrom) and n_.module == 'math' and any(a_.name == 'prod' and a_.asname in (None, 'prod') for a_ in n_.names) for n_ in ast.walk(tree_))

    def int_prod(v_):
        return isinstance(v_, ast.Call) and (norm(v_.func) == 'math.prod' or (norm(v_.func) == 'prod' and from_math))
    prods = [v_ for _st, v_, _how in definitions(call.node, npar) if v_ is not None and isinstance(v_, ast.Call) and attr_tail(v_.func) == 'prod']
    prods += [x_ for x_ in ast.walk(call.node) if isinstance(x_, ast.Call) and attr_tail(x_.func) == 'prod' and not any(x_ is y_ for y_ in prods)]
    shp = bool(prods) and all(int_prod(v_) for v_ in prods)
    if good and shp:
        rep.ok('PF1', call, cnts[0], 'exactly n values (1 for n=None, prod(shape) for a shape)')
    else:
        rep.bad('PF1', call, call.qualname, 'the number of produced values is not "1 if n is None else n" / prod(shape)', call.node)
    # a single value exactly when n is None (then the first element of what is returned otherwise); returns whose condition does not
    # depend on `n is None` are the array case (n was replaced by prod(shape) there)
    rets = [r for r in iter_nodes(call.node) if isinstance(r, ast.Return) and r.value is not None]
    scal, seq = [], []
    for r in rets:
        for g, v in cond.expr_cases(call, r.value, r, pm, keep=tuple(x.id for x in ast.walk(r.value) if isinstance(x, ast.Name))):
            f = cond.project(cond.conj([cond.context(call, r, pm), g]), lambda a: a == none_txt)
            if not cond.satisfiable(f):
                continue
            st_ = none_state(f)
            if st_ is True:
                scal.append(norm(v))
            elif st_ is False:
                seq.append(norm(v))
    if scal and seq and all(any(sv == f'{qv}[0]' for qv in seq) for sv in scal) and not any(qv.endswith('[0]') for qv in seq):
        rep.ok('PF1', call, rets[-1], 'scalar for n=None, sequence/array otherwise')
    else:
        rep.bad('PF1', call, rets[-1] if rets else call.qualname, f'return value is not `x[0] if {npar} is None else x`', call.node)
    # __init__: the block length stored in self.byte_length, as cases with conditions (attribute or local accumulation alike):
    # ((bound-1).bit_length() + 7) // 8 for powers of two, that plus len(key) otherwise (exact integer test bound & (bound - 1))
    pmi = parents(init.node)
    b = init.params[2]
    kpar = init.params[1]
    base_txt = f'(({b} - 1).bit_length() + 7) // 8'
    final = None
    for s_ in sorted([x for x in iter_nodes(init.node) if isinstance(x, (ast.Assign, ast.AugAssign))
                      and norm(x.targets[0] if isinstance(x, ast.Assign) else x.target) == 'self.byte_length'], key=astq.position):
        cx = cond.context(init, s_, pmi)
        vals = [(cond.conj([cx, f]), v) for f, v in cond.expr_cases(init, s_.value, s_, pmi, keep=(b, kpar))]
        if isinstance(s_, ast.Assign):
            prev = [(cond.conj([f0, cond.neg(cx)]), v0) for f0, v0 in (final or []) if cond.satisfiable(cond.conj([f0, cond.neg(cx)]))]
            final = prev + vals
        elif isinstance(s_.op, ast.Add) and final is not None:
            nxt = []
            for f0, v0 in final:
                for f1, v1 in vals:
                    if cond.satisfiable(cond.conj([f0, f1])):
                        nxt.append((cond.conj([f0, f1]), ast.BinOp(left=v0, op=ast.Add(), right=v1)))
                if cond.satisfiable(cond.conj([f0, cond.neg(cx)])):
                    nxt.append((cond.conj([f0, cond.neg(cx)]), v0))
            final = nxt
        else:
            final = None
            break
    want = cond.formula(init, ast.parse(f'{b} & {b} - 1', mode='eval').body, init.node.body[-1], pmi)

    def shape_of(v):
        """'base' | 'base+key' | None for a block-length expression"""
        t = norm(v).replace(f'len(self.key)', 'len(KEY)').replace(f'len({kpar})', 'len(KEY)')
        if t == base_txt:
            return 'base'
        if t in (f'{base_txt} + len(KEY)', f'len(KEY) + {base_txt}'):
            return 'base+key'
        return None
    site = [x for x in iter_nodes(init.node) if isinstance(x, (ast.Assign, ast.AugAssign)) and 'byte_length' in norm(x.targets[0] if isinstance(x, ast.Assign) else x.target)]
    if final and all(shape_of(v) is not None for _f, v in final):
        rep.ok('PF1', init, site[0], 'digest block covers the bit length of bound-1')
    else:
        rep.bad('PF1', init, site[0] if site else init.qualname, 'block length does not cover (bound-1).bit_length() bits', init.node)
    exact = bool(final) and all((shape_of(v) == 'base+key' and not cond.satisfiable(cond.conj([f, cond.neg(want)])))
                                or (shape_of(v) == 'base' and not cond.satisfiable(cond.conj([f, want]))) for f, v in final) \
        and any(shape_of(v) == 'base+key' for _f, v in final)
    if exact:
        rep.ok('PF1', init, site[-1], 'extra bytes (statistical closeness) exactly for bounds that are not powers of two (exact integer test)')
    else:
        rep.bad('PF1', init, site[-1] if site else init.qualname, 'the power-of-two test for the bound is not the exact `bound & (bound - 1)`', init.node)


# ---------------------------------------------------------------------------------- G1
def rule_G1(ctx, rep):
    """secure-group conventions: every party contributes its locally exponentiated share (all-party input /
    all-to-all transfer) before the group operation is reduced; exponents of lifted fields are reduced."""
    model = ctx.model
    fs = model.func('secgroups::repeat_public_base_secret_output')
    fp = model.func('secgroups::repeat_public_base_public_output')
    for fn, how in ((fs, 'input'), (fp, 'transfer')):
        calls = [c for c in iter_nodes(fn.node) if isinstance(c, ast.Call) and attr_tail(c.func) == how and isinstance(c.func, ast.Attribute) and norm(c.func.value) == 'runtime']
        if len(calls) != 1:
            rep.bad('G1', fn, fn.qualname, f'expected exactly one runtime.{how}(..) collecting the parties\' contributions', fn.node)
            continue
        c = calls[0]
        if len(c.args) == 1 and not c.keywords:
            rep.ok('G1', fn, c, f'all parties contribute (default senders/receivers of runtime.{how})')
        else:
            rep.bad('G1', fn, c, f'runtime.{how} is restricted to some parties: the product of the contributions misses Lagrange terms')
        red = [r for r in iter_nodes(fn.node) if isinstance(r, ast.Call) and attr_tail(r.func) == 'reduce']
        pm = parents(fn.node)
        last = [r for r in red if isinstance(pm.get(id(r)), ast.Return)]
        if last and 'operation' in norm(last[0].args[0]):
            rep.ok('G1', fn, last[0], 'contributions are combined with the group operation')
        else:
            rep.bad('G1', fn, fn.qualname, 'the contributions are not combined with the group operation', fn.node)
        # exponent: lambda_i * share, reduced modulo the characteristic for lifted fields
        mul = [b for b in iter_nodes(fn.node) if isinstance(b, ast.BinOp) and isinstance(b.op, ast.Mult) and 'lambda_i' in norm(b)]
        unwrapped = [b for b in mul if any(isinstance(o, ast.Call) and isinstance(o.func, ast.Name) and o.func.id == 'int' for o in (b.left, b.right))]
        if unwrapped:
            rep.bad('G1', fn, unwrapped[0], 'the Lagrange coefficient and the share are converted to integers before they are multiplied: the integer product of the '
                    'encodings is not the field product when the exponent field is an extension field (m >= q parties), so the contributions do not combine to a^x')
        elif mul:
            rep.ok('G1', fn, mul[0], 'local exponent = Lagrange coefficient times own share')
        else:
            rep.bad('G1', fn, fn.qualname, 'the local exponent is not (Lagrange coefficient) * (own share)', fn.node)
        from . import cond, routes
        reds = []
        # the exponent handed to group.repeat (directly or through map)
        exps = set()
        for r in iter_nodes(fn.node):
            if isinstance(r, ast.Call) and (attr_tail(r.func) == 'repeat' or (isinstance(r.func, ast.Name) and r.func.id == 'map' and r.args and attr_tail(r.args[0]) == 'repeat')):
                nm_ = {n_.id for a_ in r.args[1:] for n_ in ast.walk(a_) if isinstance(n_, ast.Name)}
                exps |= nm_
                # an exponent enumerated / zipped from a list: that list holds the exponents
                for b_ in routes._context(fn, r, pm)[0]:
                    for x_ in b_.names():
                        src_ = b_.src_of(x_)
                        if x_ in nm_ and src_ is not None:
                            exps |= {n_.id for n_ in ast.walk(src_) if isinstance(n_, ast.Name)}

        def root(t):
            while isinstance(t, ast.Subscript):
                t = t.value
            return t.id if isinstance(t, ast.Name) else None
        for x in iter_nodes(fn.node):
            mod = tgt = None
            if isinstance(x, ast.AugAssign) and isinstance(x.op, ast.Mod):
                mod, tgt, at = x.value, root(x.target), x
            elif isinstance(x, ast.BinOp) and isinstance(x.op, ast.Mod):
                st = astq.enclosing_stmt(x, pm)
                if isinstance(st, ast.Assign) and len(st.targets) == 1:
                    # the reduced value replaces the exponent: its operand is the exponent itself or an element enumerated from it
                    src = {n_.id for n_ in ast.walk(x.left) if isinstance(n_, ast.Name)}
                    for b in routes._context(fn, x, pm)[0]:
                        if set(b.names()) & src and b.src is not None:
                            src |= {n_.id for n_ in ast.walk(b.src) if isinstance(n_, ast.Name)}
                    if root(st.targets[0]) in src:
                        mod, tgt, at = x.right, root(st.targets[0]), x
            if mod is not None and tgt in exps and norm(routes.xp(fn, mod, astq.enclosing_stmt(at, pm), pm)).endswith('.characteristic'):
                cx = cond.context(fn, at, pm)
                # executed only for lifted fields: the context forces `<x>.subfield is not None`
                lifted = [a for a in cond.atoms_of(cx) if 'subfield' in a and 'None' in a]
                if lifted and not cond.satisfiable(cond.conj([cx, cond.atom(lifted[0])])):
                    reds.append(at)
        if reds:
            rep.ok('G1', fn, reds[0], 'exponents from a lifted field are reduced modulo the characteristic')
        else:
            rep.bad('G1', fn, fn.qualname, 'exponents coming from a lifted (extension) field are not reduced modulo the characteristic', fn.node)
        if fn.kind == 'pc':
            rep.ok('G1', fn, fn.qualname, 'runs under its own program counter (it forks input/transfer after an await)', fn.node)
        else:
            rep.bad('G1', fn, fn.qualname, 'is not an mpc_coro with its own program counter although it forks protocols after an await', fn.node)
