"""FR / HS / KEY / CR rules: framing, handshake, PRSS key ownership, crash safety
(properties C10, C16, C36 and the stream part of C08/C09)."""
import ast
import struct

from .core import AnalysisError, iter_nodes, norm, unparse, cnorm, cnorm_text
from . import astq
from .astq import (parents, ancestors, calls_named, mentions_attr, mentions_name, definitions,
                   enclosing_loops, enclosing_ifs, const_int, attr_tail)
from .linform import Lin, to_lin

EX = 'asyncoro::MessageExchanger'


def _const_prefix(fmt):
    """Constant prefix of a struct format given as a str constant or an f-string."""
    if isinstance(fmt, ast.Constant) and isinstance(fmt.value, str):
        return fmt.value, None
    if isinstance(fmt, ast.JoinedStr):
        pre = ''
        rest = None
        for i, v in enumerate(fmt.values):
            if isinstance(v, ast.Constant):
                pre += v.value
            else:
                rest = fmt.values[i:]
                break
        return pre, rest
    return None, None


def _frame_facts(ctx):
    """Locate writer format, reader header format, header-size literals (cached)."""
    if 'frame' in ctx.cache:
        return ctx.cache['frame']
    model = ctx.model
    snd = model.func(EX + '.send')
    rcv = model.func(EX + '.data_received')
    packs = calls_named(snd.node, 'pack')
    if len(packs) != 1:
        raise AnalysisError('FR: MessageExchanger.send no longer has exactly one struct.pack call')
    wfmt, wrest = _const_prefix(packs[0].args[0])
    if wfmt is None:
        raise AnalysisError('FR: writer format is not a (f-)string literal')
    ups = calls_named(rcv.node, 'unpack_from')
    hdr = [u for u in ups if isinstance(u.args[0], ast.Constant)]
    pay = [u for u in ups if isinstance(u.args[0], ast.JoinedStr)]
    if len(hdr) != 1:
        raise AnalysisError('FR: reader no longer has exactly one header unpack_from')
    if not pay:
        # payload taken by slicing the buffer: data[hs:X] inside the frame loop
        pmx = parents(rcv.node)
        lpx = [a for a in ancestors(hdr[0], pmx) if isinstance(a, ast.While)]
        for n in (iter_nodes(lpx[0]) if lpx else []):
            if isinstance(n, ast.Subscript) and isinstance(n.slice, ast.Slice) and isinstance(n.ctx, ast.Load) and n.slice.lower is not None \
                    and norm(n.value) in ('data', 'self.bytes') and not isinstance(pmx.get(id(n)), ast.Delete):
                pay.append(n)
    if len(pay) != 1:
        raise AnalysisError('FR: reader no longer has exactly one payload read (unpack_from with an f-string format, or a slice of the buffer)')
    f = {'snd': snd, 'rcv': rcv, 'pack': packs[0], 'wfmt': wfmt, 'wrest': wrest, 'hdr': hdr[0], 'pay': pay[0],
         'rfmt': hdr[0].args[0].value}
    try:
        f['hsize'] = struct.calcsize(f['rfmt'])
    except struct.error as e:
        raise AnalysisError(f'FR: reader header format {f["rfmt"]!r} is not a struct format: {e}')
    ctx.cache['frame'] = f
    return f


# ------------------------------------------------------------------------------------------ FR1
def rule_FR1(ctx, rep):
    """format agreement between MessageExchanger.send (writer) and data_received (reader)."""
    f = _frame_facts(ctx)
    snd, rcv = f['snd'], f['rcv']
    if f['wfmt'] == f['rfmt']:
        rep.ok('FR1', snd, f['pack'], f'writer header format {f["wfmt"]!r} == reader header format')
    else:
        rep.bad('FR1', snd, f['pack'], f'writer packs header {f["wfmt"]!r} but reader unpacks {f["rfmt"]!r}')
    hs = f['hsize']
    # writer: payload spec is '{n}s' with n == len(payload) and the packed length field is that n
    pk = f['pack']
    lab, size, payload = (pk.args[1:4] + [None, None, None])[:3]
    ok_w = False
    if f['wrest'] and len(f['wrest']) == 2 and isinstance(f['wrest'][0], ast.FormattedValue) \
            and isinstance(f['wrest'][1], ast.Constant) and f['wrest'][1].value == 's' and size is not None:
        nexpr = f['wrest'][0].value
        if norm(nexpr) == norm(size):
            d = astq.resolve_value(snd.node, size)
            if isinstance(d, ast.Call) and attr_tail(d.func) == 'len' and payload is not None and norm(d.args[0]) == norm(payload):
                ok_w = True
    if ok_w:
        rep.ok('FR1', snd, pk, 'length field == len(payload) == width of the payload field')
    else:
        rep.bad('FR1', snd, pk, 'the packed length field, the payload width and len(payload) do not agree')
    # reader: header-size literals
    hdr = f['hdr']
    tgt = None
    pm = parents(rcv.node)
    st = astq.enclosing_stmt(hdr, pm)
    if isinstance(st, ast.Assign) and isinstance(st.targets[0], ast.Tuple) and len(st.targets[0].elts) == 2:
        labv, sizev = [norm(x) for x in st.targets[0].elts]
    else:
        raise AnalysisError('FR1: header unpack is not `label, size = unpack_from(...)`')
    # loop guard: the number of buffered bytes established on the way to the header read inside the frame loop -- by the loop
    # test (`while len(buf) >= c`), by an `if len(buf) >= c:` around it, or by an early exit `if len(buf) < c: break / return`
    loops = [a for a in ancestors(hdr, pm) if isinstance(a, ast.While)]
    if not loops:
        raise AnalysisError('FR1: header unpack is not inside the frame loop')
    lp = loops[0]
    bounds = _established_len(rcv, hdr, pm, {'data', 'self.bytes'}, stop=lp)
    # (a reader that walks the buffer with a running offset reads the header at that offset: the bytes known to lie behind it count)
    hoff = to_lin(hdr.args[2], opaque=False) if len(hdr.args) > 2 else Lin(0)
    consts = [((b - hoff).c, g) for b, g in bounds if hoff is not None and (b - hoff).is_const()]
    if consts:
        c, g = max(consts, key=lambda z: z[0])
        if c == hs:
            rep.ok('FR1', rcv, g, f'loop guard uses the header size {hs} = calcsize({f["rfmt"]!r})')
        else:
            rep.bad('FR1', rcv, g, f'loop guard admits buffers from {c} bytes, but the header has calcsize({f["rfmt"]!r}) = {hs} bytes')
    else:
        raise AnalysisError('FR1: frame loop guard not a comparison of len(buffer) with an integer')
    # len_packet = size + hs
    lps = [s for s in iter_nodes(lp) if isinstance(s, ast.Assign) and mentions_name(s.value, sizev) and isinstance(s.value, ast.BinOp)]
    if lps:
        site, expr = lps[0], lps[0].value
    else:
        # no named packet length: the number of bytes a frame removes from the buffer is written out in `del buf[:E]`
        dels = [(s, t.slice.upper) for s in iter_nodes(lp) if isinstance(s, ast.Delete) for t in s.targets
                if isinstance(t, ast.Subscript) and isinstance(t.slice, ast.Slice) and t.slice.lower is None and t.slice.upper is not None
                and mentions_name(t.slice.upper, sizev)]
        if not dels:
            raise AnalysisError('FR1: packet length computation not found')
        site, expr = dels[0]
    lin = to_lin(expr, opaque=False)
    if lin is not None and lin == Lin.sym(sizev) + hs:
        rep.ok('FR1', rcv, site, f'packet length = payload size + header size ({hs})')
    else:
        rep.bad('FR1', rcv, site, f'packet length is {norm(expr)}, expected {sizev} + {hs}')
    # payload read: width == size var, offset == hs
    pay = f['pay']
    if isinstance(pay, ast.Subscript):
        lo = to_lin(pay.slice.lower, opaque=False)
        hi = to_lin(pay.slice.upper, opaque=False) if pay.slice.upper is not None else None
        env = {}
        for s_ in iter_nodes(lp):
            if isinstance(s_, ast.Assign) and isinstance(s_.targets[0], ast.Name):
                v_ = to_lin(s_.value, env, opaque=False)
                if v_ is not None:
                    env[s_.targets[0].id] = v_
        hi = to_lin(pay.slice.upper, env, opaque=False) if pay.slice.upper is not None else None
        if lo is not None and hi is not None and lo == Lin(hs) and (hi - lo) == Lin.sym(sizev):
            rep.ok('FR1', rcv, pay, f'payload = buffer[{hs}:{hs}+size]')
        else:
            rep.bad('FR1', rcv, pay, f'payload slice {norm(pay)} is not buffer[{hs}:{hs}+{sizev}]')
    else:
        pfmt, prest = _const_prefix(pay.args[0])
        okp = pfmt == '' and prest and len(prest) == 2 and isinstance(prest[0], ast.FormattedValue) and norm(prest[0].value) == sizev \
            and isinstance(prest[1], ast.Constant) and prest[1].value == 's'
        offl = to_lin(pay.args[2], opaque=False) if len(pay.args) > 2 else Lin(0)
        offl = offl - hoff if offl is not None and hoff is not None else None          # relative to where the header was read
        off = int(offl.c) if offl is not None and offl.is_const() else None
        if okp and off == hs:
            rep.ok('FR1', rcv, pay, f'payload read at offset {hs} with the width from the header')
        else:
            rep.bad('FR1', rcv, pay, f'payload is read with format {norm(pay.args[0])} at offset {off}; expected width {sizev} at offset {hs}')


# ------------------------------------------------------------------------------------------ FR2
class _Bytes:
    """State of the symbolic walk: lower bounds on len(buffer), env of linear forms."""

    def __init__(self, lbs=None, env=None):
        self.lbs = list(lbs) if lbs is not None else [Lin(0)]
        self.env = dict(env or {})

    def copy(self):
        return _Bytes(self.lbs, self.env)


def _len_guard(test, bufnames):
    """A comparison between len(buf) and E, in either orientation -> (op class as if written `len(buf) <op> E`, E expr)."""
    if isinstance(test, ast.Compare) and len(test.ops) == 1:
        l, r, op = test.left, test.comparators[0], test.ops[0]

        def is_len(x):
            return isinstance(x, ast.Call) and attr_tail(x.func) == 'len' and x.args and norm(x.args[0]) in bufnames
        if is_len(l) and not is_len(r):
            return type(op), r
        if is_len(r) and not is_len(l):
            mirror = {ast.Lt: ast.Gt, ast.LtE: ast.GtE, ast.Gt: ast.Lt, ast.GtE: ast.LtE, ast.Eq: ast.Eq, ast.NotEq: ast.NotEq}
            if type(op) in mirror:
                return mirror[type(op)], l
    return None


def _established_len(fn, node, pm, bufnames, stop=None):
    """[(Lin lower bound on len(buffer), guard node)] established on every path to `node`, up to and including the loop `stop`:
    tests of enclosing while / if statements and earlier early exits in the enclosing blocks."""
    out = []

    def lower(test, truth):
        g = _len_guard(test, bufnames)
        if g is None:
            return
        op, e = g
        E = to_lin(e, opaque=False)
        if E is None:
            return
        if truth and op in (ast.GtE, ast.Gt):
            out.append((E + (1 if op is ast.Gt else 0), test))
        if not truth and op in (ast.Lt, ast.LtE):
            out.append((E + (1 if op is ast.LtE else 0), test))
    child = node
    for a in ancestors(node, pm):
        if a is fn.node:
            break
        if isinstance(a, ast.While) and any(child is s_ for s_ in a.body):
            lower(a.test, True)
        elif isinstance(a, ast.If):
            if any(child is s_ for s_ in a.body):
                lower(a.test, True)
            elif any(child is s_ for s_ in a.orelse):
                lower(a.test, False)
        for blk in astq._blocks(a):
            if any(child is s_ for s_ in blk):
                for s_ in blk:
                    if s_ is child:
                        break
                    if isinstance(s_, ast.If) and not s_.orelse and s_.body and isinstance(s_.body[-1], (ast.Return, ast.Raise, ast.Continue, ast.Break)):
                        lower(s_.test, False)
        if a is stop:
            break
        child = a
    return out


def rule_FR2(ctx, rep):
    """no consumption / read before completeness in data_received (symbolic lower bounds on the
    number of buffered bytes, per consistent valuation of the recurring flags)."""
    model = ctx.model
    fn = model.func(EX + '.data_received')
    # buffer names: the attribute self.bytes and any local bound to it
    bufnames = {'self.bytes'}
    for s in iter_nodes(fn.node):
        if isinstance(s, ast.Assign) and norm(s.value) in bufnames:
            for t in s.targets:
                bufnames.add(norm(t))
    # atoms: tests that recur textually (after stripping `not`)
    def atom(t):
        neg = False
        while isinstance(t, ast.UnaryOp) and isinstance(t.op, ast.Not):
            neg = not neg
            t = t.operand
        return norm(t), neg
    counts = {}
    for s in iter_nodes(fn.node):
        if isinstance(s, ast.If) and _len_guard(s.test, bufnames) is None:
            a, _ = atom(s.test)
            counts[a] = counts.get(a, 0) + 1
    atoms = sorted(a for a, c in counts.items() if c >= 2)
    if len(atoms) > 4:
        raise AnalysisError('FR2: too many recurring flags in data_received')
    found = {'consume': 0, 'read': 0}
    reported = set()

    def need(state, n_lin, node, what):
        okb = any((b - n_lin).nonneg() for b in state.lbs)
        key = (norm(node), what)
        if okb:
            if key not in reported:
                pass
            return True
        if key not in reported:
            reported.add(key)
            rep.bad('FR2', fn, node, f'{what} of {n_lin} byte(s) while only {" / ".join(map(repr, state.lbs))} are known to be buffered '
                    f'on the path with {valtxt}: a partial frame/handshake is consumed')
        return False

    def reads_in(e, state):
        for c in ast.walk(e):
            if isinstance(c, ast.Call) and attr_tail(c.func) == 'unpack_from' and len(c.args) >= 2 and norm(c.args[1]) in bufnames:
                fmt = c.args[0]
                pre, rest = _const_prefix(fmt)
                size = None
                if rest is None and pre is not None:
                    try:
                        size = Lin(struct.calcsize(pre))
                    except struct.error:
                        size = None
                elif pre == '' and rest and len(rest) == 2 and isinstance(rest[0], ast.FormattedValue):
                    size = to_lin(rest[0].value, state.env)
                off = to_lin(c.args[2], state.env) if len(c.args) > 2 else Lin(0)
                if size is None:
                    rep.skip('FR2', fn, c, 'read size not recognised')
                    continue
                found['read'] += 1
                if need(state, off + size, c, 'read'):
                    okreads.add(norm(c))
            if isinstance(c, ast.Subscript) and norm(c.value) in bufnames and isinstance(c.slice, ast.Slice) \
                    and isinstance(c.ctx, ast.Load) and c.slice.upper is not None:
                found['read'] += 1
                if need(state, to_lin(c.slice.upper, state.env), c, 'read'):
                    okreads.add(norm(c))

    def walk(stmts, state):
        """Returns list of fall-through states."""
        states = [state]
        for s in stmts:
            nxt = []
            for st in states:
                nxt.extend(step(s, st))
            states = nxt
            if not states:
                break
        return states

    def terminates(body):
        return bool(body) and isinstance(body[-1], (ast.Return, ast.Break, ast.Continue, ast.Raise))

    def step(s, st):
        if isinstance(s, ast.If):
            g = _len_guard(s.test, bufnames)
            if g is not None:
                op, e = g
                E = to_lin(e, st.env)
                if op in (ast.Lt, ast.LtE):
                    # in the branch taken when the buffer is short nothing is learnt; on the other branch (and after the statement,
                    # if the short branch leaves) at least E bytes are buffered
                    out = st.copy()
                    out.lbs.append(E + (1 if op is ast.LtE else 0))
                    return walk(s.body, st.copy()) + (walk(s.orelse, out) if s.orelse else [out])
                if op in (ast.GtE, ast.Gt):
                    inner = st.copy()
                    inner.lbs.append(E + (1 if op is ast.Gt else 0))
                    return walk(s.body, inner) + walk(s.orelse, st.copy())
                # unknown form: both branches without knowledge
                return walk(s.body, st.copy()) + walk(s.orelse, st.copy())
            a, neg = atom(s.test)
            reads_in(s.test, st)
            if a in val:
                truth = val[a] != neg
                return walk(s.body if truth else s.orelse, st.copy())
            return walk(s.body, st.copy()) + walk(s.orelse, st.copy())
        if isinstance(s, ast.While):
            g = _len_guard(s.test, bufnames)
            inner = st.copy()
            # a name assigned in the loop body has an unknown value at the top of an iteration (a running offset, ..)
            for x_ in ast.walk(s):
                if isinstance(x_, ast.Name) and isinstance(x_.ctx, ast.Store):
                    inner.env[x_.id] = Lin.sym(f'{x_.id}@{s.lineno}')
            if g is not None and g[0] in (ast.GtE, ast.Gt):
                E = to_lin(g[1], inner.env)
                # at the top of every iteration only the guard is known
                inner.lbs = [E + (1 if g[0] is ast.Gt else 0)]
            else:
                inner.lbs = [Lin(0)]
            walk(s.body, inner)
            out = st.copy()
            out.lbs = [Lin(0)]
            return [out]
        if isinstance(s, ast.Delete):
            out = st
            for t in s.targets:
                if isinstance(t, ast.Subscript) and norm(t.value) in bufnames:
                    sl = t.slice
                    if isinstance(sl, ast.Slice) and sl.lower is None and sl.upper is not None and sl.step is None:
                        N = to_lin(sl.upper, st.env)
                        found['consume'] += 1
                        if need(st, N, s, 'consumption'):
                            okcons.add(norm(s))
                        out = st.copy()
                        out.lbs = [b - N for b in st.lbs]
                    else:
                        rep.skip('FR2', fn, s, 'consumption form not recognised')
            return [out]
        if isinstance(s, ast.Assign):
            reads_in(s.value, st)
            out = st.copy()
            for t in s.targets:
                names = [t] if isinstance(t, ast.Name) else (t.elts if isinstance(t, ast.Tuple) else [])
                for nm in names:
                    if isinstance(nm, ast.Name):
                        v = to_lin(s.value, st.env, opaque=False) if isinstance(t, ast.Name) else None
                        out.env[nm.id] = v if v is not None else Lin.sym(f'{nm.id}@{s.lineno}')
            return [out]
        if isinstance(s, ast.AugAssign) and isinstance(s.target, ast.Name):
            out = st.copy()
            out.env[s.target.id] = Lin.sym(f'{s.target.id}@{s.lineno}')
            return [out]
        if isinstance(s, (ast.Return, ast.Break, ast.Continue, ast.Raise)):
            return []
        if isinstance(s, ast.Expr):
            reads_in(s.value, st)
            # a call that receives the buffer may read it: checked by HS1 for the key reader
            return [st]
        if isinstance(s, (ast.For, ast.With, ast.Try)):
            rep.skip('FR2', fn, s, 'statement kind not modelled in the byte-count walk')
            return [st]
        return [st]

    import itertools
    okcons, okreads = set(), set()
    for bits in itertools.product([True, False], repeat=len(atoms)):
        val = dict(zip(atoms, bits))
        valtxt = ', '.join(f'{a}={v}' for a, v in val.items()) or 'no flags'
        walk(fn.node.body, _Bytes())
    for c in sorted(okcons):
        if not any(o.rule == 'FR2' and o.status == 'violation' and o.site == c[:160] for o in rep.obs):
            rep.ok('FR2', fn, c, 'consumption covered by a completeness guard on every flag valuation')
    for c in sorted(okreads):
        if not any(o.rule == 'FR2' and o.status == 'violation' and o.site == c[:160] for o in rep.obs):
            rep.ok('FR2', fn, c, 'read covered by a completeness guard on every flag valuation')
    if found['consume'] < 3:
        raise AnalysisError(f'FR2: only {found["consume"]} consumption sites found in data_received (expected >= 3)')


# ------------------------------------------------------------------------------------------ FR3
def _parse_expr(a):
    try:
        return ast.parse(a, mode='eval').body
    except SyntaxError:
        return None


def rule_FR3(ctx, rep):
    """rendezvous typestate of MessageExchanger.buffers."""
    model = ctx.model
    rcv = model.func(EX + '.receive')
    dr = model.func(EX + '.data_received')
    lab = rcv.params[1]
    from . import cond, sem
    pm = parents(rcv.node)

    def is_buffers(e):
        e = sem.expand(rcv, e, e, pm) if not isinstance(e, ast.Attribute) else e
        return isinstance(e, ast.Attribute) and e.attr == 'buffers'

    def resolved(e, use):
        """the expression a name stands for (through single plain definitions), as a node of the tree"""
        return sem.resolve(rcv, e, use, pm)
    pops = [c for c in iter_nodes(rcv.node) if isinstance(c, ast.Call) and isinstance(c.func, ast.Attribute) and c.func.attr == 'pop' and is_buffers(c.func.value)]
    if not pops:
        rep.bad('FR3', rcv, rcv.qualname, 'receive does not remove (pop) an already-arrived payload from buffers: it would be '
                'delivered again / stay behind after shutdown', rcv.node)
        return
    for p in pops:
        if norm(p.args[0]) != lab:
            rep.bad('FR3', rcv, p, f'buffers are popped with key {norm(p.args[0])}, not with the requested label {lab}')
    # every return is classified by its path condition: "arrived" (label in buffers / popped value is not the pop default) or
    # "not yet arrived"; what is returned there must be the popped payload resp. a fresh Future stored under the label
    def arrival(f):
        """True / False / None: does the condition f establish that a payload has arrived"""
        imp, ref = cond.implied(f), cond.refuted(f)

        def kind(a):
            e = _parse_expr(a)
            if isinstance(e, ast.Compare) and len(e.ops) == 1:
                l, r = e.left, e.comparators[0]
                if isinstance(e.ops[0], ast.In) and norm(l) == lab and isinstance(r, ast.Attribute) and r.attr == 'buffers':
                    return 'member'
                if isinstance(e.ops[0], ast.Is):
                    for x, y in ((l, r), (r, l)):
                        if isinstance(x, ast.Call) and isinstance(x.func, ast.Attribute) and x.func.attr == 'pop' and len(x.args) == 2 and norm(x.args[1]) == norm(y):
                            return 'default'          # popped value is the pop default: nothing had arrived
            return None
        for a in imp:
            if kind(a) == 'member':
                return True
            if kind(a) == 'default':
                return False
        for a in ref:
            if kind(a) == 'member':
                return False
            if kind(a) == 'default':
                return True
        return None
    rets = [r for r in iter_nodes(rcv.node) if isinstance(r, ast.Return)]
    stores = [s_ for s_ in iter_nodes(rcv.node) if isinstance(s_, ast.Assign) and any(isinstance(x, ast.Subscript) and is_buffers(x.value) for x in s_.targets)]
    seen = {True: None, False: None}
    problem = None
    for r in rets:
        if r.value is None:
            problem = (r, 'receive returns nothing on some path')
            continue
        for g, v in cond.expr_cases(rcv, r.value, r, pm):
            f = cond.conj([cond.context(rcv, r, pm), g])
            if not cond.satisfiable(f):
                continue
            arr = arrival(f)
            if arr is None:
                problem = (r, f'whether a payload has arrived is not decided by `{lab} in buffers` or by identity of the popped value with the pop default '
                              f'on the path with {cond.fmt(f)}: an empty payload that already arrived is taken for "not yet arrived" and the receive never completes')
                continue
            if arr:
                ok_ = isinstance(v, ast.Call) and isinstance(v.func, ast.Attribute) and v.func.attr == 'pop' and norm(v.args[0]) == lab
                if not ok_:
                    problem = (r, 'an arrived payload is not removed from buffers and returned')
                else:
                    seen[True] = r
            else:
                fut = isinstance(v, ast.Call) and attr_tail(v.func) == 'Future'
                # the same Future object is stored under the label on this path
                st_ok = False
                for s_ in stores:
                    if cond.satisfiable(cond.conj([cond.context(rcv, s_, pm), f])) and all(norm(x.slice) == lab for x in s_.targets if isinstance(x, ast.Subscript)):
                        sv = resolved(s_.value, s_)
                        rv = resolved(r.value, r) if isinstance(r.value, ast.Name) else r.value
                        rdefs = [d[0] for d in astq.reaching_definitions(rcv.node, r.value.id, r, pm)] if isinstance(r.value, ast.Name) else []
                        if isinstance(sv, ast.Call) and attr_tail(sv.func) == 'Future' and (sv is rv or s_ in rdefs):
                            st_ok = True
                if fut and st_ok:
                    seen[False] = r
                else:
                    problem = (r, 'the waiting Future is not registered (exactly) in the "not yet arrived" case under the requested label and returned')
    for s_ in stores:
        arr = arrival(cond.context(rcv, s_, pm))
        if arr is not False:
            problem = (s_, 'buffers are written on a path on which a payload may already have arrived (it would be overwritten)')
    if problem is None and seen[True] is not None and seen[False] is not None:
        rep.ok('FR3', rcv, pops[0], 'arrived payload is removed when it is handed out')
        rep.ok('FR3', rcv, seen[False], 'a Future is registered under the label only when nothing has arrived; arrival is decided by membership / identity with the pop default')
        rep.ok('FR3', rcv, seen[True], 'receive returns the popped payload, or the Future it registered')
    elif problem is not None:
        rep.bad('FR3', rcv, problem[0], problem[1])
    else:
        rep.bad('FR3', rcv, rcv.qualname, 'receive does not return the popped payload / the registered Future on every path', rcv.node)
    # data_received: present -> pop + set_result(payload); absent -> store payload
    f = _frame_facts(ctx)
    pmd = parents(dr.node)
    stt = astq.enclosing_stmt(f['pay'], pmd)
    if not (isinstance(stt, ast.Assign) and isinstance(stt.targets[0], ast.Name)):
        raise AnalysisError('FR3: payload unpack not bound to a name')
    pv = stt.targets[0].id
    sth = astq.enclosing_stmt(f['hdr'], pmd)
    lv = sth.targets[0].elts[0].id
    def is_buf(e):
        e = sem.expand(dr, e, e, pmd)
        return isinstance(e, ast.Attribute) and e.attr == 'buffers'
    ifs = [i for i in iter_nodes(dr.node) if isinstance(i, ast.If) and isinstance(i.test, ast.Compare) and len(i.test.ops) == 1
           and isinstance(i.test.ops[0], (ast.In, ast.NotIn)) and is_buf(i.test.comparators[0])]
    if len(ifs) != 1:
        raise AnalysisError('FR3: presence test `label in self.buffers` not found in data_received')
    i = ifs[0]
    present, absent = (i.body, i.orelse) if isinstance(i.test.ops[0], ast.In) else (i.orelse, i.body)
    sr = [c for s in present for c in ast.walk(s) if isinstance(c, ast.Call) and attr_tail(c.func) == 'set_result']
    good = False
    if len(sr) == 1 and sr[0].args and norm(sr[0].args[0]) == pv:
        recv = sr[0].func.value
        if isinstance(recv, ast.Call) and attr_tail(recv.func) == 'pop' and recv.args and norm(recv.args[0]) == lv:
            good = True
    if good:
        rep.ok('FR3', dr, sr[0], 'a waiting Future is removed and completed with the payload')
    else:
        rep.bad('FR3', dr, i, 'when a receive is waiting, its Future is not (removed from buffers and) completed with the payload of this frame')
    store = [s for s in absent if isinstance(s, ast.Assign) and any(isinstance(x, ast.Subscript) and is_buf(x.value) and norm(x.slice) == lv for x in s.targets)
             and norm(s.value) == pv]
    if len(store) == 1 and len(absent) == 1:
        rep.ok('FR3', dr, store[0], 'payload stored under its label when no receive is waiting')
    else:
        rep.bad('FR3', dr, i, 'when no receive is waiting the payload is not stored under its label')


# ------------------------------------------------------------------------------------------ FR5
def rule_FR5(ctx, rep):
    """liveness of the frame loop: every complete frame in the buffer is delivered now."""
    f = _frame_facts(ctx)
    rcv = f['rcv']
    pm = parents(rcv.node)
    lp = [a for a in ancestors(f['hdr'], pm) if isinstance(a, ast.While)][0]
    g = lp.test
    # what is known about the buffer length where the header is read (loop test, enclosing `if`, early exits alike)
    hoff = to_lin(f['hdr'].args[2], opaque=False) if len(f['hdr'].args) > 2 else Lin(0)
    consts = [((b - hoff).c, gd) for b, gd in _established_len(rcv, f['hdr'], pm, {'data', 'self.bytes'}, stop=lp) if hoff is not None and (b - hoff).is_const()]
    admits = max(c for c, _ in consts) if consts else None
    if admits is not None and admits <= f['hsize']:
        rep.ok('FR5', rcv, g, 'a buffer holding exactly one header (empty payload) enters the loop')
    else:
        rep.bad('FR5', rcv, g, f'the guard of the frame loop does not admit a buffer of exactly {f["hsize"]} bytes (it asks for {admits}): a frame with an empty '
                'payload (or the last frame of a chunk) is not delivered until more data arrives')
    # early exits inside the loop (a bare return is as good as break when the local buffer name is
    # an alias of the persistent buffer, so that nothing is lost by skipping the store-back)
    bufalias0 = any(isinstance(s, ast.Assign) and norm(s.value) == 'self.bytes' for s in iter_nodes(rcv.node))
    # the frame length, as a linear form over the header fields: what one iteration removes from the buffer (`del buf[:E]`),
    # whether E is a named temporary or written out
    def env_at(node):
        # linear values of the loop's locals as assigned (in source order) before `node`
        e_ = {}
        for s in iter_nodes(lp):
            if isinstance(s, ast.Assign) and len(s.targets) == 1 and isinstance(s.targets[0], ast.Name) and (node is None or astq.position(s) < astq.position(node)):
                v_ = to_lin(s.value, e_, opaque=False)
                if v_ is not None:
                    e_[s.targets[0].id] = v_
                else:
                    e_.pop(s.targets[0].id, None)
        return e_
    dels = [s for s in iter_nodes(lp) if isinstance(s, ast.Delete)]
    env = env_at(dels[0] if len(dels) == 1 else None)
    frame = None
    if len(dels) == 1 and isinstance(dels[0].targets[0], ast.Subscript) and isinstance(dels[0].targets[0].slice, ast.Slice) \
            and dels[0].targets[0].slice.lower is None and dels[0].targets[0].slice.upper is not None:
        frame = to_lin(dels[0].targets[0].slice.upper, env, opaque=False)
        if frame is not None and not frame.t:
            frame = None        # a constant: not a frame length
    # running-offset form: the header is read at a running offset that advances by the frame length per iteration, and the
    # buffer is cut once, by that offset, after the loop
    base = Lin(0)
    if frame is None and hoff is not None and len(hoff.syms()) == 1 and hoff.c == 0:
        ov = next(iter(hoff.syms()))
        incs = [s_ for s_ in iter_nodes(lp) if isinstance(s_, ast.AugAssign) and isinstance(s_.op, ast.Add) and norm(s_.target) == ov]
        after = [s_ for s_ in iter_nodes(rcv.node) if isinstance(s_, ast.Delete) and astq.position(s_) > astq.position(lp) and isinstance(s_.targets[0], ast.Subscript)
                 and isinstance(s_.targets[0].slice, ast.Slice) and s_.targets[0].slice.lower is None and s_.targets[0].slice.upper is not None
                 and norm(s_.targets[0].slice.upper) == ov]
        if len(incs) == 1 and len(after) == 1 and any(incs[0] is s_ for s_ in lp.body):
            fr_ = to_lin(incs[0].value, env, opaque=False)
            if fr_ is not None and fr_.t:
                frame, base, dels = fr_, Lin.sym(ov), [incs[0]]
    exits = [s for s in iter_nodes(lp) if isinstance(s, (ast.Break, ast.Return, ast.Continue))]
    for e in exits:
        ifs = enclosing_ifs(e, pm, stop=lp)
        good = False
        if len(ifs) == 1 and ifs[0][1] == 'body':
            t = ifs[0][0].test
            lg2 = _len_guard(t, {'data', 'self.bytes'})
            need = to_lin(lg2[1], env_at(ifs[0][0]), opaque=False) if lg2 is not None else None
            if lg2 is not None and lg2[0] is ast.Lt and frame is not None and need == frame + base:
                good = True
            elif lg2 is not None and lg2[0] is ast.Lt and need is not None and (need - base).is_const() and (need - base).c <= f['hsize']:
                good = True       # fewer bytes than one header: no complete frame can be buffered
        if good and (isinstance(e, ast.Break) or (isinstance(e, ast.Return) and e.value is None and bufalias0)):
            rep.ok('FR5', rcv, ifs[0][0].test, 'the loop is left only when fewer bytes than one complete frame are buffered')
        else:
            rep.bad('FR5', rcv, e, f'the frame loop is left by `{norm(e)}` on a condition other than "fewer bytes than the frame length": '
                    'complete frames can stay undelivered (or the rest of the chunk is dropped)')
    # consumption inside the loop equals the frame length
    if frame is not None:
        rep.ok('FR5', rcv, dels[0], 'exactly one frame is consumed per iteration')
    else:
        rep.bad('FR5', rcv, dels[0] if dels else lp.test, 'a loop iteration does not consume exactly the frame it delivered '
                '(the stream is re-parsed at a wrong offset)')
    # residue stored back / same object
    bufalias = any(isinstance(s, ast.Assign) and norm(s.value) == 'self.bytes' for s in iter_nodes(rcv.node))
    ext = [c for c in calls_named(rcv.node, 'extend') if norm(c.func.value) == 'self.bytes']
    if bufalias and ext:
        rep.ok('FR5', rcv, ext[0], 'incoming chunk appended to the persistent buffer; the residue stays in it')
    else:
        rep.bad('FR5', rcv, rcv.qualname, 'incoming chunks are not accumulated in the persistent buffer: the residue of a partial frame is lost', rcv.node)


# ------------------------------------------------------------------------------------------ HS1
def _conjuncts(t):
    if isinstance(t, ast.BoolOp) and isinstance(t.op, ast.And):
        out = []
        for v in t.values:
            out += _conjuncts(v)
        return out
    return [t]


def _swap_roles(txt, a, b):
    return txt.replace(a, '\0').replace(b, a).replace('\0', b)


COMBOS = 'itertools.combinations(range(M), M - T)'


def _writer_elements(fn):
    """Element expressions of the list returned by the key writer: comprehension elements and append arguments."""
    out = []
    rets = [r for r in iter_nodes(fn.node) if isinstance(r, ast.Return) and r.value is not None]
    names = set()
    for r in rets:
        v = r.value
        if isinstance(v, ast.ListComp):
            out.append(v.elt)
        elif isinstance(v, ast.Name):
            names.add(v.id)
    for nm in names:
        for st, v, how in definitions(fn.node, nm):
            if isinstance(v, ast.ListComp):
                out.append(v.elt)
        for c in calls_named(fn.node, 'append'):
            if isinstance(c.func, ast.Attribute) and isinstance(c.func.value, ast.Name) and c.func.value.id == nm and c.args:
                out.append(c.args[0])
    return out


def rule_HS1(ctx, rep):
    """handshake duality: key writer (client) and key reader (server) enumerate the same subsets,
    under swapped roles, with the same key width; pid encoding agrees."""
    from . import keyenum, routes
    model = ctx.model
    wr = model.func('runtime::Runtime._prss_keys_to_peer')
    rd = model.func('runtime::Runtime._prss_keys_from_peer')
    pw, pr = wr.params[1], rd.params[1]
    pmr = parents(rd.node)
    # ---- writer: what is sent, for which subsets
    elts = _writer_elements(wr)
    if not elts:
        raise AnalysisError('HS1: the list of keys returned by _prss_keys_to_peer was not found')
    ew = None
    for e in elts:
        ew = keyenum.enumeration(wr, e, {pw: 'PEER'}, model=model)
        if ew is None:
            rep.bad('HS1', wr, e, 'a key is sent outside any enumeration of key subsets')
            continue
        sv = ew.var
        want = {cnorm_text('S[0] == self.pid'), cnorm_text('PEER in S')}
        if ew.filters == want:
            rep.ok('HS1', wr, e, 'keys are sent exactly for subsets owned by this party that contain the peer')
        else:
            rep.bad('HS1', wr, e, f'writer filter {sorted(ew.filters)} is not "owner is me and peer is a member": keys of other owners are forwarded / '
                    'expected keys are not sent, so the reader mis-cuts the key stream')
        # the key sent is the stored key of that subset
        ee = routes.xp(wr, e, e, parents(wr.node))
        vv = ew.binder.value_var
        if norm(ee) == f'self._prss_keys[{sv}]' or (vv and norm(e) == vv and norm(ew.binder.src) == 'self._prss_keys'):
            rep.ok('HS1', wr, e, 'the key sent is the one stored for that subset')
        else:
            rep.bad('HS1', wr, e, 'the key sent for a subset is not self._prss_keys[subset]')
    # ---- reader: where the stream is cut
    sls = [n for n in iter_nodes(rd.node) if isinstance(n, ast.Subscript) and isinstance(n.slice, ast.Slice) and isinstance(n.ctx, ast.Load)
           and isinstance(n.value, ast.Name) and n.value.id in rd.params]
    if len(sls) != 1:
        raise AnalysisError('HS1: the slice cutting a key out of the received data was not found in _prss_keys_from_peer')
    er = keyenum.enumeration(rd, sls[0], {pr: 'PEER'}, model=model)
    if er is None:
        rep.bad('HS1', rd, sls[0], 'received keys are not cut inside an enumeration of key subsets')
        return
    if ew is not None:
        if ew.base_txt == er.base_txt == cnorm_text(COMBOS):
            rep.ok('HS1', wr, ew.binder.node, f'writer and reader enumerate {COMBOS} with m = len(self.parties), t = self.threshold')
        elif ew.base_txt != cnorm_text(COMBOS) and er.base_txt == cnorm_text(COMBOS) and norm(ew.binder.src) == 'self._prss_keys':
            rep.skip('HS1', wr, ew.binder.node, 'writer enumerates its key table instead of the subsets: order/coverage equivalence not decided')
        else:
            rep.bad('HS1', rd, er.binder.node, f'writer enumerates {ew.base_txt} but reader enumerates {er.base_txt}: the key stream is cut at wrong positions')
        swapped = {cnorm_text(f.replace('self.pid', '\0').replace('PEER', 'self.pid').replace('\0', 'PEER')) for f in ew.filters}
        if swapped == er.filters:
            rep.ok('HS1', rd, sls[0], 'reader filter == writer filter under the role swap self.pid <-> peer')
        else:
            rep.bad('HS1', rd, sls[0], f'reader expects keys for subsets with {sorted(er.filters)}, writer sends for {sorted(ew.filters)}: under the role '
                    'swap these differ, so keys are stored under wrong subsets / the stream is mis-cut')
    # key width
    setter = model.func('runtime::Runtime.threshold')   # the later definition (setter) overrides
    toks = calls_named(setter.node, 'token_bytes')
    if len(toks) != 1:
        raise AnalysisError('HS1: secrets.token_bytes call not found in the threshold setter')
    K = const_int(toks[0].args[0])
    if K is None:
        raise AnalysisError('HS1: key size is not an integer literal')
    # reader: slice [off:off+K]; off advances by K once per expected subset (whether or not data is given)
    sl = sls[0].slice
    lo = routes.lin(rd, sl.lower, sls[0], pmr) if sl.lower is not None else Lin(0)
    hi = routes.lin(rd, sl.upper, sls[0], pmr) if sl.upper is not None else None
    offs = [s_ for s_ in (lo.syms() if lo is not None else []) if not s_.startswith('<')]
    good = False
    offv = offs[0] if len(offs) == 1 else None
    inc_nodes = []
    if offv and lo == Lin.sym(offv) and hi is not None and hi == Lin.sym(offv) + K:
        for s_ in iter_nodes(er.binder.node):
            if isinstance(s_, ast.AugAssign) and isinstance(s_.target, ast.Name) and s_.target.id == offv and isinstance(s_.op, ast.Add):
                if const_int(s_.value) == K:
                    inc_nodes.append(s_)
                else:
                    inc_nodes.append(None)
            elif isinstance(s_, ast.Assign) and len(s_.targets) == 1 and isinstance(s_.targets[0], ast.Name) and s_.targets[0].id == offv:
                v = routes.lin(rd, s_.value, s_, pmr)
                inc_nodes.append(s_ if v is not None and v == Lin.sym(offv) + K else None)
        if len(inc_nodes) == 1 and inc_nodes[0] is not None:
            # the increment is governed by the subset filter only (not by `data is not None`)
            ei = keyenum.enumeration(rd, inc_nodes[0], {pr: 'PEER'}, model=model)
            b2, g2 = routes._context(rd, inc_nodes[0], pmr)
            extra = [t for t, tv in g2 if not any(isinstance(x, ast.Name) and x.id == er.var for x in ast.walk(t))]
            if ei is not None and ei.filters == er.filters and not extra:
                good = True
    # positional form: the k-th expected subset (k = its position in the list of expected subsets) gets data[K*k : K*(k+1)]
    positional = None
    eb = er.binder
    if not good and eb.kind == 'enum' and eb.start == 0 and lo is not None and hi is not None and lo == Lin.sym(eb.pos) * K and hi == lo + K \
            and isinstance(eb.src, ast.Name):
        b2, g2 = routes._context(rd, sls[0], pmr)
        if not [t for t, tv in g2 if any(isinstance(x, ast.Name) and x.id in (eb.pos, eb.elem) for x in ast.walk(t))]:
            positional = eb.src.id
            good = True
    if good:
        rep.ok('HS1', rd, sls[0], f'reader cuts {K}-byte keys (= token_bytes({K})) at consecutive offsets, counted for every expected subset')
    else:
        rep.bad('HS1', rd, sls[0], f'reader does not cut the key stream into consecutive {K}-byte keys counted once per expected subset')
    # offset starts at 0 and the total is returned
    init = [s_ for s_ in rd.node.body if isinstance(s_, ast.Assign) and offv and norm(s_.targets[0]) == offv]
    rets = [r for r in iter_nodes(rd.node) if isinstance(r, ast.Return)]
    tot = to_lin(ast.parse(f'{K} * len({positional})', mode='eval').body, opaque=True) if positional else None
    if positional and rets and all(r.value is not None and to_lin(r.value, opaque=True) == tot for r in rets) \
            and all(astq.reaching_definitions(rd.node, positional, r, pmr) == astq.reaching_definitions(rd.node, positional, eb.node, pmr) for r in rets):
        rep.ok('HS1', rd, rets[0], f'the total returned is {K} bytes per expected subset (the same list that is stored from), whether or not data is given')
    elif init and const_int(init[0].value) == 0 and rets and all(r.value is not None and norm(r.value) == offv for r in rets):
        rep.ok('HS1', rd, rets[0], 'size-only call and storing call walk the same enumeration (one function), total length returned')
    else:
        rep.bad('HS1', rd, rd.qualname, 'the reader does not start at offset 0 / does not return the total key length', rd.node)
    # store target keyed by subset
    par = pmr.get(id(sls[0]))
    if isinstance(par, ast.Assign) and par.value is sls[0] and isinstance(par.targets[0], ast.Subscript) and norm(par.targets[0].value) == 'self._prss_keys' \
            and norm(par.targets[0].slice) == er.var:
        rep.ok('HS1', rd, par, 'received key stored under its subset')
    else:
        rep.bad('HS1', rd, sls[0], 'received key is not stored under the subset it belongs to')
    dr = model.func(EX + '.data_received')
    pmd = parents(dr.node)
    # pid encoding
    cm = model.func(EX + '.connection_made')
    dr = model.func(EX + '.data_received')
    tb = calls_named(cm.node, 'to_bytes')
    fb = calls_named(dr.node, 'from_bytes')
    if len(tb) != 1 or len(fb) != 1:
        raise AnalysisError('HS1: pid encode/decode calls not found')
    w, order = const_int(tb[0].args[0]), norm(tb[0].args[1])
    sl = fb[0].args[0]
    rw = const_int(sl.slice.upper) if isinstance(sl, ast.Subscript) and isinstance(sl.slice, ast.Slice) else None
    rorder = norm(fb[0].args[1]) if len(fb[0].args) > 1 else None
    if w == rw and order == rorder:
        rep.ok('HS1', dr, fb[0], f'party id: {w} bytes {order} on both sides')
    else:
        rep.bad('HS1', dr, fb[0], f'party id written as {w} bytes {order} but read as {rw} bytes {rorder}')
    pmd = parents(dr.node)
    # del data[:w] for the pid, guard len(data) < w
    dels = [s for s in iter_nodes(dr.node) if isinstance(s, ast.Delete) and isinstance(s.targets[0], ast.Subscript)
            and isinstance(s.targets[0].slice, ast.Slice) and const_int(s.targets[0].slice.upper) is not None]
    if any(const_int(s.targets[0].slice.upper) == w for s in dels) and all(const_int(s.targets[0].slice.upper) == w for s in dels):
        rep.ok('HS1', dr, dels[0], f'exactly the {w} pid bytes are removed')
    else:
        rep.bad('HS1', dr, dels[0] if dels else dr.qualname, f'the bytes removed for the party id are not the {w} bytes that were written', dr.node)
    # both sides under the same no_prss test
    wcall = calls_named(cm.node, '_prss_keys_to_peer')
    rcalls = calls_named(dr.node, '_prss_keys_from_peer')
    pmc = parents(cm.node)

    from . import cond

    def prss_ctx(fn, node, pmx):
        """path condition of node, restricted to the PRSS option"""
        return cond.project(cond.context(fn, node, pmx), lambda a: a.endswith('.no_prss'))        # the option itself, not a test that mentions it
    # (a helper inlined into both branches of a test can repeat a call; copies on contradictory paths do not count)
    rcalls = [c for c in rcalls if cond.satisfiable(cond.context(dr, c, pmd))]
    if len(wcall) == 1 and len(rcalls) >= 2 and sorted({len(c.args) for c in rcalls}) == [1, 2] and len({norm(c) for c in rcalls}) == 2:
        gwr = prss_ctx(cm, wcall[0], pmc)
        if 'no_prss' in cond.fmt(gwr) and all(cond.equivalent(prss_ctx(dr, c, pmd), gwr) for c in rcalls):
            rep.ok('HS1', dr, rcalls[0], f'keys are written and read under the same option test ({cond.fmt(gwr)})')
        else:
            rep.bad('HS1', dr, rcalls[0], 'key sending and key reading are not governed by the same no_prss test: one side sends keys the other does not expect')
        # size call has no data, store call has the buffer; same peer argument
        a0 = {norm(routes.xp(dr, c.args[0], c, pmd)) for c in rcalls}
        if len(a0) == 1 and sorted({len(c.args) for c in rcalls}) == [1, 2]:
            rep.ok('HS1', dr, rcalls[1], 'length computed and keys stored for the same peer id')
        else:
            rep.bad('HS1', dr, rcalls[1], 'length computation and key storing use different peers / arities')
        # writer: the keys are appended to the list that starts with the pid, sent in one writelines
        wl = calls_named(cm.node, 'writelines')
        okw = False
        if len(wl) == 1 and wl[0].args:
            # every list the handshake can consist of, with its condition: display, concatenation, `*keys`, extend / += alike
            alts = _list_alternatives(cm, wl[0].args[0], wl[0], pmc)
            okw = bool(alts)
            for fa, items in alts:
                want_pid, want_keys = norm(routes.xp(cm, tb[0], tb[0], pmc)), norm(routes.xp(cm, wcall[0], wcall[0], pmc))
                is_pid = bool(items) and items[0][0] == 'elt' and any(isinstance(c, ast.Call) and norm(c) == want_pid
                                                                     for c in ast.walk(routes.xp(cm, items[0][1], wl[0], pmc)))
                with_keys = cond.satisfiable(cond.conj([fa, gwr]))
                without = cond.satisfiable(cond.conj([fa, cond.neg(gwr)]))
                keys = len(items) == 2 and items[1][0] == 'splice' and any(isinstance(c, ast.Call) and norm(c) == want_keys for c in ast.walk(routes.xp(cm, items[1][1], wl[0], pmc)))
                if not is_pid or (with_keys and not keys) or (without and not with_keys and len(items) != 1) or (with_keys and without):
                    okw = False
        if okw:
            rep.ok('HS1', cm, wcall[0], 'pid followed by the keys, in enumeration order')
        else:
            rep.bad('HS1', cm, wcall[0], 'the keys are not appended after the pid in one handshake')
    else:
        raise AnalysisError('HS1: handshake calls (_prss_keys_to_peer x1, _prss_keys_from_peer x2) not found')


def _list_alternatives(fn, e, use, pm):
    """[(formula, items)]: the lists expression e can denote at `use`, each as its sequence of items ('elt', node) / ('splice', node)
    with the condition under which it is that list.  Follows value cases of a name, displays (with `*x`), concatenations
    (`+`, `+=`) and the `append` / `extend` calls between a definition and the use."""
    from . import cond

    def flat(v):
        if isinstance(v, (ast.List, ast.Tuple)):
            return [('splice', x.value) if isinstance(x, ast.Starred) else ('elt', x) for x in v.elts]
        if isinstance(v, ast.BinOp) and isinstance(v.op, ast.Add):
            a, b = flat(v.left), flat(v.right)
            return None if a is None or b is None else a + b
        if isinstance(v, ast.Call) and isinstance(v.func, ast.Name) and v.func.id in ('list', 'tuple') and len(v.args) == 1:
            return [('splice', v.args[0])]
        if isinstance(v, (ast.Name, ast.Call, ast.Attribute, ast.Subscript)):
            return [('splice', v)]
        return None
    if not isinstance(e, ast.Name):
        items = flat(e)
        return [(cond.TRUE, items)] if items is not None else []
    alts = []
    for f, v, st in cond.value_cases(fn, e, use, pm):
        if isinstance(v, ast.Name) and v.id == e.id:
            return []
        items = flat(v)
        if items is None:
            return []
        alts.append((f, items, st))
    muts = []
    for c in iter_nodes(fn.node):
        if isinstance(c, ast.Call) and isinstance(c.func, ast.Attribute) and isinstance(c.func.value, ast.Name) and c.func.value.id == e.id \
                and c.func.attr in ('append', 'extend', 'insert', 'pop', 'remove', 'clear', 'sort', 'reverse') and astq.position(c) < astq.position(use):
            muts.append(c)
    muts.sort(key=astq.position)
    out = []
    for f, items, st in alts:
        cur = [(f, items)]
        for m_ in muts:
            if astq.position(m_) < astq.position(st):
                continue
            if m_.func.attr not in ('append', 'extend') or len(m_.args) != 1:
                return []
            cm_ = cond.context(fn, m_, pm)
            nxt = []
            for g, its in cur:
                yes, no = cond.conj([g, cm_]), cond.conj([g, cond.neg(cm_)])
                if cond.satisfiable(yes):
                    nxt.append((yes, its + [('elt' if m_.func.attr == 'append' else 'splice', m_.args[0])]))
                if cond.satisfiable(no):
                    nxt.append((no, its))
            cur = nxt
        out += cur
    return out


# ------------------------------------------------------------------------------------------ KEY1
def rule_KEY1(ctx, rep):
    """PRSS key ownership: who generates, who may write, to whom keys go, cache invalidation,
    client direction."""
    model = ctx.model
    setter = model.func('runtime::Runtime.threshold')
    if 'setter' not in ' '.join(setter.decorators):
        raise AnalysisError('KEY1: runtime::Runtime.threshold does not resolve to the property setter')
    from . import keyenum, routes
    pm = parents(setter.node)
    toks = calls_named(setter.node, 'token_bytes')
    if len(toks) != 1:
        raise AnalysisError('KEY1: secrets.token_bytes call not found in the threshold setter')
    tok = toks[0]
    tparam = setter.params[1]
    # t in the setter is the new threshold parameter, stored as self._threshold before the keys are generated
    stores = [s for s in iter_nodes(setter.node) if isinstance(s, ast.Assign) and norm(s.targets[0]) == 'self._threshold' and norm(s.value) == tparam]
    getter_ok = False
    for k, c in model.classes.items():
        if k == 'runtime::Runtime':
            for n in c.body:
                if isinstance(n, ast.FunctionDef) and n.name == 'threshold' and n is not setter.node:
                    r = [x for x in iter_nodes(n) if isinstance(x, ast.Return)]
                    getter_ok = bool(r) and norm(r[0].value) == 'self._threshold'
    en = keyenum.enumeration(setter, tok, model=model)
    lp = en.binder.node if en is not None else tok
    if en is None:
        rep.bad('KEY1', setter, tok, 'the key stored for a subset is not a fresh secrets.token_bytes() draw per subset (the draw is outside the enumeration '
                'of subsets): one key is shared by several subsets, so a member of one subset knows the keys of others')
        rep.bad('KEY1', setter, tok, 'keys are not generated over the enumeration of (m-t)-subsets used by the handshake')
    else:
        want = cnorm_text('itertools.combinations(range(M), M - ' + tparam + ')')
        # (after `self._threshold = t`, `self.threshold` -- written T -- is that same t: the getter returns self._threshold)
        want_T = cnorm_text('itertools.combinations(range(M), M - T)')
        if en.base_txt in (want, want_T) and stores and getter_ok and astq.position(stores[0]) < astq.position(lp) \
                and not any(isinstance(s_, ast.Assign) and norm(s_.targets[0]) == 'self._threshold' and s_ is not stores[0] for s_ in iter_nodes(setter.node)):
            rep.ok('KEY1', setter, lp, 'keys generated over the same subset enumeration as the handshake, for the threshold just stored')
        else:
            rep.bad('KEY1', setter, lp, f'key generation enumerates {en.base_txt} (expected {want} with the threshold just stored): parties disagree on which subsets have keys')
        if en.filters == {cnorm_text('S[0] == self.pid')}:
            rep.ok('KEY1', setter, tok, 'a key is generated by exactly one party: the lowest member of the subset')
        else:
            rep.bad('KEY1', setter, lp, f'keys are generated under {sorted(en.filters)}, not exactly by the lowest member of each subset (the party that is client to all other members)')
        rep.ok('KEY1', setter, tok, 'a fresh CSPRNG key per subset (drawn inside the enumeration)')
    # stored under its subset, in a table that starts empty and is installed as self._prss_keys
    par = pm.get(id(tok))
    kd = None
    fresh_table = False
    if en is not None and isinstance(par, ast.Assign) and par.value is tok and isinstance(par.targets[0], ast.Subscript) and norm(par.targets[0].slice) == en.var:
        kd = norm(par.targets[0].value)
        init = astq.sole_definition(setter.node, kd) if kd.isidentifier() else None
        fresh_table = isinstance(init, ast.Dict) and not init.keys
    elif en is not None and isinstance(par, ast.DictComp) and par.value is tok and norm(par.key) == en.var:
        p2 = pm.get(id(par))
        if isinstance(p2, ast.Assign) and p2.value is par:
            kd = norm(p2.targets[0])
            fresh_table = True
    inst = [s for s in iter_nodes(setter.node) if isinstance(s, ast.Assign) and norm(s.targets[0]) == 'self._prss_keys']
    if kd and (kd == 'self._prss_keys' or (len(inst) == 1 and norm(inst[0].value) == kd)):
        if fresh_table:
            rep.ok('KEY1', setter, inst[0] if inst else tok, 'old keys are dropped when the threshold changes')
        else:
            rep.bad('KEY1', setter, inst[0] if inst else tok, 'the new key table does not start empty')
    else:
        rep.bad('KEY1', setter, setter.qualname, 'generated keys are not installed as self._prss_keys under their subset', setter.node)
    # cache invalidation on the generating path
    cc = [c for c in calls_named(setter.node, 'cache_clear') if norm(c.func.value) == 'self.prfs']
    from . import cond
    # the cache is cleared on every path on which new keys are installed (path conditions as formulas)
    gen_ctx = cond.context(setter, tok, pm)
    okcc = False
    for c_ in cc:
        if enclosing_loops(c_, pm, stop=setter.node):
            continue
        if not cond.satisfiable(cond.conj([gen_ctx, cond.neg(cond.context(setter, c_, pm))])):
            okcc = True
    if okcc:
        rep.ok('KEY1', setter, cc[0], 'cached PRFs are invalidated whenever keys are regenerated')
    else:
        rep.bad('KEY1', setter, setter.qualname, 'PRFs cached by prfs() are not invalidated when the keys are regenerated: after a threshold '
                'change PRSS keeps using the old subsets and keys', setter.node)
    prfs = model.func('runtime::Runtime.prfs')
    if any('cache' in d for d in prfs.decorators):
        from . import routes
        pmp = parents(prfs.node)
        mk = [c for c in iter_nodes(prfs.node) if isinstance(c, ast.Call) and attr_tail(c.func) == 'PRF']
        good = False
        if len(mk) == 1:
            binders, guards = routes._context(prfs, mk[0], pmp)
            b = [x for x in binders if x.kind == 'iter' and x.value_var and norm(x.src) == 'self._prss_keys']
            if len(b) == 1 and len(binders) == 1 and not guards:
                sv, kv = b[0].elem, b[0].value_var
                par = pmp.get(id(mk[0]))
                keyed = (isinstance(par, ast.Assign) and par.value is mk[0] and isinstance(par.targets[0], ast.Subscript) and norm(par.targets[0].slice) == sv) or \
                    (isinstance(par, ast.DictComp) and par.value is mk[0] and norm(par.key) == sv)
                good = keyed and len(mk[0].args) >= 2 and norm(mk[0].args[0]) == kv and norm(mk[0].args[1]) == prfs.params[1]
        if good:
            rep.ok('KEY1', prfs, mk[0], 'one PRF per held key, keyed by its subset, with the requested bound')
        else:
            rep.bad('KEY1', prfs, prfs.qualname, 'prfs() is not "one PRF per held key, keyed by its subset"', prfs.node)
    # who writes _prss_keys
    nwrites = 0
    for k, fn in sorted(model.funcs.items()):
        for n in iter_nodes(fn.node):
            tg = []
            if isinstance(n, ast.Assign):
                tg = n.targets
            elif isinstance(n, (ast.AugAssign, ast.AnnAssign)):
                tg = [n.target]
            elif isinstance(n, ast.Delete):
                tg = n.targets
            for t in tg:
                for x in ast.walk(t):
                    if isinstance(x, ast.Attribute) and x.attr == '_prss_keys':
                        nwrites += 1
                        if fn.key in ('runtime::Runtime.threshold', 'runtime::Runtime._prss_keys_from_peer'):
                            rep.ok('KEY1', fn, n, 'write to the key table by its owner module')
                        else:
                            rep.bad('KEY1', fn, n, 'the PRSS key table is written outside the threshold setter / handshake reader')
            if isinstance(n, ast.Call) and isinstance(n.func, ast.Attribute) and n.func.attr in ('update', 'pop', 'clear', 'setdefault', 'popitem') \
                    and isinstance(n.func.value, ast.Attribute) and n.func.value.attr == '_prss_keys':
                rep.bad('KEY1', fn, n, 'the PRSS key table is mutated outside the threshold setter / handshake reader')
    if nwrites < 2:
        raise AnalysisError('KEY1: writes to _prss_keys not found')
    # who reads: only the writer-to-peer, prfs
    for k, fn in sorted(model.funcs.items()):
        if fn.key in ('runtime::Runtime.threshold', 'runtime::Runtime._prss_keys_from_peer', 'runtime::Runtime._prss_keys_to_peer', 'runtime::Runtime.prfs'):
            continue
        for n in iter_nodes(fn.node):
            if isinstance(n, ast.Attribute) and n.attr == '_prss_keys':
                rep.bad('KEY1', fn, n, 'PRSS keys are read outside the handshake writer and prfs(): possible leak to a non-member')
    # client direction in start(): connect to parties with larger pid only
    st = model.func('runtime::Runtime.start')
    conns = calls_named(st.node, 'create_connection')
    pms = parents(st.node)
    if len(conns) != 1:
        raise AnalysisError('KEY1: create_connection call not found in Runtime.start')
    fl = [l for l in enclosing_loops(conns[0], pms, stop=st.node) if isinstance(l, ast.For)]
    if fl and norm(fl[-1].iter) == 'self.parties[self.pid + 1:]':
        rep.ok('KEY1', st, fl[-1].iter, 'this party is client exactly towards parties with a larger id (the owner min(S) is client of every other member)')
    else:
        rep.bad('KEY1', st, conns[0], 'the client role is not taken exactly towards parties with larger pid: the owner of a subset key is not the client '
                'of all other members, so some members never receive the key')
    # client passes the peer id to its exchanger, server does not
    mk = [c for c in ast.walk(st.node) if isinstance(c, ast.Call) and attr_tail(c.func) == 'MessageExchanger']
    arities = sorted(len(c.args) for c in mk)
    if arities == [1, 2]:
        rep.ok('KEY1', st, mk[0], 'server-side exchanger learns the peer from the handshake, client-side knows it')
    else:
        rep.bad('KEY1', st, st.qualname, 'client/server exchangers are not constructed as MessageExchanger(self[, peer.pid])', st.node)


# ------------------------------------------------------------------------------------------ CR
def rule_CR2(ctx, rep):
    """a waiting receive is completed only by a complete frame (and only in data_received)."""
    model = ctx.model
    f = _frame_facts(ctx)
    dr = f['rcv']
    pm = parents(dr.node)
    n = 0
    for k, fn in sorted(model.funcs.items()):
        if fn.module != 'asyncoro' or fn.cls != 'MessageExchanger':
            continue
        for c in calls_named(fn.node, 'set_result') + calls_named(fn.node, 'set_exception'):
            n += 1
            if fn is not dr:
                rep.bad('CR2', fn, c, 'a receive Future is completed outside data_received')
                continue
            # must be after the completeness guard inside the frame loop
            lp = [a for a in ancestors(c, pm) if isinstance(a, ast.While)]
            guards = [s for s in (lp[0].body if lp else []) if isinstance(s, ast.If) and _len_guard(s.test, {'data', 'self.bytes'})
                      and _len_guard(s.test, {'data', 'self.bytes'})[0] in (ast.Lt, ast.LtE)
                      and any(isinstance(x, (ast.Break, ast.Return)) for x in s.body)]
            if lp and guards and astq.position(guards[0]) < astq.position(c) and \
                    (not astq._contains(guards[0], c) or any(astq._contains(x, c) for x in guards[0].orelse)):
                rep.ok('CR2', fn, c, 'completed only after the whole frame is known to be buffered')
            else:
                rep.bad('CR2', fn, c, 'a receive can be completed before the frame is complete (a peer crashing mid-message would deliver garbage)')
    if n < 1:
        raise AnalysisError('CR2: no completion of receive Futures found in MessageExchanger')


def _list_size(fn, e, use, pm, depth=0):
    """canonical text for the number of elements of list expression e at `use` (None when two zipped lists may differ in length)"""
    from . import routes
    if depth > 6:
        return cnorm(e)
    if isinstance(e, ast.Name):
        ds = [d for d in astq.reaching_definitions(fn.node, e.id, use, pm) if d[0] is not use]
        if len(ds) == 1 and ds[0][1] is not None and ds[0][2] == 'assign':
            v = ds[0][1]
            if isinstance(v, ast.Await) and isinstance(v.value, ast.Call) and attr_tail(v.value.func) == 'gather' and len(v.value.args) == 1:
                return _list_size(fn, v.value.args[0], ds[0][0], pm, depth + 1)       # gather keeps the length
            return _list_size(fn, v, ds[0][0], pm, depth + 1)
        return cnorm(e)
    if isinstance(e, ast.Call) and isinstance(e.func, ast.Name) and e.func.id in ('list', 'tuple', 'sorted', 'reversed') and len(e.args) == 1:
        return _list_size(fn, e.args[0], use, pm, depth + 1)
    if isinstance(e, (ast.ListComp, ast.GeneratorExp)) and len(e.generators) == 1 and not e.generators[0].ifs:
        g = e.generators[0]
        bb = routes.binder_of(fn, g.target, g.iter, use, pm, use)
        return _binder_size(fn, bb, pm, depth + 1, use) if bb is not None else None
    return cnorm(routes.xp(fn, e, use, pm))


def _binder_size(fn, b, pm, depth=0, use=None):
    """canonical text for the number of iterations of binder b"""
    use = use if use is not None else b.node
    if b.kind == 'range':
        return repr(b.hi - b.lo + 1)
    if b.kind in ('iter', 'enum') and b.src is not None:
        return _list_size(fn, b.src, use, pm, depth + 1)
    if b.kind == 'zip':
        sizes = {_list_size(fn, s_, use, pm, depth + 1) for s_ in b.srcs}
        return sizes.pop() if len(sizes) == 1 else None
    return None


def rule_CR3(ctx, rep):
    """output needs all t foreign shares: recombination is dominated by the await of all of them."""
    from . import rules_rt, routes
    model = ctx.model
    fn, evs, cases = rules_rt._summary(ctx, 'output')
    pm = parents(fn.node)
    rec = [c for c in iter_nodes(fn.node) if isinstance(c, ast.Call) and isinstance(c.func, ast.Name) and c.func.id == 'recombine']
    if len(rec) != 1:
        raise AnalysisError('CR3: recombine call not found in Runtime.output')
    pts = rec[0].args[1]
    if not isinstance(pts, ast.Name):
        raise AnalysisError('CR3: points argument is not a name')
    recvs = [e for e in evs if e.kind == 'recv']
    if len(recvs) != 1 or recvs[0].slot is None:
        raise AnalysisError('CR3: receive site not found in output')
    r = recvs[0]
    tuples = rules_rt._point_tuples(fn, pts.id, pm)
    foreign = [t for t in tuples if not routes.is_self(rules_rt._plus_one(routes.xp(fn, t.elts[0], t, pm)) or ast.Constant(value=0))]
    if not foreign:
        raise AnalysisError('CR3: points built from received shares not found')
    # one point per requested share: the points range over as many positions as receives are posted, unfiltered
    ok1 = True
    for t in foreign:
        b_p, g_p = routes._context(fn, t, pm)
        b_r = r.binders
        if len(b_p) != 1 or len(b_r) != 1 or [g for g in g_p if any(isinstance(x, ast.Name) and x.id in b_p[0].names() for x in ast.walk(g[0]))]:
            ok1 = False
            continue
        sp, sr = _binder_size(fn, b_p[0], pm), _binder_size(fn, b_r[0], pm)
        if sp is None or sr is None or sp != sr:
            ok1 = False
    comp_site = foreign[0]
    if ok1:
        rep.ok('CR3', fn, comp_site, 'one point per requested share, no filtering')
    else:
        rep.bad('CR3', fn, comp_site, 'the points used for recombination are not one per requested share (missing shares would be silently skipped)')
    # the list of futures is awaited (gather) before the points are built, in the same branch
    lv = r.slot[1]
    st = r.slot[3] if len(r.slot) > 3 and r.slot[3] is not None else astq.enclosing_stmt(r.node, pm)
    aw = [s_ for s_ in iter_nodes(fn.node) if isinstance(s_, ast.Assign) and isinstance(s_.value, ast.Await) and isinstance(s_.value.value, ast.Call)
          and attr_tail(s_.value.value.func) == 'gather' and lv and any(norm(a) == lv for a in s_.value.value.args)]
    if getattr(r, 'gathered', None) is not None:
        aw = [r.gathered]             # the futures are awaited in the statement that posts the receives
    pst = astq.enclosing_stmt(foreign[0], pm)
    awname = aw[0].targets[0].id if aw and isinstance(aw[0].targets[0], ast.Name) else ''
    def reads_awaited(t):
        """does the point tuple take its share from the awaited list -- by index, or as the element enumerated / zipped from it"""
        if mentions_name(t, awname):
            return True
        for b in routes._context(fn, t, pm)[0]:
            for nm in b.names():
                src = b.src_of(nm)
                if src is not None and mentions_name(t, nm) and mentions_name(src, awname):
                    return True
        return False
    if aw and (st is aw[0] or astq.position(st) < astq.position(aw[0])) and astq.position(aw[0]) < astq.position(pst) and any(reads_awaited(t) for t in foreign):
        rep.ok('CR3', fn, aw[0], 'all requested shares are awaited before recombination')
    else:
        rep.bad('CR3', fn, rec[0], 'recombination is not preceded by an await of all requested shares')
    # no exception handler / timeout replaces a missing share
    bad = [n for n in iter_nodes(fn.node) if isinstance(n, ast.Try)] + calls_named(fn.node, 'wait_for') + calls_named(fn.node, 'wait')
    if bad:
        rep.bad('CR3', fn, bad[0], 'output contains a handler/timeout that can replace a missing share by something else')
    else:
        rep.ok('CR3', fn, 'no try/timeout in output', 'a missing share can only leave the output pending', fn.node)


def rule_CR4(ctx, rep):
    """a lost connection surfaces (is re-raised), a normal close deregisters."""
    fn = ctx.model.func(EX + '.connection_lost')
    p = fn.params[1]
    ifs = [s for s in fn.node.body if isinstance(s, ast.If) and norm(s.test) in (p, f'{p} is not None')]
    if ifs and any(isinstance(x, ast.Raise) and x.exc is not None and norm(x.exc) == p for x in ifs[0].body):
        rep.ok('CR4', fn, ifs[0], 'an unexpected disconnect is raised, not swallowed')
    else:
        rep.bad('CR4', fn, fn.qualname, 'connection_lost(exc) does not re-raise the exception: a crashed peer goes unnoticed', fn.node)
    un = calls_named(fn.node, 'unset_protocol')
    if un:
        rep.ok('CR4', fn, un[0], 'normal close deregisters the peer')
    else:
        rep.bad('CR4', fn, fn.qualname, 'a closed connection is not deregistered (shutdown never completes)', fn.node)
