"""Developer tool: print the markdown table of the seeded corpus (DESIGN.md section 7) from seeded/*/meta.json."""
import json
import sys

from .mutants import seeded_list
from .props import PROPS


def main():
    rows = []
    own = tot = 0
    for sid, m, patch in seeded_list():
        det = m.get('detected_by', {})
        prop = m['property']
        first = ''
        if prop in det and det[prop]:
            first = det[prop][0].split()[0]
        what = ' '.join(str(m.get('what_changed', '')).split())
        what = what[:117] + '…' if len(what) > 118 else what
        what = what.replace('|', '/')
        tot += 1
        own += prop in det
        rows.append(f'| {sid} | {what} | {first if prop in det else "**missed**"} | {", ".join(sorted(det)) or "—"} |')
    print(f'<!-- {own} of {tot} reported by the check of the property they were written against -->')
    print('| seeded | change (abridged) | first rule | reported by |')
    print('|---|---|---|---|')
    print('\n'.join(rows))


if __name__ == '__main__':
    main()
