"""Developer tool: print the canonical form of functions as the rules see them.  python -m mpv.showfn module::Qual ..."""
import ast
import os
import sys

os.environ.setdefault('MPV_NOCACHE', '1')
from .core import load_model


def main(argv):
    m = load_model()
    for k in argv:
        f = m.func(k)
        print(f'# {k}')
        print(ast.unparse(f.node))
        print()


if __name__ == '__main__':
    main(sys.argv[1:])
