"""Analysis context: the source model plus lazily built shared analyses."""
from .core import load_model, Model


class Ctx:
    def __init__(self, model=None, repo=None, overrides=None):
        self.model = model or load_model(repo, overrides)
        self._flow = None
        self._pai = None
        self.cache = {}

    @property
    def flow(self):
        if self._flow is None:
            from .flow import FlowAnalysis
            self._flow = FlowAnalysis(self.model)
        return self._flow
