"""Subset enumerations of the PRSS key layer, independent of spelling.

For an anchor node (the `token_bytes` draw, the key that is sent, the slice that is stored) `enumeration()` returns the
iteration over key subsets that governs it: the base generator (normally itertools.combinations(range(m), m - t), found
through local names, list()/sorted() wrappers and filtering comprehensions), the loop variable and the set of filter
conjuncts on that variable -- whether the code uses a for statement with an if, an early `continue`, or a (dict / list)
comprehension, possibly over a pre-filtered list."""
import ast
import copy

from .core import norm, cnorm, AnalysisError
from . import astq, sem, routes
from .astq import parents, reaching_definitions, attr_tail


class _Rename(ast.NodeTransformer):
    def __init__(self, m):
        self.m = m

    def visit_Name(self, n):
        if n.id in self.m:
            return ast.copy_location(ast.Name(id=self.m[n.id], ctx=n.ctx), n)
        return n


def rename(e, m):
    return _Rename(m).visit(copy.deepcopy(e))


def _resolve_iter(fn, e, use, pm, var, depth=0):
    """(base iterable expr, [filter exprs over `var`]) of the iterable e of a loop `for var in e`."""
    if depth > 6:
        return e, []
    if isinstance(e, ast.Call) and isinstance(e.func, ast.Name) and e.func.id in ('list', 'tuple', 'sorted', 'iter') and len(e.args) == 1 and not e.keywords:
        return _resolve_iter(fn, e.args[0], use, pm, var, depth + 1)
    if isinstance(e, ast.Name):
        ds = reaching_definitions(fn.node, e.id, use, pm)
        if len(ds) == 1 and ds[0][2] == 'assign' and ds[0][1] is not None:
            return _resolve_iter(fn, ds[0][1], ds[0][0], pm, var, depth + 1)
        return e, []
    if isinstance(e, (ast.ListComp, ast.GeneratorExp, ast.SetComp)) and len(e.generators) == 1:
        g = e.generators[0]
        if isinstance(g.target, ast.Name) and isinstance(e.elt, ast.Name) and e.elt.id == g.target.id:
            base, fl = _resolve_iter(fn, g.iter, use, pm, var, depth + 1)
            return base, fl + [rename(c, {g.target.id: var}) for c in g.ifs]
    return e, []


class Enum:
    def __init__(self):
        self.var = None           # loop variable (a subset)
        self.base = None          # base iterable expression (expanded)
        self.base_txt = None      # canonical text with T/M symbols
        self.filters = set()      # canonical conjunct texts with the variable written S
        self.filter_nodes = []
        self.binder = None
        self.other = []           # texts of other binders around the anchor

    def __repr__(self):
        return f'{self.base_txt} | {sorted(self.filters)}'


def enumeration(fn, anchor, renames=None):
    """The subset enumeration governing `anchor` (see module doc); None if the anchor is not inside any iteration."""
    pm = parents(fn.node)
    binders, guards = routes._context(fn, anchor, pm)
    its = [b for b in binders if b.kind in ('iter', 'enum')]
    if not its:
        return None
    # the innermost iteration whose base is a combinations(..) call, else the innermost one
    chosen = None
    for b in reversed(its):
        base, fl = _resolve_iter(fn, b.src, b.node, pm, b.elem)
        if isinstance(base, ast.Call) and attr_tail(base.func) == 'combinations':
            chosen = (b, base, fl)
            break
    if chosen is None:
        b = its[-1]
        base, fl = _resolve_iter(fn, b.src, b.node, pm, b.elem)
        chosen = (b, base, fl)
    b, base, fl = chosen
    en = Enum()
    en.binder = b
    en.var = b.elem
    en.base = routes.xp(fn, base, b.node, pm)
    en.base_txt = cnorm(sem.symx(en.base))
    en.other = [repr(x) for x in binders if x is not b]
    ren = {b.elem: 'S'}
    ren.update(renames or {})
    conj = []
    for t in fl:
        conj += sem._atoms(t, True) or [(t, True)]
    for t, tv in guards:
        conj += sem._atoms(t, tv) or [(t, tv)]
    for t, tv in conj:
        if not any(isinstance(x, ast.Name) and x.id == b.elem for x in ast.walk(t)):
            continue
        t2 = rename(routes.xp(fn, t, anchor, pm), ren)
        txt = cnorm(t2)
        if not tv:
            txt = cnorm(ast.UnaryOp(op=ast.Not(), operand=t2))
            # normalise `not a == b` / `not a in b`
            if isinstance(t2, ast.Compare) and len(t2.ops) == 1:
                inv = {ast.Eq: ast.NotEq, ast.NotEq: ast.Eq, ast.In: ast.NotIn, ast.NotIn: ast.In, ast.Is: ast.IsNot, ast.IsNot: ast.Is}
                k = type(t2.ops[0])
                if k in inv:
                    txt = cnorm(ast.Compare(left=t2.left, ops=[inv[k]()], comparators=t2.comparators))
        en.filters.add(txt)
        en.filter_nodes.append(t)
    return en
