"""Subset enumerations of the PRSS key layer, independent of spelling.

For an anchor node (the `token_bytes` draw, the key that is sent, the slice that is stored) `enumeration()` returns the
iteration over key subsets that governs it: the base generator (normally itertools.combinations(range(m), m - t), found
through local names, list()/sorted() wrappers and filtering comprehensions), the loop variable and the set of filter
conjuncts on that variable -- whether the code uses a for statement with an if, an early `continue`, or a (dict / list)
comprehension, possibly over a pre-filtered list."""
import ast
import copy

from .core import norm, cnorm, AnalysisError
from . import astq, sem, routes
from .astq import parents, reaching_definitions, attr_tail


class _Rename(ast.NodeTransformer):
    def __init__(self, m):
        self.m = m

    def visit_Name(self, n):
        if n.id in self.m:
            return ast.copy_location(ast.Name(id=self.m[n.id], ctx=n.ctx), n)
        return n


def rename(e, m):
    return _Rename(m).visit(copy.deepcopy(e))


MODEL = [None]          # the source model of the run (set by enumeration(); used to resolve generator helpers)


def _generator_helper(fn, call, use, pm):
    """`self.h(args)` where h is a method of the same class that only enumerates: `for v in BASE: [if F:] yield v` (after simple
    temporaries) or `return (v for v in BASE if F)`.  Returns (BASE, [F..], v) with the helper's temporaries expanded and its
    parameters replaced by the call's arguments; None otherwise."""
    model = MODEL[0]
    if model is None or not (isinstance(call, ast.Call) and isinstance(call.func, ast.Attribute) and isinstance(call.func.value, ast.Name)
                             and call.func.value.id == 'self' and fn.cls):
        return None
    h = model.funcs.get(f'{fn.module}::{fn.cls}.{call.func.attr}')
    if h is None or call.keywords or any(isinstance(a, ast.Starred) for a in call.args):
        return None
    params = [p for p in h.params if p not in ('self', 'cls')]
    if len(params) != len(call.args):
        return None
    hp = parents(h.node)
    body = [s_ for s_ in h.node.body if not (isinstance(s_, ast.Expr) and isinstance(s_.value, ast.Constant))]
    if not body or not all(isinstance(s_, ast.Assign) and len(s_.targets) == 1 and isinstance(s_.targets[0], ast.Name) for s_ in body[:-1]):
        return None
    last = body[-1]
    base = var = None
    filters = []
    if isinstance(last, ast.For) and isinstance(last.target, ast.Name) and not last.orelse and len(last.body) == 1:
        b = last.body[0]
        while isinstance(b, ast.If) and not b.orelse and len(b.body) == 1:
            filters.append((b.test, b))
            b = b.body[0]
        if isinstance(b, ast.Expr) and isinstance(b.value, ast.Yield) and isinstance(b.value.value, ast.Name) and b.value.value.id == last.target.id:
            base, var, at = last.iter, last.target.id, last
    elif isinstance(last, ast.Return) and isinstance(last.value, (ast.GeneratorExp, ast.ListComp)) and len(last.value.generators) == 1:
        g = last.value.generators[0]
        if isinstance(g.target, ast.Name) and isinstance(last.value.elt, ast.Name) and last.value.elt.id == g.target.id:
            base, var, at = g.iter, g.target.id, last
            filters = [(c, last) for c in g.ifs]
    if base is None:
        return None
    sub = {p: a for p, a in zip(params, call.args)}

    class S(ast.NodeTransformer):
        def visit_Name(self, n):
            return copy.deepcopy(sub[n.id]) if n.id in sub and isinstance(n.ctx, ast.Load) else n
    # the helper's temporaries are expanded where they are used; its parameters stand for the caller's arguments
    if any(p in {x.id for s_ in body for x in ast.walk(s_) if isinstance(x, ast.Name) and isinstance(x.ctx, ast.Store)} for p in params):
        return None
    base2 = S().visit(sem.expand(h, base, at, hp))
    fl2 = [S().visit(sem.expand(h, t, at_, hp)) for t, at_ in filters]
    return base2, fl2, var


def _resolve_iter(fn, e, use, pm, var, depth=0):
    """(base iterable expr, [filter exprs over `var`]) of the iterable e of a loop `for var in e`."""
    if depth > 6:
        return e, []
    gh = _generator_helper(fn, e, use, pm)
    if gh is not None:
        base, fl, v = gh
        b2, f2 = _resolve_iter(fn, base, use, pm, var, depth + 1)
        return b2, f2 + [rename(c, {v: var}) for c in fl]
    if isinstance(e, ast.Call) and isinstance(e.func, ast.Name) and e.func.id in ('list', 'tuple', 'sorted', 'iter') and len(e.args) == 1 and not e.keywords:
        return _resolve_iter(fn, e.args[0], use, pm, var, depth + 1)
    if isinstance(e, ast.Name):
        ds = reaching_definitions(fn.node, e.id, use, pm)
        if len(ds) == 1 and ds[0][2] == 'assign' and ds[0][1] is not None:
            return _resolve_iter(fn, ds[0][1], ds[0][0], pm, var, depth + 1)
        return e, []
    if isinstance(e, (ast.ListComp, ast.GeneratorExp, ast.SetComp)) and len(e.generators) == 1:
        g = e.generators[0]
        if isinstance(g.target, ast.Name) and isinstance(e.elt, ast.Name) and e.elt.id == g.target.id:
            base, fl = _resolve_iter(fn, g.iter, use, pm, var, depth + 1)
            return base, fl + [rename(c, {g.target.id: var}) for c in g.ifs]
    return e, []


class Enum:
    def __init__(self):
        self.var = None           # loop variable (a subset)
        self.base = None          # base iterable expression (expanded)
        self.base_txt = None      # canonical text with T/M symbols
        self.filters = set()      # canonical conjunct texts with the variable written S
        self.filter_nodes = []
        self.binder = None
        self.other = []           # texts of other binders around the anchor

    def __repr__(self):
        return f'{self.base_txt} | {sorted(self.filters)}'


def enumeration(fn, anchor, renames=None, model=None):
    """The subset enumeration governing `anchor` (see module doc); None if the anchor is not inside any iteration."""
    if model is not None:
        MODEL[0] = model
    pm = parents(fn.node)
    binders, guards = routes._context(fn, anchor, pm)
    its = [b for b in binders if b.kind in ('iter', 'enum')]
    if not its:
        return None
    # the innermost iteration whose base is a combinations(..) call, else the innermost one
    chosen = None
    for b in reversed(its):
        base, fl = _resolve_iter(fn, b.src, b.node, pm, b.elem)
        if isinstance(base, ast.Call) and attr_tail(base.func) == 'combinations':
            chosen = (b, base, fl)
            break
    if chosen is None:
        b = its[-1]
        base, fl = _resolve_iter(fn, b.src, b.node, pm, b.elem)
        chosen = (b, base, fl)
    b, base, fl = chosen
    en = Enum()
    en.binder = b
    en.var = b.elem
    en.base = routes.xp(fn, base, b.node, pm)
    en.base_txt = cnorm(sem.symx(en.base))
    en.other = [repr(x) for x in binders if x is not b]
    ren = {b.elem: 'S'}
    ren.update(renames or {})
    conj = []
    for t in fl:
        conj += sem._atoms(t, True) or [(t, True)]
    for t, tv in guards:
        conj += sem._atoms(t, tv) or [(t, tv)]
    for t, tv in conj:
        if not any(isinstance(x, ast.Name) and x.id == b.elem for x in ast.walk(t)):
            continue
        t2 = rename(routes.xp(fn, t, anchor, pm), ren)
        txt = cnorm(t2)
        if not tv:
            txt = cnorm(ast.UnaryOp(op=ast.Not(), operand=t2))
            # normalise `not a == b` / `not a in b`
            if isinstance(t2, ast.Compare) and len(t2.ops) == 1:
                inv = {ast.Eq: ast.NotEq, ast.NotEq: ast.Eq, ast.In: ast.NotIn, ast.NotIn: ast.In, ast.Is: ast.IsNot, ast.IsNot: ast.Is}
                k = type(t2.ops[0])
                if k in inv:
                    txt = cnorm(ast.Compare(left=t2.left, ops=[inv[k]()], comparators=t2.comparators))
        en.filters.add(txt)
        en.filter_nodes.append(t)
    return en
