"""Developer tool: alpha-renaming sweep.  For every function that some check analyses, build a variant of its module in which
all local variables of that function (not its parameters) are renamed (`name` -> `name_rn`), and run the checks that analyse
the function.  A pure renaming of locals preserves behaviour, so every alarm (exit 1) or analysis error (exit 2) is a
dependence of a rule on a local's spelling -- brittleness of the checker, to be repaired there.

    python -m mpv.renametest [Cxx ...]      (default: all claimed properties)
"""
import ast
import io
import json
import keyword
import os
import sys
import tokenize
from concurrent.futures import ProcessPoolExecutor

from .core import load_sources, REPO
from .mutants import _run_one
from .props import PROPS

VERIF = os.path.dirname(os.path.dirname(os.path.abspath(__file__)))
BUILTINS = set(dir(__builtins__)) if not isinstance(__builtins__, dict) else set(__builtins__)


def _locals_of(fn):
    """names bound inside fn (assignments, loop / comprehension / with / except targets, walrus), minus parameters, globals."""
    params = set()
    for f in ast.walk(fn):
        if isinstance(f, (ast.FunctionDef, ast.AsyncFunctionDef, ast.Lambda)):
            a = f.args
            params |= {x.arg for x in a.posonlyargs + a.args + a.kwonlyargs}
            if a.vararg:
                params.add(a.vararg.arg)
            if a.kwarg:
                params.add(a.kwarg.arg)
    bound, banned = set(), set()
    for n in ast.walk(fn):
        if isinstance(n, ast.Name) and isinstance(n.ctx, (ast.Store, ast.Del)):
            bound.add(n.id)
        elif isinstance(n, (ast.Global, ast.Nonlocal)):
            banned |= set(n.names)
        elif isinstance(n, (ast.FunctionDef, ast.AsyncFunctionDef, ast.ClassDef)) and n is not fn:
            banned.add(n.name)
        elif isinstance(n, ast.ExceptHandler) and n.name:
            banned.add(n.name)
        elif isinstance(n, (ast.Import, ast.ImportFrom)):
            banned |= {(a.asname or a.name).split('.')[0] for a in n.names}
    return {b for b in bound - params - banned if not keyword.iskeyword(b) and b not in BUILTINS and not b.startswith('__')}


def rename_locals(src, fn, suffix='_rn'):
    """source text with the locals of fn (an ast node of src) renamed; None if the function is not safely renameable."""
    if any(isinstance(c, ast.Call) and isinstance(c.func, ast.Name) and c.func.id in ('eval', 'exec', 'locals', 'vars') for c in ast.walk(fn)):
        return None
    names = _locals_of(fn)
    if not names:
        return None
    first = min([fn.lineno] + [d.lineno for d in fn.decorator_list])
    last = fn.end_lineno
    toks = list(tokenize.generate_tokens(io.StringIO(src).readline))
    out = []
    depth = 0
    for i, t in enumerate(toks):
        s = t.string
        if t.type == tokenize.OP:
            if s in '([{':
                depth += 1
            elif s in ')]}':
                depth -= 1
        if t.type == tokenize.NAME and s in names and first <= t.start[0] <= last:
            prev = next((p for p in reversed(toks[:i]) if p.type not in (tokenize.NL, tokenize.COMMENT, tokenize.NEWLINE, tokenize.INDENT, tokenize.DEDENT)), None)
            nxt = next((p for p in toks[i + 1:] if p.type not in (tokenize.NL, tokenize.COMMENT)), None)
            is_attr = prev is not None and ((prev.type == tokenize.OP and prev.string == '.') or (prev.type == tokenize.NAME and prev.string in ('def', 'class')))
            is_kwarg = depth > 0 and nxt is not None and nxt.type == tokenize.OP and nxt.string == '=' and prev is not None and prev.string in ('(', ',')
            if not is_attr and not is_kwarg:
                s = s + suffix
        out.append((t.type, s, t.start, t.end, t.line))
    # rebuild with original spacing: replace token by token on each line from the right
    lines = src.splitlines(keepends=True)
    edits = {}
    for (typ, s, start, end, line), t in zip(out, toks):
        if s != t.string:
            edits.setdefault(start[0], []).append((start[1], end[1], s))
    for ln, es in edits.items():
        text = lines[ln - 1]
        for c0, c1, s in sorted(es, reverse=True):
            text = text[:c0] + s + text[c1:]
        lines[ln - 1] = text
    new = ''.join(lines)
    try:
        ast.parse(new)
    except SyntaxError:
        return None
    return new


def _functions(tree):
    """(qualname, node) for top-level functions and methods (renaming covers their nested functions)."""
    for n in tree.body:
        if isinstance(n, (ast.FunctionDef, ast.AsyncFunctionDef)):
            yield n.name, n
        elif isinstance(n, ast.ClassDef):
            for m in n.body:
                if isinstance(m, (ast.FunctionDef, ast.AsyncFunctionDef)):
                    yield f'{n.name}.{m.name}', m
        elif isinstance(n, ast.If):
            for m in n.body + n.orelse:
                if isinstance(m, (ast.FunctionDef, ast.AsyncFunctionDef)):
                    yield m.name, m


def main(argv):
    props = [p for p in argv if p in PROPS] or sorted(PROPS)
    only = [a for a in argv if a not in PROPS]
    # which top-level constructs does each property analyse (from the committed evidence of the last clean run)
    wanted = {}
    for pid in props:
        try:
            ev = json.load(open(os.path.join(VERIF, 'evidence', f'{pid}.json')))
        except Exception:
            continue
        for c in ev['coverage'].get('constructs_analysed', []):
            f, q = c.split('::', 1)
            mod = os.path.basename(f)[:-3]
            top = '.'.join(q.split('.')[:2]) if q.split('.')[0][0].isupper() else q.split('.')[0]
            wanted.setdefault((mod, top), set()).add(pid)
    sources = load_sources(REPO)
    jobs, idx = [], []
    skipped = 0
    for mod, src in sorted(sources.items()):
        tree = ast.parse(src)
        for q, node in _functions(tree):
            pids = wanted.get((mod, q))
            if not pids or (only and not any(o in f'{mod}::{q}' for o in only)):
                continue
            new = rename_locals(src, node)
            if new is None:
                skipped += 1
                continue
            for pid in sorted(pids):
                jobs.append((pid, {mod: new}))
                idx.append((mod, q, pid))
    print(f'{len({(m, q) for m, q, _ in idx})} functions renamed ({skipped} skipped), {len(jobs)} check runs')
    with ProcessPoolExecutor(max_workers=min(16, os.cpu_count() or 4)) as ex:
        res = list(ex.map(_run_one, jobs, chunksize=2))
    bad = {}
    for (mod, q, pid), (code, hits) in zip(idx, res):
        if code != 0:
            bad.setdefault((mod, q), []).append((pid, code, hits[:2]))
    for (mod, q), v in sorted(bad.items()):
        print(f'{mod}::{q}: ALARM')
        for pid, code, hits in v:
            print(f'     {pid} exit={code} {hits}')
    print(f'{len(bad)} functions whose alpha-renamed variant makes a check alarm')
    return 1 if bad else 0


if __name__ == '__main__':
    sys.exit(main(sys.argv[1:]))
