"""Semantics-preserving canonicalisation of function bodies, applied to every function of the package
before any rule looks at it, so that the rules do not depend on how the same logic is spelled.

Every pass rewrites a deep copy of the syntax tree (the repository is never touched, nothing is run);
every pass is an equivalence under the stated side conditions, which are checked on the tree:

  P1  local aliases of stable attribute chains are inlined (`buffers = self.buffers`, `rt = self.runtime`)
      when neither the alias nor the aliased attribute is re-bound in the function;
  P2  comparisons are oriented (`a > b` -> `b < a`, `a >= b` -> `b <= a`);
  D1  negations are pushed inward (De Morgan, negated comparisons);
  K1  `a < X and X <= b` -> `a < X <= b` for a pure X;
  P3  `if not C: A else: B`  ->  `if C: B else: A`  (also `not in`, `is not`, `!=`);
  P4  `if C: ...; return`  followed by REST  ->  `if C: ...; return  else: REST`;
  C1  `if C: continue` followed by REST in a loop body  ->  `if not C: REST`;
  W1  flag-controlled retry loops -> `while True: ...; if C: break`;
  W2  `while A and B:` with loop-invariant pure A -> `if A: while B:`;
  W3  `w = E; while T(w): BODY; w = E`  ->  `while T(w := E): BODY`;
  E1  a conditional expression with a pure test in an assignment / return is lifted to an if statement;
  R1  `if ..: v = A else: v = B; return v` -> returns in the branches; `v = A; return v` -> `return A`;
  L1  `x = []; for T in IT: [if C:] x.append(E)` -> `x = [E for T in IT if C]` (and the dict form, and the
      index-fill form `x = [None]*len(S); for i, p in enumerate(S): x[i] = E`);
  F1  a comprehension over a literal comprehension is fused; Z1 `zip(<comprehension over range>, Y)` is
      rewritten to the index form;
  G1  single-definition temporaries bound to a pure expression over stable operands are inlined into their
      uses (forward substitution), when no operand is re-bound between definition and use;
  P5  a temporary used exactly once in the next simple statement is inlined;
  P6  `(a,) = X`  ->  `a = X[0]`;
  P7  `x = x + e`  ->  `x += e` for attribute / name targets;
  H1  a call to a small helper function that is not part of the rule vocabulary (not in the frozen table of
      function names the rules were written against) is replaced by the helper's body.
"""
import ast
import copy

NESTED = (ast.FunctionDef, ast.AsyncFunctionDef, ast.Lambda, ast.ClassDef)
COMPS = (ast.ListComp, ast.SetComp, ast.DictComp, ast.GeneratorExp)

# attributes whose value does not change during one protocol invocation (configuration, type constants,
# array geometry of an object that is not re-bound)
STABLE_ATTRS = {
    'pid', 'threshold', 'parties', 'options', 'no_prss', 'sec_param', 'no_async', 'field', 'order', 'modulus', 'characteristic',
    'frac_length', 'bit_length', 'is_signed', 'byte_length', 'ext_deg', 'shape', 'size', 'ndim', 'integral', 'sectype', 'group',
    'runtime', 'nth', 'root', 'is_signed', 'subfield', 'mix32_64bit', 'SecureObject', 'SecureFiniteField', 'SecureInteger',
    'SecureFixedPoint', 'SecureFloat', 'SecureArray', 'SecureFixedPointArray', 'SecureIntegerArray', 'SecureFiniteFieldArray',
    'SecureNumber', 'array', 'is_abelian', 'is_multiplicative', 'is_cyclic', 'identity', 'generator', 'degree', 'dtype',
    'significand_bit_length', 'exponent_bit_length', 'significand_type', 'exponent_type', 'value',
}
STABLE_ATTRS_NOVALUE = STABLE_ATTRS - {'value'}
PURE_FUNCS = {'len', 'int', 'min', 'max', 'abs', 'isinstance', 'issubclass', 'range', 'bool', 'type', 'tuple', 'getattr', 'float',
              'divmod', 'round', 'enumerate', 'zip', 'reversed', 'sorted', 'list', 'sum', 'any', 'all', 'set', 'frozenset', 'str', 'repr'}
PURE_QUAL = {'math.comb', 'math.log2', 'math.ceil', 'math.floor', 'math.prod', 'math.gcd', 'math.isqrt', 'math.log', 'math.sqrt',
             'np.broadcast_shapes', 'itertools.combinations'}
MODULES = {'np', 'math', 'gmpy2', 'finfields', 'thresha', 'asyncoro', 'mpctools', 'itertools', 'gfpx', 'fingroups', 'sectypes', 'secgroups',
           'mpyc', 'numpy', 'functools', 'operator', 'sys', 'os', 'asyncio', 'pickle', 'struct'}
PURE_METHODS = {'bit_length', 'bit_count'}
MUTATORS = {'append', 'extend', 'pop', 'insert', 'sort', 'reverse', 'update', 'clear', 'remove', 'setdefault', 'popitem', 'add', 'discard',
            'fill', 'resize', 'put', 'itemset'}


# ------------------------------------------------------------------------------------------ utilities
def _terminates(body):
    return bool(body) and isinstance(body[-1], (ast.Return, ast.Raise, ast.Break, ast.Continue))


def _is_chain(e):
    while isinstance(e, ast.Attribute):
        e = e.value
    return isinstance(e, ast.Name)


def _walk(node, into_comps=True):
    """Pre-order walk not descending into nested defs / lambdas / classes (the root is always entered)."""
    stack = [node]
    first = True
    while stack:
        n = stack.pop()
        if not first and isinstance(n, NESTED):
            yield n
            continue
        first = False
        yield n
        stack.extend(reversed(list(ast.iter_child_nodes(n))))


class _Subst(ast.NodeTransformer):
    """Replace loads of names by expressions (not inside nested defs; respects comprehension shadowing)."""

    def __init__(self, mapping):
        self.m = mapping

    def visit_Name(self, n):
        if isinstance(n.ctx, ast.Load) and n.id in self.m:
            return ast.copy_location(copy.deepcopy(self.m[n.id]), n)
        return n

    def visit_FunctionDef(self, n):
        return n

    visit_AsyncFunctionDef = visit_Lambda = visit_ClassDef = visit_FunctionDef


def _bound_in_comp(c):
    out = set()
    for g in c.generators:
        out |= {n.id for n in ast.walk(g.target) if isinstance(n, ast.Name)}
    return out


def _names(e):
    return {n.id for n in ast.walk(e) if isinstance(n, ast.Name)}


def _free_names(e):
    """Names of e that are not bound by a comprehension inside e."""
    out = set()

    def rec(n, bound):
        if isinstance(n, COMPS):
            b2 = bound | _bound_in_comp(n)
            for c in ast.iter_child_nodes(n):
                rec(c, b2)
            return
        if isinstance(n, ast.Name) and n.id not in bound:
            out.add(n.id)
        for c in ast.iter_child_nodes(n):
            rec(c, bound)
    rec(e, set())
    return out


def _qual(e):
    parts = []
    while isinstance(e, ast.Attribute):
        parts.append(e.attr)
        e = e.value
    if isinstance(e, ast.Name):
        parts.append(e.id)
        return '.'.join(reversed(parts))
    return None


def is_pure(e, value_ok=False):
    """Expression without side effects whose value depends only on names, constants and stable attributes."""
    if isinstance(e, (ast.Name, ast.Constant)):
        return True
    if isinstance(e, ast.Attribute):
        if isinstance(e.value, ast.Name) and e.value.id in MODULES:
            return True       # module constant / class
        ok = e.attr in (STABLE_ATTRS if value_ok else STABLE_ATTRS_NOVALUE)
        return ok and is_pure(e.value, value_ok)
    if isinstance(e, ast.BinOp):
        return is_pure(e.left, value_ok) and is_pure(e.right, value_ok)
    if isinstance(e, ast.UnaryOp):
        return is_pure(e.operand, value_ok)
    if isinstance(e, ast.BoolOp):
        return all(is_pure(v, value_ok) for v in e.values)
    if isinstance(e, ast.Compare):
        return is_pure(e.left, value_ok) and all(is_pure(c, value_ok) for c in e.comparators)
    if isinstance(e, ast.IfExp):
        return is_pure(e.test, value_ok) and is_pure(e.body, value_ok) and is_pure(e.orelse, value_ok)
    if isinstance(e, (ast.Tuple, ast.List)):
        return isinstance(e.ctx, ast.Load) and all(is_pure(x, value_ok) for x in e.elts)
    if isinstance(e, ast.Subscript):
        return isinstance(e.ctx, ast.Load) and is_pure(e.value, value_ok) and is_pure(e.slice, value_ok)
    if isinstance(e, ast.Slice):
        return all(x is None or is_pure(x, value_ok) for x in (e.lower, e.upper, e.step))
    if isinstance(e, ast.Starred):
        return is_pure(e.value, value_ok)
    if isinstance(e, ast.Call):
        if e.keywords and any(k.arg is None or not is_pure(k.value, value_ok) for k in e.keywords):
            return False
        if not all(is_pure(a, value_ok) for a in e.args):
            return False
        if isinstance(e.func, ast.Name):
            return e.func.id in PURE_FUNCS
        q = _qual(e.func)
        if q in PURE_QUAL:
            return True
        if isinstance(e.func, ast.Attribute) and e.func.attr in PURE_METHODS:
            return is_pure(e.func.value, value_ok)
        return False
    if isinstance(e, (ast.ListComp, ast.GeneratorExp, ast.SetComp)):
        return is_pure(e.elt, value_ok) and all(is_pure(g.iter, value_ok) and all(is_pure(i, value_ok) for i in g.ifs) and not g.is_async
                                                for g in e.generators)
    if isinstance(e, ast.DictComp):
        return is_pure(e.key, value_ok) and is_pure(e.value, value_ok) and \
            all(is_pure(g.iter, value_ok) and all(is_pure(i, value_ok) for i in g.ifs) for g in e.generators)
    return False


def _walk_blocks(node, fn):
    """Apply fn(block_list) -> new list to every statement block below node (bottom-up)."""
    for f in ('body', 'orelse', 'finalbody'):
        b = getattr(node, f, None)
        if isinstance(b, list) and (not b or isinstance(b[0], ast.stmt)):
            for s in b:
                if not isinstance(s, NESTED):
                    _walk_blocks(s, fn)
            setattr(node, f, fn(b))
    for h in getattr(node, 'handlers', []) or []:
        for s in h.body:
            if not isinstance(s, NESTED):
                _walk_blocks(s, fn)
        h.body = fn(h.body)
    for c in getattr(node, 'cases', []) or []:
        for s in c.body:
            if not isinstance(s, NESTED):
                _walk_blocks(s, fn)
        c.body = fn(c.body)


def _walk_loop_bodies(node, fn):
    for n in list(_walk(node)):
        if isinstance(n, (ast.For, ast.While, ast.AsyncFor)) :
            n.body = fn(n.body)


class Facts:
    """Store / mutation facts of one function body (nested defs are opaque)."""

    def __init__(self, fn):
        self.fn = fn
        self.store_sites = {}     # name -> [node that stores it (Name ctx Store)]
        self.attr_stores = set()  # texts of attribute chains stored
        self.mutated = set()      # names through which a container / object is mutated
        self.nested_uses = set()  # names used inside nested defs / lambdas
        self.declared = set()     # global / nonlocal
        comp_bound = set()
        for n in _walk(fn):
            if isinstance(n, COMPS):
                for g in n.generators:
                    comp_bound |= {id(x) for x in ast.walk(g.target) if isinstance(x, ast.Name)}
        for n in _walk(fn):
            if id(n) in comp_bound:
                continue
            if isinstance(n, NESTED) and n is not fn:
                self.nested_uses |= _names(n)
                if isinstance(n, (ast.FunctionDef, ast.AsyncFunctionDef, ast.ClassDef)):
                    self.store_sites.setdefault(n.name, []).append(n)
                continue
            if isinstance(n, ast.Name) and isinstance(n.ctx, (ast.Store, ast.Del)):
                self.store_sites.setdefault(n.id, []).append(n)
            elif isinstance(n, ast.Attribute) and isinstance(n.ctx, (ast.Store, ast.Del)):
                self.attr_stores.add(ast.unparse(n))
            elif isinstance(n, ast.Subscript) and isinstance(n.ctx, (ast.Store, ast.Del)):
                self._mut(n.value)
            elif isinstance(n, ast.Call) and isinstance(n.func, ast.Attribute) and n.func.attr in MUTATORS:
                self._mut(n.func.value)
            elif isinstance(n, (ast.Global, ast.Nonlocal)):
                self.declared |= set(n.names)
            elif isinstance(n, (ast.Import, ast.ImportFrom)):
                for a in n.names:
                    self.store_sites.setdefault((a.asname or a.name).split('.')[0], []).append(n)
            elif isinstance(n, ast.ExceptHandler) and n.name:
                self.store_sites.setdefault(n.name, []).append(n)
            elif isinstance(n, ast.AugAssign) and isinstance(n.target, ast.Name):
                pass  # the Name has ctx Store: counted above
        a = fn.args
        self.params = {x.arg for x in a.posonlyargs + a.args + a.kwonlyargs}
        if a.vararg:
            self.params.add(a.vararg.arg)
        if a.kwarg:
            self.params.add(a.kwarg.arg)

    def _mut(self, b):
        """The container denoted by expression b is mutated."""
        while isinstance(b, ast.Subscript):
            b = b.value
        if isinstance(b, ast.Name):
            self.mutated.add(b.id)
        elif isinstance(b, ast.Attribute):
            self.attr_stores.add(ast.unparse(b))

    def nstores(self, name):
        return len(self.store_sites.get(name, ()))


def _pos(n):
    return (getattr(n, 'lineno', 0), getattr(n, 'col_offset', 0))


# ------------------------------------------------------------------------------------------ P2 / D1 / K1
class _Orient(ast.NodeTransformer):
    def visit_Compare(self, n):
        self.generic_visit(n)
        if len(n.ops) == 1 and isinstance(n.ops[0], (ast.Gt, ast.GtE)):
            return ast.copy_location(ast.Compare(left=n.comparators[0], ops=[ast.Lt() if isinstance(n.ops[0], ast.Gt) else ast.LtE()],
                                                 comparators=[n.left]), n)
        if len(n.ops) > 1 and all(isinstance(o, (ast.Gt, ast.GtE)) for o in n.ops):
            terms = [n.left] + list(n.comparators)
            terms.reverse()
            ops = [ast.Lt() if isinstance(o, ast.Gt) else ast.LtE() for o in reversed(n.ops)]
            return ast.copy_location(ast.Compare(left=terms[0], ops=ops, comparators=terms[1:]), n)
        return n

    def visit_Call(self, n):
        self.generic_visit(n)
        if isinstance(n.func, ast.Name) and n.func.id == 'range' and len(n.args) == 3 and not n.keywords:
            a, b, c = n.args
            def m1(x):
                return (isinstance(x, ast.UnaryOp) and isinstance(x.op, ast.USub) and isinstance(x.operand, ast.Constant) and x.operand.value == 1) \
                    or (isinstance(x, ast.Constant) and x.value == -1)
            if m1(b) and m1(c) and isinstance(a, ast.BinOp) and isinstance(a.op, ast.Sub) and isinstance(a.right, ast.Constant) and a.right.value == 1:
                inner = ast.Call(func=ast.Name(id='range', ctx=ast.Load()), args=[a.left], keywords=[])
                return ast.copy_location(ast.Call(func=ast.Name(id='reversed', ctx=ast.Load()), args=[inner], keywords=[]), n)
        return n

    def visit_FunctionDef(self, n):
        return n

    visit_AsyncFunctionDef = visit_Lambda = visit_ClassDef = visit_FunctionDef


_NEG = {ast.Eq: ast.NotEq, ast.NotEq: ast.Eq, ast.Lt: ast.GtE, ast.GtE: ast.Lt, ast.Gt: ast.LtE, ast.LtE: ast.Gt,
        ast.In: ast.NotIn, ast.NotIn: ast.In, ast.Is: ast.IsNot, ast.IsNot: ast.Is}


def negate(t):
    """Boolean negation of a test, pushed inward (truthiness contexts only)."""
    if isinstance(t, ast.UnaryOp) and isinstance(t.op, ast.Not):
        return t.operand
    if isinstance(t, ast.Compare):
        if len(t.ops) == 1:
            return ast.copy_location(ast.Compare(left=t.left, ops=[_NEG[type(t.ops[0])]()], comparators=t.comparators), t)
        terms = [t.left] + list(t.comparators)
        if all(is_pure(x, True) for x in terms[1:-1]):
            parts = [ast.Compare(left=terms[i], ops=[_NEG[type(op)]()], comparators=[terms[i + 1]]) for i, op in enumerate(t.ops)]
            return ast.copy_location(ast.BoolOp(op=ast.Or(), values=parts), t)
    if isinstance(t, ast.BoolOp):
        return ast.copy_location(ast.BoolOp(op=ast.Or() if isinstance(t.op, ast.And) else ast.And(), values=[negate(v) for v in t.values]), t)
    if isinstance(t, ast.Constant) and isinstance(t.value, bool):
        return ast.copy_location(ast.Constant(value=not t.value), t)
    return ast.copy_location(ast.UnaryOp(op=ast.Not(), operand=t), t)


def nnf(t):
    """Push `not` inward in a test."""
    if isinstance(t, ast.UnaryOp) and isinstance(t.op, ast.Not):
        inner = t.operand
        if isinstance(inner, (ast.BoolOp, ast.Compare)) or (isinstance(inner, ast.UnaryOp) and isinstance(inner.op, ast.Not)):
            return nnf(negate(inner))
        return t
    if isinstance(t, ast.BoolOp):
        vals = []
        for v in t.values:
            v = nnf(v)
            if isinstance(v, ast.BoolOp) and type(v.op) is type(t.op):
                vals.extend(v.values)
            else:
                vals.append(v)
        t.values = vals
        return _chain_merge(t)
    return t


def _chain_merge(b):
    """`a < X and X <= b` -> `a < X <= b` inside an `and`."""
    if not isinstance(b.op, ast.And):
        return b
    vals = list(b.values)
    changed = True
    while changed:
        changed = False
        for i in range(len(vals)):
            for j in range(len(vals)):
                if i == j:
                    continue
                a, c = vals[i], vals[j]
                if isinstance(a, ast.Compare) and isinstance(c, ast.Compare) and \
                        all(isinstance(o, (ast.Lt, ast.LtE)) for o in a.ops + c.ops):
                    mid = a.comparators[-1]
                    if is_pure(mid, True) and ast.unparse(mid) == ast.unparse(c.left) and not isinstance(mid, ast.Constant):
                        merged = ast.copy_location(ast.Compare(left=a.left, ops=a.ops + c.ops, comparators=a.comparators + c.comparators), a)
                        vals = [v for k, v in enumerate(vals) if k not in (i, j)]
                        vals.insert(min(i, j), merged)
                        changed = True
                        break
            if changed:
                break
    if len(vals) == 1:
        return vals[0]
    b.values = vals
    return b


class _Tests(ast.NodeTransformer):
    """Normalise every test position (if / while / ifexp / comprehension ifs / assert)."""

    def visit_If(self, n):
        self.generic_visit(n)
        n.test = nnf(n.test)
        return n

    def visit_While(self, n):
        self.generic_visit(n)
        n.test = nnf(n.test)
        return n

    def visit_IfExp(self, n):
        self.generic_visit(n)
        n.test = nnf(n.test)
        pos, flipped = _positive(n.test)
        if flipped:
            n.test = pos
            n.body, n.orelse = n.orelse, n.body
        return n

    def visit_comprehension(self, n):
        self.generic_visit(n)
        n.ifs = [nnf(i) for i in n.ifs]
        return n

    def visit_Assert(self, n):
        self.generic_visit(n)
        n.test = nnf(n.test)
        return n

    def visit_FunctionDef(self, n):
        return n

    visit_AsyncFunctionDef = visit_Lambda = visit_ClassDef = visit_FunctionDef


def _positive(test):
    """(positive test, flipped?)"""
    if isinstance(test, ast.UnaryOp) and isinstance(test.op, ast.Not):
        return test.operand, True
    if isinstance(test, ast.Compare) and len(test.ops) == 1:
        op = test.ops[0]
        flip = {ast.NotIn: ast.In, ast.IsNot: ast.Is, ast.NotEq: ast.Eq}
        for k, v in flip.items():
            if isinstance(op, k):
                return ast.copy_location(ast.Compare(left=test.left, ops=[v()], comparators=test.comparators), test), True
    if isinstance(test, ast.BoolOp) and all(_positive(v)[1] for v in test.values):
        # `a != b or c not in d`  ==  not (a == b and c in d);  `not a and not b`  ==  not (a or b)
        op = ast.And() if isinstance(test.op, ast.Or) else ast.Or()
        return ast.copy_location(ast.BoolOp(op=op, values=[_positive(v)[0] for v in test.values]), test), True
    return test, False


# ------------------------------------------------------------------------------------------ P3 / P4 / C1
def p3_polarity(block):
    for s in block:
        if isinstance(s, ast.If):
            pos, flipped = _positive(s.test)
            if flipped and s.orelse:
                s.test = pos
                s.body, s.orelse = s.orelse, s.body
    return block


def p3b_guard_polarity(block):
    """`if not C: return A` + `return B` (end of block)  ->  `if C: return B` + `return A`."""
    if len(block) >= 2 and isinstance(block[-2], ast.If) and not block[-2].orelse and len(block[-2].body) == 1 \
            and isinstance(block[-2].body[0], ast.Return) and isinstance(block[-1], ast.Return):
        pos, flipped = _positive(block[-2].test)
        if flipped:
            block[-2].test = pos
            block[-2].body, block[-1] = [block[-1]], block[-2].body[0]
    return block


def p4_early_return(block):
    out = []
    for i, s in enumerate(block):
        if isinstance(s, ast.If) and not s.orelse and _terminates(s.body) and isinstance(s.body[-1], (ast.Return, ast.Raise)) and i + 1 < len(block):
            rest = p4_early_return(block[i + 1:])
            s.orelse = rest
            out.append(s)
            return out
        out.append(s)
    return out


def m1_merge_ifs(block):
    """`if a: if b: X`  ->  `if a and b: X`  (no else on either)."""
    for s in block:
        while isinstance(s, ast.If) and not s.orelse and len(s.body) == 1 and isinstance(s.body[0], ast.If) and not s.body[0].orelse:
            inner = s.body[0]
            s.test = nnf(ast.copy_location(ast.BoolOp(op=ast.And(), values=[s.test, inner.test]), s.test))
            s.body = inner.body
    return block


def _boolish(e):
    return isinstance(e, ast.Compare) or (isinstance(e, ast.UnaryOp) and isinstance(e.op, ast.Not)) or \
        (isinstance(e, ast.BoolOp) and all(_boolish(v) for v in e.values)) or (isinstance(e, ast.Constant) and isinstance(e.value, bool)) or \
        (isinstance(e, ast.Call) and isinstance(e.func, ast.Name) and e.func.id in ('isinstance', 'issubclass', 'bool', 'callable', 'hasattr'))


def b1_bool_returns(block):
    """`if A: return True` + `return B`  ->  `return A or B`  (A boolean-valued); likewise False / and."""
    changed = True
    while changed and len(block) >= 2:
        changed = False
        a, b = block[-2], block[-1]
        if isinstance(a, ast.If) and not a.orelse and len(a.body) == 1 and isinstance(a.body[0], ast.Return) and isinstance(b, ast.Return) \
                and b.value is not None and a.body[0].value is not None and _boolish(a.test):
            rv = a.body[0].value
            new = None
            if isinstance(rv, ast.Constant) and rv.value is True:
                new = ast.BoolOp(op=ast.Or(), values=[a.test, b.value])
            elif isinstance(rv, ast.Constant) and rv.value is False and _boolish(b.value):
                new = ast.BoolOp(op=ast.And(), values=[nnf(negate(a.test)), b.value])
            elif isinstance(b.value, ast.Constant) and b.value.value is False:
                new = ast.BoolOp(op=ast.And(), values=[a.test, rv])
            if new is not None:
                block = block[:-2] + [ast.copy_location(ast.Return(value=nnf(ast.copy_location(new, a))), a)]
                changed = True
    return block


class _IsInst(ast.NodeTransformer):
    """`isinstance(o, A) or isinstance(o, B)` -> `isinstance(o, (A, B))`; dually for `not ... and not ...`."""

    @staticmethod
    def _parts(v):
        neg = False
        if isinstance(v, ast.UnaryOp) and isinstance(v.op, ast.Not):
            neg, v = True, v.operand
        if isinstance(v, ast.Call) and isinstance(v.func, ast.Name) and v.func.id in ('isinstance', 'issubclass') and len(v.args) == 2 and not v.keywords:
            return neg, v.func.id, v.args[0], v.args[1]
        return None

    def visit_BoolOp(self, n):
        self.generic_visit(n)
        want_neg = isinstance(n.op, ast.And)
        vals = []
        for v in n.values:
            p = self._parts(v)
            if p and p[0] == want_neg and vals:
                q = self._parts(vals[-1])
                if q and q[0] == want_neg and q[1] == p[1] and ast.unparse(q[2]) == ast.unparse(p[2]):
                    def elts(t):
                        return list(t.elts) if isinstance(t, ast.Tuple) else [t]
                    tup = ast.Tuple(elts=elts(q[3]) + elts(p[3]), ctx=ast.Load())
                    call = ast.Call(func=ast.Name(id=p[1], ctx=ast.Load()), args=[q[2], tup], keywords=[])
                    vals[-1] = ast.copy_location(ast.UnaryOp(op=ast.Not(), operand=call) if want_neg else call, v)
                    ast.fix_missing_locations(vals[-1])
                    continue
            vals.append(v)
        if len(vals) == 1:
            return vals[0]
        n.values = vals
        return n

    def visit_FunctionDef(self, n):
        return n

    visit_AsyncFunctionDef = visit_Lambda = visit_ClassDef = visit_FunctionDef


def u1_unnest(block):
    """`if C: ...; return  else: REST`  ->  `if C: ...; return` followed by REST (guard-clause form)."""
    out = []
    for s in block:
        out.append(s)
        if isinstance(s, ast.If) and s.orelse and _terminates(s.body):
            rest = s.orelse
            s.orelse = []
            out.extend(u1_unnest(rest))
    return out


def c1_continue(body):
    out = []
    for i, s in enumerate(body):
        if isinstance(s, ast.If) and not s.orelse and s.body and isinstance(s.body[-1], ast.Continue):
            rest = c1_continue(body[i + 1:])
            pre = s.body[:-1]
            if not pre:
                if rest:
                    out.append(ast.copy_location(ast.If(test=nnf(negate(s.test)), body=rest, orelse=[]), s))
                return out
            s.body = pre
            s.orelse = rest
            out.append(s)
            return out
        out.append(s)
    return out


# ------------------------------------------------------------------------------------------ W1 / W2 / W3
def w_loops(fn, facts):
    def run(block):
        out = []
        i = 0
        while i < len(block):
            s = block[i]
            # W3: w = E; while T(w): BODY; w = E  ->  while T(w := E): BODY
            if isinstance(s, ast.Assign) and len(s.targets) == 1 and isinstance(s.targets[0], ast.Name) and i + 1 < len(block) \
                    and isinstance(block[i + 1], ast.While) and not block[i + 1].orelse and block[i + 1].body:
                w = block[i + 1]
                last = w.body[-1]
                nm = s.targets[0].id
                if isinstance(last, ast.Assign) and len(last.targets) == 1 and isinstance(last.targets[0], ast.Name) and last.targets[0].id == nm \
                        and ast.unparse(last.value) == ast.unparse(s.value) and not isinstance(s.value, ast.Constant) \
                        and sum(1 for n in ast.walk(w.test) if isinstance(n, ast.Name) and n.id == nm) == 1 and len(w.body) > 1 \
                        and not any(isinstance(n, ast.Continue) for n in ast.walk(w)):
                    w.test = _Subst({nm: ast.NamedExpr(target=ast.Name(id=nm, ctx=ast.Store()), value=s.value)}).visit(w.test)
                    w.body = w.body[:-1]
                    out.append(w)
                    i += 2
                    continue
            # W1: v = True; while v: BODY; v = E   /   v = False; while not v: BODY; v = E
            if isinstance(s, ast.Assign) and len(s.targets) == 1 and isinstance(s.targets[0], ast.Name) and isinstance(s.value, ast.Constant) \
                    and isinstance(s.value.value, bool) and i + 1 < len(block) and isinstance(block[i + 1], ast.While) and not block[i + 1].orelse:
                w = block[i + 1]
                nm = s.targets[0].id
                t = w.test
                neg = isinstance(t, ast.UnaryOp) and isinstance(t.op, ast.Not)
                tn = t.operand if neg else t
                last = w.body[-1] if w.body else None
                loads = sum(1 for n in _walk(fn) if isinstance(n, ast.Name) and n.id == nm and isinstance(n.ctx, ast.Load))
                if isinstance(tn, ast.Name) and tn.id == nm and s.value.value == (not neg) and facts.nstores(nm) == 2 and loads == 1 \
                        and isinstance(last, ast.Assign) and len(last.targets) == 1 and isinstance(last.targets[0], ast.Name) \
                        and last.targets[0].id == nm and not any(isinstance(n, ast.Continue) for n in ast.walk(w)):
                    cond = last.value if neg else negate(last.value)
                    brk = ast.copy_location(ast.If(test=nnf(cond), body=[ast.copy_location(ast.Break(), last)], orelse=[]), last)
                    w.test = ast.copy_location(ast.Constant(value=True), w.test)
                    w.body = w.body[:-1] + [brk]
                    out.append(w)
                    i += 2
                    continue
            # W2: while A and B (A pure, loop-invariant)  ->  if A: while B
            if isinstance(s, ast.While) and isinstance(s.test, ast.BoolOp) and isinstance(s.test.op, ast.And) and not s.orelse:
                first = s.test.values[0]
                stored_in_body = set()
                for n in ast.walk(s):
                    if isinstance(n, ast.Name) and isinstance(n.ctx, ast.Store):
                        stored_in_body.add(n.id)
                if is_pure(first) and isinstance(first, ast.Name) and not (_names(first) & stored_in_body):
                    rest = s.test.values[1:]
                    s.test = rest[0] if len(rest) == 1 else ast.BoolOp(op=ast.And(), values=rest)
                    out.append(ast.copy_location(ast.If(test=first, body=[s], orelse=[]), s))
                    i += 1
                    continue
            out.append(s)
            i += 1
        return out
    _walk_blocks(fn, run)


# ------------------------------------------------------------------------------------------ E1
def _find_ifexp(e):
    """Outermost-first conditional expression in e that is evaluated unconditionally and outside comprehensions."""
    stack = [e]
    while stack:
        n = stack.pop(0)
        if isinstance(n, ast.IfExp):
            return n
        if isinstance(n, NESTED + COMPS):
            continue
        if isinstance(n, ast.BoolOp):
            stack.append(n.values[0])       # later operands are evaluated conditionally
            continue
        stack.extend(ast.iter_child_nodes(n))
    return None


class _ReplaceNode(ast.NodeTransformer):
    def __init__(self, old, new):
        self.old, self.new = old, new

    def visit(self, n):
        if n is self.old:
            return self.new
        return super().visit(n)


def e1_lift(block, depth=0):
    out = []
    for s in block:
        val = None
        if isinstance(s, (ast.Assign, ast.AugAssign, ast.Return)) and s.value is not None:
            val = s.value
        elif isinstance(s, ast.AnnAssign) and s.value is not None:
            val = s.value
        if val is not None and depth < 3:
            ie = _find_ifexp(val)
            if ie is not None and is_pure(ie.test, True) and not any(isinstance(n, (ast.NamedExpr, ast.Await, ast.Yield, ast.YieldFrom)) for n in ast.walk(val)):
                a = copy.deepcopy(s)
                b = copy.deepcopy(s)
                # locate the copy of ie in a and b by position in a parallel walk
                def nth(root, target_root, target):
                    for x, y in zip(ast.walk(target_root), ast.walk(root)):
                        if x is target:
                            return y
                    return None
                ia, ib = nth(a, s, ie), nth(b, s, ie)
                a = _ReplaceNode(ia, ia.body).visit(a)
                b = _ReplaceNode(ib, ib.orelse).visit(b)
                new = ast.copy_location(ast.If(test=copy.deepcopy(ie.test), body=e1_lift([a], depth + 1), orelse=e1_lift([b], depth + 1)), s)
                out.append(new)
                continue
        out.append(s)
    return out


# ------------------------------------------------------------------------------------------ S1
def s1_sink(fn):
    """`if c: n = A else: n = B` ; S(n)   ->   `if c: S(A) else: S(B)`  when the pure temporary n is used only in S."""
    def leaves_assign(stmts, nm):
        # every leaf of the if-tree is a single pure assignment to nm
        if len(stmts) != 1:
            return False
        s = stmts[0]
        if isinstance(s, ast.Assign) and len(s.targets) == 1 and isinstance(s.targets[0], ast.Name) and s.targets[0].id == nm:
            return is_pure(s.value, True)
        if isinstance(s, ast.If) and s.orelse:
            return leaves_assign(s.body, nm) and leaves_assign(s.orelse, nm)
        return False

    def replace_leaves(stmts, nm, nxt):
        s = stmts[0]
        if isinstance(s, ast.Assign):
            return [ast.copy_location(_Subst({nm: s.value}).visit(copy.deepcopy(nxt)), nxt)]
        s.body = replace_leaves(s.body, nm, nxt)
        s.orelse = replace_leaves(s.orelse, nm, nxt)
        return [s]

    def count_leaves(stmts):
        s = stmts[0]
        if isinstance(s, ast.Assign):
            return 1
        return count_leaves(s.body) + count_leaves(s.orelse)

    def run(block):
        i = 0
        while i + 1 < len(block):
            s, nxt = block[i], block[i + 1]
            if isinstance(s, ast.If) and s.orelse and isinstance(nxt, (ast.Assign, ast.AugAssign, ast.Return)):
                first = s.body[0] if s.body else None
                while isinstance(first, ast.If):
                    first = first.body[0] if first.body else None
                if isinstance(first, ast.Assign) and len(first.targets) == 1 and isinstance(first.targets[0], ast.Name):
                    nm = first.targets[0].id
                    if leaves_assign([s], nm) and count_leaves([s]) <= 4:
                        loads = _count_loads(fn, nm)
                        stores = sum(1 for n in _walk(fn) if isinstance(n, ast.Name) and n.id == nm and isinstance(n.ctx, (ast.Store, ast.Del)))
                        in_next = _count_loads(nxt, nm)
                        tgt_names = set()
                        for t_ in (nxt.targets if isinstance(nxt, ast.Assign) else ([nxt.target] if isinstance(nxt, ast.AugAssign) else [])):
                            tgt_names |= {n.id for n in ast.walk(t_) if isinstance(n, ast.Name)}
                        if loads == in_next and in_next >= 1 and stores == count_leaves([s]) and nm not in tgt_names \
                                and not any(isinstance(n, COMPS + (ast.Lambda,)) and _mentions(n, nm) for n in ast.walk(nxt)) \
                                and not any(_mentions(x.test, t) for x in ast.walk(s) if isinstance(x, ast.If) for t in tgt_names):
                            block[i:i + 2] = replace_leaves([s], nm, nxt)
                            continue
            i += 1
        return block
    _walk_blocks(fn, run)


# ------------------------------------------------------------------------------------------ R1
def _assigns_name(stmts, nm):
    for s in stmts:
        for n in ast.walk(s):
            if isinstance(n, ast.Name) and n.id == nm and isinstance(n.ctx, ast.Store):
                return True
    return False


def r1_return_sink(block):
    """[..., If, return v] -> returns pushed into the branches;  [v = A, return v] -> [return A]."""
    changed = True
    while changed:
        changed = False
        if len(block) >= 2 and isinstance(block[-1], ast.Return) and isinstance(block[-1].value, ast.Name):
            v = block[-1].value.id
            prev = block[-2]
            if isinstance(prev, ast.If) and _assigns_name([prev], v) and not any(isinstance(n, (ast.For, ast.While, ast.Try, ast.With)) for n in ast.walk(prev)):
                ret = block[-1]
                prev.body = r1_return_sink(prev.body + [copy.deepcopy(ret)]) if not _terminates(prev.body) else prev.body
                prev.orelse = r1_return_sink(prev.orelse + [copy.deepcopy(ret)]) if not _terminates(prev.orelse) else prev.orelse
                block = block[:-1]
                changed = True
                continue
            if isinstance(prev, ast.Assign) and len(prev.targets) == 1 and isinstance(prev.targets[0], ast.Name) and prev.targets[0].id == v:
                block = block[:-2] + [ast.copy_location(ast.Return(value=prev.value), prev)]
                changed = True
                continue
            if isinstance(prev, ast.AugAssign) and isinstance(prev.target, ast.Name) and prev.target.id == v:
                val = ast.copy_location(ast.BinOp(left=ast.Name(id=v, ctx=ast.Load()), op=prev.op, right=prev.value), prev)
                block = block[:-2] + [ast.copy_location(ast.Return(value=val), prev)]
                changed = True
                continue
    return block


# ------------------------------------------------------------------------------------------ L1
def _mentions(node, nm):
    return any(isinstance(n, ast.Name) and n.id == nm for n in ast.walk(node))


def _append_of(s, nm):
    if isinstance(s, ast.Expr) and isinstance(s.value, ast.Call) and isinstance(s.value.func, ast.Attribute) and s.value.func.attr == 'append' \
            and isinstance(s.value.func.value, ast.Name) and s.value.func.value.id == nm and len(s.value.args) == 1 and not s.value.keywords:
        return s.value.args[0]
    return None


def _has_await(e):
    return any(isinstance(n, (ast.Await, ast.Yield, ast.YieldFrom, ast.NamedExpr)) for n in ast.walk(e))


def l1_loops(block):
    out = []
    i = 0
    while i < len(block):
        s = block[i]
        done = False
        if isinstance(s, ast.Assign) and len(s.targets) == 1 and isinstance(s.targets[0], ast.Name) and i + 1 < len(block) \
                and isinstance(block[i + 1], ast.For) and not block[i + 1].orelse:
            nm = s.targets[0].id
            lp = block[i + 1]
            body = lp.body
            cond = []
            while len(body) == 1 and isinstance(body[0], ast.If) and not body[0].orelse:
                cond.append(body[0].test)
                body = body[0].body
            if not _mentions(lp.iter, nm) and not any(_mentions(c, nm) for c in cond) and not _has_await(lp) and len(body) == 1:
                b = body[0]
                # list append
                if isinstance(s.value, ast.List) and not s.value.elts:
                    e = _append_of(b, nm)
                    if e is not None and not _mentions(e, nm):
                        comp = ast.ListComp(elt=e, generators=[ast.comprehension(target=lp.target, iter=lp.iter, ifs=cond, is_async=0)])
                        out.append(ast.copy_location(ast.Assign(targets=s.targets, value=ast.copy_location(comp, lp)), s))
                        done = True
                # dict store
                if not done and isinstance(s.value, ast.Dict) and not s.value.keys:
                    if isinstance(b, ast.Assign) and len(b.targets) == 1 and isinstance(b.targets[0], ast.Subscript) \
                            and isinstance(b.targets[0].value, ast.Name) and b.targets[0].value.id == nm and not _mentions(b.value, nm) \
                            and not _mentions(b.targets[0].slice, nm):
                        comp = ast.DictComp(key=b.targets[0].slice, value=b.value,
                                            generators=[ast.comprehension(target=lp.target, iter=lp.iter, ifs=cond, is_async=0)])
                        out.append(ast.copy_location(ast.Assign(targets=s.targets, value=ast.copy_location(comp, lp)), s))
                        done = True
                # index fill: x = [None] * len(S); for i, p in enumerate(S): x[i] = E  (possibly if/else, both storing x[i])
                if not done and not cond and isinstance(s.value, ast.BinOp) and isinstance(s.value.op, ast.Mult) and isinstance(s.value.left, ast.List) \
                        and len(s.value.left.elts) == 1 and isinstance(s.value.left.elts[0], ast.Constant) and s.value.left.elts[0].value is None:
                    n_expr = s.value.right
                    idx = src_len = None
                    it = lp.iter
                    if isinstance(it, ast.Call) and isinstance(it.func, ast.Name) and it.func.id == 'enumerate' and len(it.args) == 1 \
                            and isinstance(lp.target, ast.Tuple) and len(lp.target.elts) == 2 and isinstance(lp.target.elts[0], ast.Name):
                        idx = lp.target.elts[0].id
                        src_len = f'len({ast.unparse(it.args[0])})'
                    elif isinstance(it, ast.Call) and isinstance(it.func, ast.Name) and it.func.id == 'range' and len(it.args) == 1 \
                            and isinstance(lp.target, ast.Name):
                        idx = lp.target.id
                        src_len = ast.unparse(it.args[0])
                    if idx and src_len == ast.unparse(n_expr):
                        e = _index_store_value(b, nm, idx)
                        if e is not None and not _mentions(e, nm):
                            comp = ast.ListComp(elt=e, generators=[ast.comprehension(target=lp.target, iter=lp.iter, ifs=[], is_async=0)])
                            out.append(ast.copy_location(ast.Assign(targets=s.targets, value=ast.copy_location(comp, lp)), s))
                            done = True
        if done:
            i += 2
            continue
        out.append(s)
        i += 1
    return out


def _index_store_value(b, nm, idx):
    """b is `nm[idx] = E` -> E; `if C: nm[idx] = A else: nm[idx] = B` -> `A if C else B`."""
    if isinstance(b, ast.Assign) and len(b.targets) == 1 and isinstance(b.targets[0], ast.Subscript) and isinstance(b.targets[0].value, ast.Name) \
            and b.targets[0].value.id == nm and isinstance(b.targets[0].slice, ast.Name) and b.targets[0].slice.id == idx:
        return b.value
    if isinstance(b, ast.If) and len(b.body) == 1 and len(b.orelse) == 1:
        x, y = _index_store_value(b.body[0], nm, idx), _index_store_value(b.orelse[0], nm, idx)
        if x is not None and y is not None and not _mentions(b.test, nm):
            return ast.copy_location(ast.IfExp(test=b.test, body=x, orelse=y), b)
    return None


# ------------------------------------------------------------------------------------------ F1 / Z1
class _Fuse(ast.NodeTransformer):
    def _fuse(self, n):
        gens = []
        sub = {}
        changed = False
        for g in n.generators:
            it = g.iter
            if sub:
                it = _Subst(sub).visit(it)
                g.ifs = [_Subst(sub).visit(i) for i in g.ifs]
            g.iter = it
            # F1: for a in [E(b) for b in IT if c]
            if isinstance(it, (ast.ListComp, ast.GeneratorExp)) and len(it.generators) == 1 and not g.is_async and is_pure(it.elt, True):
                ig = it.generators[0]
                if isinstance(g.target, ast.Name) and not (_bound_in_comp(it) & (_names(n) - _names(it))):
                    sub[g.target.id] = it.elt
                    gens.append(ast.comprehension(target=ig.target, iter=ig.iter, ifs=list(ig.ifs) + [_Subst(sub).visit(i) for i in g.ifs], is_async=0))
                    changed = True
                    continue
            # Z1: for a, s in zip([E(j) for j in range(n)], Y)
            if isinstance(it, ast.Call) and isinstance(it.func, ast.Name) and it.func.id == 'zip' and len(it.args) == 2 and not it.keywords \
                    and isinstance(g.target, ast.Tuple) and len(g.target.elts) == 2 and all(isinstance(x, ast.Name) for x in g.target.elts):
                c0, y = it.args
                if isinstance(c0, (ast.ListComp, ast.GeneratorExp)) and len(c0.generators) == 1 and not c0.generators[0].ifs and is_pure(c0.elt, True) \
                        and isinstance(c0.generators[0].target, ast.Name) and isinstance(c0.generators[0].iter, ast.Call) \
                        and isinstance(c0.generators[0].iter.func, ast.Name) and c0.generators[0].iter.func.id == 'range' \
                        and len(c0.generators[0].iter.args) == 1 and isinstance(y, ast.Name):
                    j = c0.generators[0].target.id
                    if j not in (_names(n) - _names(c0)):
                        sub[g.target.elts[0].id] = c0.elt
                        sub[g.target.elts[1].id] = ast.Subscript(value=y, slice=ast.Name(id=j, ctx=ast.Load()), ctx=ast.Load())
                        gens.append(ast.comprehension(target=c0.generators[0].target, iter=c0.generators[0].iter,
                                                      ifs=[_Subst(sub).visit(i) for i in g.ifs], is_async=0))
                        changed = True
                        continue
            # EN1: for i, p in enumerate(S) with i unused  ->  for p in S
            if isinstance(it, ast.Call) and isinstance(it.func, ast.Name) and it.func.id == 'enumerate' and len(it.args) == 1 and not it.keywords \
                    and isinstance(g.target, ast.Tuple) and len(g.target.elts) == 2 and isinstance(g.target.elts[0], ast.Name):
                iv = g.target.elts[0].id
                others = [n.elt] if not isinstance(n, ast.DictComp) else [n.key, n.value]
                used = any(_mentions(x, iv) for x in others) or any(_mentions(i, iv) for gg in n.generators for i in gg.ifs) \
                    or any(_mentions(gg.iter, iv) for gg in n.generators if gg is not g)
                if not used:
                    g.target = g.target.elts[1]
                    g.iter = it.args[0]
            gens.append(g)
        if changed:
            n.generators = gens
            s = _Subst(sub)
            if isinstance(n, ast.DictComp):
                n.key, n.value = s.visit(n.key), s.visit(n.value)
            else:
                n.elt = s.visit(n.elt)
            ast.fix_missing_locations(n)
        return n

    def visit_ListComp(self, n):
        self.generic_visit(n)
        return self._fuse(n)

    def visit_Call(self, n):
        self.generic_visit(n)
        # GE1: f([E for ..]) -> f(E for ..) for consumers that only iterate once
        if len(n.args) == 1 and not n.keywords and isinstance(n.args[0], ast.ListComp):
            f = n.func
            nm = f.id if isinstance(f, ast.Name) else (f.attr if isinstance(f, ast.Attribute) else None)
            if nm in ('join', 'tuple', 'sum', 'any', 'all', 'list', 'set', 'sorted', 'min', 'max', 'dict', 'frozenset', 'extend'):
                lc = n.args[0]
                n.args = [ast.copy_location(ast.GeneratorExp(elt=lc.elt, generators=lc.generators), lc)]
        return n

    visit_GeneratorExp = visit_SetComp = visit_DictComp = visit_ListComp

    def visit_FunctionDef(self, n):
        return n

    visit_AsyncFunctionDef = visit_Lambda = visit_ClassDef = visit_FunctionDef


# ------------------------------------------------------------------------------------------ P1 / G1 / P5
def _uses_after(block_owner_body, idx, nm):
    """Loads of nm in the statements after position idx of the block."""
    out = []
    for s in block_owner_body[idx + 1:]:
        for n in _walk(s):
            if isinstance(n, ast.Name) and n.id == nm and isinstance(n.ctx, ast.Load):
                out.append(n)
    return out


def _capture_free(stmts, nm, expr_names):
    """No use of nm sits inside a comprehension that binds one of expr_names."""
    ok = True

    def rec(n, bound):
        nonlocal ok
        if isinstance(n, NESTED):
            return
        if isinstance(n, COMPS):
            b2 = bound | _bound_in_comp(n)
            for c in ast.iter_child_nodes(n):
                rec(c, b2)
            return
        if isinstance(n, ast.Name) and n.id == nm and isinstance(n.ctx, ast.Load) and (bound & expr_names):
            ok = False
        for c in ast.iter_child_nodes(n):
            rec(c, bound)
    for s in stmts:
        rec(s, set())
    return ok


def g1_inline(fn, vocab_ok=True, keep=None):
    """Forward substitution of single-definition pure temporaries (keep: names that are never substituted)."""
    changed_any = False
    for _ in range(6):
        facts = Facts(fn)
        total_loads = {}
        for n in _walk(fn):
            if isinstance(n, ast.Name) and isinstance(n.ctx, ast.Load):
                total_loads[n.id] = total_loads.get(n.id, 0) + 1
        done = False

        def run(block):
            nonlocal done
            i = 0
            while i < len(block):
                s = block[i]
                i += 1
                if not (isinstance(s, ast.Assign) and len(s.targets) == 1 and isinstance(s.targets[0], ast.Name)):
                    continue
                nm = s.targets[0].id
                if keep is not None and nm in keep:
                    continue
                if facts.nstores(nm) != 1 or nm in facts.params or nm in facts.declared or nm in facts.nested_uses or nm in facts.mutated:
                    continue
                e = s.value
                if isinstance(e, (ast.List, ast.Dict, ast.Set)):
                    continue      # a fresh mutable object has an identity
                if not total_loads.get(nm):
                    continue
                # a flag computed immediately before the `if` that alone tests it: nothing happens between the definition and the
                # evaluation of the test, so the test may as well contain the expression (whatever it reads, mutated later or not)
                if i < len(block) and isinstance(block[i], ast.If) and nm not in facts.nested_uses and nm not in facts.declared \
                        and facts.nstores(nm) == 1 and nm not in facts.params:
                    tst = block[i].test
                    tu = [x for x in ast.walk(tst) if isinstance(x, ast.Name) and x.id == nm and isinstance(x.ctx, ast.Load)]
                    if len(tu) == 1 == total_loads.get(nm) and not any(isinstance(x, (ast.Call, ast.Await, ast.NamedExpr, ast.Yield, ast.YieldFrom)) for x in ast.walk(tst)) \
                            and not any(isinstance(x, (ast.Await, ast.NamedExpr, ast.Yield, ast.YieldFrom, ast.Lambda)) for x in ast.walk(e)) and nm not in _free_names(e):
                        block[i].test = _Subst({nm: e}).visit(tst)
                        i -= 1
                        del block[i]
                        facts.store_sites.pop(nm, None)
                        total_loads[nm] = 0
                        done = True
                        continue
                if not is_pure(e, value_ok=False):
                    continue
                en = _free_names(e)
                if nm in en or (en & facts.mutated):
                    continue
                # attribute chains read must not be stored in the function
                if facts.attr_stores:
                    chains = {ast.unparse(x) for x in ast.walk(e) if isinstance(x, ast.Attribute)}
                    if any(c == a or c.startswith(a + '.') or a.startswith(c + '.') for c in chains for a in facts.attr_stores):
                        continue
                # operand stores matter only inside the statements that follow the definition in its block: every use is
                # there, and is preceded by the definition in the same activation of the block
                tail = block[i:]
                where = {}
                for k, st in enumerate(tail):
                    for x in _walk(st):
                        if isinstance(x, ast.Name):
                            where[id(x)] = k
                uses = [x for st in tail for x in _walk(st) if isinstance(x, ast.Name) and x.id == nm and isinstance(x.ctx, ast.Load)]
                if len(uses) != total_loads.get(nm, 0) or not uses:
                    continue      # used outside the statements that follow the definition in its own block
                store_idx = [(where[id(st)], st) for v in en for st in facts.store_sites.get(v, ()) if id(st) in where]
                bad = False
                if store_idx:
                    first_store = min(k for k, _ in store_idx)
                    for u in uses:
                        ku = where[id(u)]
                        if ku > first_store:
                            bad = True
                        elif ku == first_store:
                            st = tail[ku]
                            if isinstance(st, ast.If) and any(x is u for x in ast.walk(st.test)) \
                                    and not any(x is sn for k2, sn in store_idx if k2 == ku for x in ast.walk(st.test)):
                                continue          # the test of an `if` is evaluated (once) before the stores in its branches
                            # `v = f(temp)`: the right-hand side is evaluated before the store
                            if not (isinstance(st, (ast.Assign, ast.AugAssign)) and all(any(x is sn for x in ast.walk(t_)) for k2, sn in store_idx if k2 == ku
                                                                                       for t_ in (st.targets if isinstance(st, ast.Assign) else [st.target]))
                                    and any(x is u for x in ast.walk(st.value))):
                                bad = True
                if bad:
                    continue
                if not _capture_free(tail, nm, en):
                    continue
                sub = _Subst({nm: e})
                block[i:] = [sub.visit(x) for x in tail]
                i -= 1
                del block[i]
                facts.store_sites.pop(nm, None)
                total_loads[nm] = 0
                for x in ast.walk(e):
                    if isinstance(x, ast.Name) and isinstance(x.ctx, ast.Load):
                        total_loads[x.id] = total_loads.get(x.id, 0) + len(uses) - 1
                done = True
            return block
        _walk_blocks(fn, run)
        if not done:
            break
        changed_any = True
    return changed_any


def p1_inline_aliases(fn):
    """Aliases of attribute chains bound at the top level of the function (also non-whitelisted attributes such as
    `buffers = self.buffers`): mutating the object through the alias is the same as through the attribute."""
    facts = Facts(fn)
    names = {k: len(v) for k, v in facts.store_sites.items()}
    attrs = facts.attr_stores
    params = facts.params
    changed = True
    while changed:
        changed = False
        for i, s in enumerate(fn.body):
            if isinstance(s, ast.Assign) and len(s.targets) == 1 and isinstance(s.targets[0], ast.Name) and isinstance(s.value, ast.Attribute) \
                    and _is_chain(s.value):
                nm = s.targets[0].id
                chain = ast.unparse(s.value)
                base = s.value
                while isinstance(base, ast.Attribute):
                    base = base.value
                if names.get(nm, 0) != 1 or nm in params or nm in facts.nested_uses:
                    continue
                if any(a == chain or chain.startswith(a + '.') for a in attrs):
                    continue
                if names.get(base.id, 0) > (0 if base.id in params or base.id == 'self' else 1):
                    continue
                rest = fn.body[i + 1:]
                sub = _Subst({nm: s.value})
                fn.body[i + 1:] = [sub.visit(x) for x in rest]
                del fn.body[i]
                facts = Facts(fn)
                names = {k: len(v) for k, v in facts.store_sites.items()}
                attrs = facts.attr_stores
                changed = True
                break
    return fn


def _count_loads(node, name):
    return sum(1 for n in _walk(node) if isinstance(n, ast.Name) and n.id == name and isinstance(n.ctx, ast.Load))


def p5_inline_temps(fn, keep=None):
    loads, stores = {}, {}
    for n in _walk(fn):
        if isinstance(n, ast.Name):
            d = loads if isinstance(n.ctx, ast.Load) else stores
            d[n.id] = d.get(n.id, 0) + 1

    def run(block):
        i = 0
        while i + 1 < len(block):
            s, nxt = block[i], block[i + 1]
            if isinstance(s, ast.Assign) and len(s.targets) == 1 and isinstance(s.targets[0], ast.Name) \
                    and isinstance(s.value, (ast.Call, ast.ListComp, ast.DictComp, ast.GeneratorExp)):
                nm = s.targets[0].id
                if keep is not None and nm in keep:
                    i += 1
                    continue
                if loads.get(nm, 0) == 1 and stores.get(nm, 0) == 1 and isinstance(nxt, (ast.Assign, ast.AugAssign, ast.Return, ast.Expr)) \
                        and _count_loads(nxt, nm) == 1 \
                        and not any(isinstance(n, COMPS + (ast.Lambda,)) and _mentions(n, nm) for n in ast.walk(nxt)) \
                        and not any(isinstance(n, ast.Await) for n in ast.walk(s.value)):
                    block[i + 1] = _Subst({nm: s.value}).visit(nxt)
                    del block[i]
                    loads[nm] = 0
                    continue
            i += 1
        return block
    _walk_blocks(fn, run)
    return fn


# ------------------------------------------------------------------------------------------ ZR1
class _ZipRanges(ast.NodeTransformer):
    """ZR1: `for a, b in zip(range(A0, A1), range(B0, B1))` with ranges of the same length (as linear forms) is
    `for a in range(A0, A1): b = a + (B0 - A0)`."""

    @staticmethod
    def _descending(e):
        """(first element, length) of `range(B0, B1, -1)` / `reversed(range(N))` / `reversed(range(A, B))`; None otherwise"""
        if isinstance(e, ast.Call) and isinstance(e.func, ast.Name) and e.func.id == 'range' and len(e.args) == 3 and not e.keywords \
                and isinstance(e.args[2], ast.UnaryOp) and isinstance(e.args[2].op, ast.USub) and isinstance(e.args[2].operand, ast.Constant) and e.args[2].operand.value == 1:
            return e.args[0], ast.BinOp(left=e.args[0], op=ast.Sub(), right=e.args[1])
        if isinstance(e, ast.Call) and isinstance(e.func, ast.Name) and e.func.id == 'reversed' and len(e.args) == 1 and isinstance(e.args[0], ast.Call) \
                and isinstance(e.args[0].func, ast.Name) and e.args[0].func.id == 'range' and len(e.args[0].args) in (1, 2):
            r = e.args[0]
            lo = r.args[0] if len(r.args) == 2 else ast.Constant(value=0)
            return ast.BinOp(left=r.args[-1], op=ast.Sub(), right=ast.Constant(value=1)), ast.BinOp(left=r.args[-1], op=ast.Sub(), right=lo)
        return None

    @staticmethod
    def _leq(a, b):
        """a <= b for lengths (linear forms over non-negative names; an opaque `<x // c>` with c >= 1 is at most x)"""
        if (b - a).nonneg():
            return True
        import re
        syms = [s_ for s_ in a.syms() if s_.startswith('<')]
        if len(a.syms()) == 1 and len(syms) == 1 and a.c == 0 and a.coef(syms[0]) == 1:
            m_ = re.fullmatch(r'<(\w+) // (\d+)>', syms[0])
            if m_ and int(m_.group(2)) >= 1:
                from .linform import Lin
                return (b - Lin.sym(m_.group(1))).nonneg()
        return False

    def visit_For(self, n):
        self.generic_visit(n)
        it, tg = n.iter, n.target
        if isinstance(it, ast.Call) and isinstance(it.func, ast.Name) and it.func.id == 'zip' and len(it.args) == 2 and not it.keywords \
                and isinstance(tg, ast.Tuple) and len(tg.elts) == 2 and all(isinstance(x, ast.Name) for x in tg.elts) \
                and isinstance(it.args[0], ast.Call) and isinstance(it.args[0].func, ast.Name) and it.args[0].func.id == 'range' and len(it.args[0].args) in (1, 2) \
                and self._descending(it.args[1]) is not None:
            # second component counts down: b = B0 - (a - A0), provided the descending range is at least as long as the first
            from .linform import to_lin, Lin
            r0 = it.args[0]
            lo0 = r0.args[0] if len(r0.args) == 2 else ast.Constant(value=0)
            b0, blen = self._descending(it.args[1])
            l0 = to_lin(ast.BinOp(left=r0.args[-1], op=ast.Sub(), right=lo0), {}, opaque=True)
            l1 = to_lin(blen, {}, opaque=True)
            a, b = tg.elts
            stored = {x.id for s_ in n.body for x in ast.walk(s_) if isinstance(x, ast.Name) and isinstance(x.ctx, ast.Store)}
            if l0 is not None and l1 is not None and self._leq(l0, l1) and not ({a.id, b.id} & stored):
                val = ast.BinOp(left=copy.deepcopy(b0), op=ast.Sub(), right=ast.BinOp(left=ast.Name(id=a.id, ctx=ast.Load()), op=ast.Sub(), right=copy.deepcopy(lo0)))
                lo0c = to_lin(lo0, {}, opaque=False)
                if lo0c is not None and lo0c == 0:
                    val = ast.BinOp(left=copy.deepcopy(b0), op=ast.Sub(), right=ast.Name(id=a.id, ctx=ast.Load()))
                first = ast.Assign(targets=[ast.Name(id=b.id, ctx=ast.Store())], value=val)
                new = ast.For(target=ast.Name(id=a.id, ctx=ast.Store()), iter=r0, body=[first] + n.body, orelse=n.orelse)
                ast.copy_location(new, n)
                for x in ast.walk(first):
                    ast.copy_location(x, n)
                return new
            return n
        if isinstance(it, ast.Call) and isinstance(it.func, ast.Name) and it.func.id == 'zip' and len(it.args) == 2 and not it.keywords \
                and isinstance(tg, ast.Tuple) and len(tg.elts) == 2 and all(isinstance(x, ast.Name) for x in tg.elts) \
                and all(isinstance(a, ast.Call) and isinstance(a.func, ast.Name) and a.func.id == 'range' and len(a.args) in (1, 2) and not a.keywords for a in it.args):
            from .linform import to_lin
            r0, r1 = it.args
            lo0 = r0.args[0] if len(r0.args) == 2 else ast.Constant(value=0)
            lo1 = r1.args[0] if len(r1.args) == 2 else ast.Constant(value=0)
            l0, l1 = to_lin(ast.BinOp(left=r0.args[-1], op=ast.Sub(), right=lo0), {}, opaque=False), to_lin(ast.BinOp(left=r1.args[-1], op=ast.Sub(), right=lo1), {}, opaque=False)
            a, b = tg.elts
            stored = {x.id for s_ in n.body for x in ast.walk(s_) if isinstance(x, ast.Name) and isinstance(x.ctx, ast.Store)}
            if l0 is not None and l0 == l1 and not ({a.id, b.id} & stored):
                off = ast.BinOp(left=copy.deepcopy(lo1), op=ast.Sub(), right=copy.deepcopy(lo0))
                val = ast.BinOp(left=ast.Name(id=a.id, ctx=ast.Load()), op=ast.Add(), right=off)
                lo0c = to_lin(lo0, {}, opaque=False)
                if lo0c is not None and lo0c == 0:
                    val = ast.BinOp(left=ast.Name(id=a.id, ctx=ast.Load()), op=ast.Add(), right=copy.deepcopy(lo1))
                first = ast.Assign(targets=[ast.Name(id=b.id, ctx=ast.Store())], value=val)
                new = ast.For(target=ast.Name(id=a.id, ctx=ast.Store()), iter=r0, body=[first] + n.body, orelse=n.orelse)
                ast.copy_location(new, n)
                for x in ast.walk(first):
                    ast.copy_location(x, n)
                return new
        return n


# ------------------------------------------------------------------------------------------ LB1
def lb1_inline_lambdas(fn):
    """LB1: a local name bound once to a lambda with an expression body and only ever *called* (positional arguments that are names,
    constants or attribute chains) is applied where it is called: `p = lambda v: E; .. p(a) ..` reads `.. E[v := a] ..`.  (A lambda
    reads its free variables when it is called, so the expression means the same at the call site.)"""
    changed = False
    for _ in range(4):
        cands = {}
        stores = {}
        for n in _walk(fn):
            if isinstance(n, ast.Name) and isinstance(n.ctx, (ast.Store, ast.Del)):
                stores[n.id] = stores.get(n.id, 0) + 1

        def visit_block(block):
            for s in block:
                if isinstance(s, ast.Assign) and len(s.targets) == 1 and isinstance(s.targets[0], ast.Name) and isinstance(s.value, ast.Lambda):
                    lam = s.value
                    a = lam.args
                    if not (a.vararg or a.kwarg or a.kwonlyargs or a.posonlyargs or a.defaults) and stores.get(s.targets[0].id) == 1 \
                            and not any(isinstance(x, (ast.Lambda, ast.Await, ast.Yield, ast.NamedExpr, ast.ListComp, ast.GeneratorExp, ast.SetComp, ast.DictComp))
                                        for x in ast.walk(lam.body)):
                        cands[s.targets[0].id] = (s, lam, block)
            return block
        _walk_blocks(fn, visit_block)
        done = False
        for nm, (st, lam, block) in cands.items():
            uses = [n for n in _walk(fn) if isinstance(n, ast.Name) and n.id == nm and isinstance(n.ctx, ast.Load)]
            calls = [c for c in _walk(fn) if isinstance(c, ast.Call) and isinstance(c.func, ast.Name) and c.func.id == nm]
            params = [x.arg for x in lam.args.args]
            if not uses or len(uses) != len(calls) or any(c.keywords or len(c.args) != len(params)
                                                          or not all(isinstance(a_, (ast.Name, ast.Constant, ast.Attribute)) for a_ in c.args) for c in calls):
                continue
            if any(isinstance(x, ast.Name) and x.id == nm for x in ast.walk(lam.body)):
                continue

            class Ap(ast.NodeTransformer):
                def visit_Call(self, c):
                    c = self.generic_visit(c)
                    if isinstance(c.func, ast.Name) and c.func.id == nm:
                        return ast.copy_location(_Subst(dict(zip(params, c.args))).visit(copy.deepcopy(lam.body)), c)
                    return c
            block.remove(st)
            fn.body = [Ap().visit(x) for x in fn.body]
            done = changed = True
            break
        if not done:
            break
    if changed:
        ast.fix_missing_locations(fn)
    return changed


# ------------------------------------------------------------------------------------------ LC1
def _pure_len_test(e):
    return not any(isinstance(x, (ast.Await, ast.Yield, ast.NamedExpr, ast.Lambda)) or
                   isinstance(x, ast.Call) and not (isinstance(x.func, ast.Name) and x.func.id == 'len') for x in ast.walk(e))


def _stores(node, name):
    return any(isinstance(x, ast.Name) and x.id == name and isinstance(x.ctx, (ast.Store, ast.Del)) for x in ast.walk(node))


def _lc_flow(stmts, name, c, st, conts):
    """Abstract value of `name` ('c' = the constant c, 'T' = anything) after stmts, starting from st; None if no path falls through.
    States at `continue` statements are appended to conts."""
    for s in stmts:
        if st is None:
            return None
        if isinstance(s, ast.Assign) and len(s.targets) == 1 and isinstance(s.targets[0], ast.Name) and s.targets[0].id == name:
            st = 'c' if isinstance(s.value, ast.Constant) and type(s.value.value) is int and s.value.value == c else 'T'
        elif isinstance(s, (ast.Return, ast.Raise, ast.Break)):
            return None
        elif isinstance(s, ast.Continue):
            conts.append(st)
            return None
        elif isinstance(s, ast.If):
            a = _lc_flow(s.body, name, c, st, conts)
            b = _lc_flow(s.orelse, name, c, st, conts)
            st = a if b is None else b if a is None else ('c' if a == b == 'c' else 'T')
        elif _stores(s, name) or isinstance(s, (ast.While, ast.For, ast.AsyncFor, ast.Try, ast.With, ast.AsyncWith, ast.Match)) and \
                (any(isinstance(x, (ast.Continue, ast.Break)) for x in ast.walk(s)) or _stores(s, name)):
            st = 'T'
    return st


def lc1_loop_constant(block):
    """LC1: a while loop whose test reads a local that holds the same integer constant whenever the test is evaluated with a chance of
    being true -- `L = c` before the loop, and `L = c` last on every path that comes round -- reads that constant:
        L = c                                   L = c
        while G(L):                             while G(c):
            ..; L += e                              ..; L = c + e
            if G(L): ..; L = c          ==>         if G(L): ..; L = c
                                                    else: break
    (the test repeated as the last statement needs no second evaluation when it failed: nothing changes in between)."""
    for k, w in enumerate(block):
        if not (isinstance(w, ast.While) and not w.orelse and w.body and _pure_len_test(w.test)):
            continue
        names = {x.id for x in ast.walk(w.test) if isinstance(x, ast.Name)}
        for L in sorted(names):
            if not _stores(w, L):
                continue
            c = None
            for s in reversed(block[:k]):
                if isinstance(s, ast.Assign) and len(s.targets) == 1 and isinstance(s.targets[0], ast.Name) and s.targets[0].id == L:
                    if isinstance(s.value, ast.Constant) and type(s.value.value) is int:
                        c = s.value.value
                    break
                if _stores(s, L):
                    break
            if c is None:
                continue
            last = w.body[-1]
            implied = isinstance(last, ast.If) and not last.orelse and ast.unparse(last.test) == ast.unparse(w.test)
            body = w.body
            if implied:
                trial = copy.copy(last)
                trial.orelse = [ast.Break()]
                body = w.body[:-1] + [trial]
            conts = []
            end = _lc_flow(body, L, c, 'c', conts)
            if any(x != 'c' for x in conts + ([end] if end is not None else [])):
                continue
            # L == c whenever the test is evaluated
            if implied:
                # written as the early exit the rules know: if not G: break; <body of the if>
                ex = ast.copy_location(ast.If(test=_Orient().visit(negate(copy.deepcopy(last.test))), body=[ast.copy_location(ast.Break(), last)], orelse=[]), last)
                ast.fix_missing_locations(ex)
                w.body[-1:] = [ex] + last.body

            class Sub(ast.NodeTransformer):
                def visit_Name(self, n):
                    return ast.copy_location(ast.Constant(value=c), n) if n.id == L and isinstance(n.ctx, ast.Load) else n
            w.test = Sub().visit(w.test)
            # the straight-line head of the body, up to the first statement that stores L, reads the constant as well
            for i, s in enumerate(w.body):
                if isinstance(s, ast.AugAssign) and isinstance(s.target, ast.Name) and s.target.id == L:
                    w.body[i] = ast.copy_location(ast.Assign(targets=[ast.Name(id=L, ctx=ast.Store())],
                                                             value=ast.BinOp(left=ast.Constant(value=c), op=s.op, right=Sub().visit(s.value)), lineno=s.lineno), s)
                    ast.fix_missing_locations(w.body[i])
                    break
                if _stores(s, L) or isinstance(s, (ast.While, ast.For, ast.AsyncFor, ast.Try, ast.If, ast.With, ast.AsyncWith, ast.Match)) and _stores(s, L):
                    if isinstance(s, ast.Assign) and len(s.targets) == 1 and isinstance(s.targets[0], ast.Name):
                        s.value = Sub().visit(s.value)
                    break
                w.body[i] = Sub().visit(s)
    return block


# ------------------------------------------------------------------------------------------ TS1
def ts1_split_tuple(block):
    """TS1: `a, b = X, Y` is `a = X; b = Y` when no later value reads an earlier target (names and attribute chains only; element
    targets and swaps are left alone)."""
    out = []
    for s in block:
        if isinstance(s, ast.Assign) and len(s.targets) == 1 and isinstance(s.targets[0], ast.Tuple) and isinstance(s.value, ast.Tuple) \
                and len(s.targets[0].elts) == len(s.value.elts) >= 2 and all(isinstance(t, (ast.Name, ast.Attribute)) for t in s.targets[0].elts) \
                and not any(isinstance(x, (ast.Starred, ast.Await, ast.NamedExpr, ast.Yield)) for x in ast.walk(s.value)):
            tg, vs = s.targets[0].elts, s.value.elts
            ok = True
            for k in range(1, len(vs)):
                earlier_names = {t.id for t in tg[:k] if isinstance(t, ast.Name)}
                earlier_attrs = {ast.unparse(t) for t in tg[:k] if isinstance(t, ast.Attribute)}
                for x in ast.walk(vs[k]):
                    if isinstance(x, ast.Name) and x.id in earlier_names:
                        ok = False
                    if isinstance(x, ast.Attribute) and ast.unparse(x) in earlier_attrs:
                        ok = False
                    if isinstance(x, ast.Call):
                        ok = ok and not earlier_attrs          # a call could read the attribute just stored
            # a Name target that is also the root of a later Attribute target (`a, a.x = ..`) changes meaning when split
            for k in range(1, len(tg)):
                if isinstance(tg[k], ast.Attribute):
                    root = tg[k]
                    while isinstance(root, ast.Attribute):
                        root = root.value
                    if isinstance(root, ast.Name) and root.id in {t.id for t in tg[:k] if isinstance(t, ast.Name)}:
                        ok = False
            if ok:
                for t, v in zip(tg, vs):
                    out.append(ast.copy_location(ast.Assign(targets=[t], value=v), s))
                continue
        out.append(s)
    return out


# ------------------------------------------------------------------------------------------ GX1
def gx1_generator_loop(fn):
    """GX1: `for X in (E for v in IT [if C]): B` is `for v in IT: [if not C: continue]; X = E; B` -- the generator computes each
    element exactly when the loop asks for it -- provided v is a plain name that the function does not use anywhere else."""
    names = {}
    for x in ast.walk(fn):
        if isinstance(x, ast.Name):
            names[x.id] = names.get(x.id, 0) + 1
        elif isinstance(x, ast.arg):
            names[x.arg] = names.get(x.arg, 0) + 1
    for lp in [n for n in ast.walk(fn) if isinstance(n, ast.For)]:
        g = lp.iter
        if not (isinstance(g, ast.GeneratorExp) and len(g.generators) == 1 and not g.generators[0].is_async and isinstance(g.generators[0].target, ast.Name)
                and isinstance(lp.target, ast.Name)):
            continue
        c = g.generators[0]
        v = c.target.id
        inside = sum(1 for x in ast.walk(g) if isinstance(x, ast.Name) and x.id == v)
        if names.get(v, 0) != inside or v == lp.target.id or any(isinstance(x, (ast.Await, ast.Yield, ast.NamedExpr)) for x in ast.walk(g)):
            continue
        head = [ast.If(test=negate(t), body=[ast.Continue()], orelse=[]) for t in c.ifs]
        head.append(ast.Assign(targets=[ast.Name(id=lp.target.id, ctx=ast.Store())], value=g.elt, lineno=lp.lineno))
        for h in head:
            ast.copy_location(h, lp)
            ast.fix_missing_locations(h)
        lp.target = ast.copy_location(ast.Name(id=v, ctx=ast.Store()), lp.target)
        lp.iter = c.iter
        lp.body = head + lp.body


# ------------------------------------------------------------------------------------------ RD1
def rd1_reduce(block):
    """RD1: `v = functools.reduce(lambda a, x: E, SEQ, INIT)` is the fold `v = INIT; for x in SEQ: v = E[a := v]`."""
    out = []
    for s in block:
        v = s.value if isinstance(s, ast.Assign) and len(s.targets) == 1 and isinstance(s.targets[0], ast.Name) else None
        if isinstance(v, ast.Call) and ast.unparse(v.func) in ('functools.reduce', 'reduce') and len(v.args) == 3 and not v.keywords \
                and isinstance(v.args[0], ast.Lambda) and len(v.args[0].args.args) == 2 and not v.args[0].args.defaults \
                and not any(isinstance(x, (ast.Lambda, ast.Await, ast.NamedExpr)) for x in ast.walk(v.args[0].body)):
            lam = v.args[0]
            acc, el = lam.args.args[0].arg, lam.args.args[1].arg
            tgt = s.targets[0].id
            free = {x.id for x in ast.walk(lam.body) if isinstance(x, ast.Name)}
            if tgt in free - {acc} or el == tgt:
                out.append(s)
                continue
            body = _Subst({acc: ast.Name(id=tgt, ctx=ast.Load())}).visit(copy.deepcopy(lam.body)) if acc != tgt else copy.deepcopy(lam.body)
            init = ast.copy_location(ast.Assign(targets=[ast.Name(id=tgt, ctx=ast.Store())], value=v.args[2]), s)
            step = ast.Assign(targets=[ast.Name(id=tgt, ctx=ast.Store())], value=body)
            loop = ast.copy_location(ast.For(target=ast.Name(id=el, ctx=ast.Store()), iter=v.args[1], body=[step], orelse=[]), s)
            for x in ast.walk(loop):
                if not hasattr(x, 'lineno'):
                    ast.copy_location(x, s)
            out.extend([init, loop])
            continue
        out.append(s)
    return out


# ------------------------------------------------------------------------------------------ MP1
class _MapComp(ast.NodeTransformer):
    """MP1: `map(F, A)` with one iterable and a callable given by name / attribute is the generator `(F(v) for v in A)`;
    `list(map(F, A))` is `[F(v) for v in A]`.  (F is evaluated once in both forms; the rules then see a call site with a binder
    instead of a callable passed around.)"""
    n = 0

    def visit_Call(self, node):
        self.generic_visit(node)
        f = node.func
        if isinstance(f, ast.Name) and f.id in ('list', 'tuple') and len(node.args) == 1 and not node.keywords and isinstance(node.args[0], ast.GeneratorExp) \
                and getattr(node.args[0], '_from_map', False) and f.id == 'list':
            g = node.args[0]
            return ast.copy_location(ast.ListComp(elt=g.elt, generators=g.generators), node)
        if isinstance(f, ast.Name) and f.id == 'filter' and len(node.args) == 2 and not node.keywords and isinstance(node.args[0], (ast.Name, ast.Attribute)) \
                and not isinstance(node.args[1], ast.Starred):
            # filter(F, A) is the generator (v for v in A if F(v))
            v = '_m'
            call = ast.Call(func=node.args[0], args=[ast.Name(id=v, ctx=ast.Load())], keywords=[])
            g = ast.GeneratorExp(elt=ast.Name(id=v, ctx=ast.Load()),
                                 generators=[ast.comprehension(target=ast.Name(id=v, ctx=ast.Store()), iter=node.args[1], ifs=[call], is_async=0)])
            g._from_map = True
            ast.copy_location(g, node)
            for x in ast.walk(g):
                if not hasattr(x, 'lineno'):
                    ast.copy_location(x, node)
            return g
        if isinstance(f, ast.Name) and f.id == 'map' and len(node.args) == 2 and not node.keywords and isinstance(node.args[0], (ast.Name, ast.Attribute)) \
                and not isinstance(node.args[1], ast.Starred):
            v = '_m'
            call = ast.Call(func=node.args[0], args=[ast.Name(id=v, ctx=ast.Load())], keywords=[])
            g = ast.GeneratorExp(elt=call, generators=[ast.comprehension(target=ast.Name(id=v, ctx=ast.Store()), iter=node.args[1], ifs=[], is_async=0)])
            g._from_map = True
            ast.copy_location(g, node)
            for x in ast.walk(g):
                if not hasattr(x, 'lineno'):
                    ast.copy_location(x, node)
            return g
        return node

    def visit_FunctionDef(self, n):
        return self.generic_visit(n)


# ------------------------------------------------------------------------------------------ P6 / P7
def p6_unpack1(block):
    for s in block:
        if isinstance(s, ast.Assign) and len(s.targets) == 1 and isinstance(s.targets[0], ast.Tuple) and len(s.targets[0].elts) == 1 \
                and not isinstance(s.targets[0].elts[0], ast.Starred):
            s.targets[0] = s.targets[0].elts[0]
            s.value = ast.copy_location(ast.Subscript(value=s.value, slice=ast.Constant(value=0), ctx=ast.Load()), s.value)
    return block


def p7_aug(block):
    out = []
    for s in block:
        if isinstance(s, ast.Assign) and len(s.targets) == 1 and isinstance(s.targets[0], (ast.Name, ast.Attribute)) and isinstance(s.value, ast.BinOp) \
                and isinstance(s.value.op, (ast.Add, ast.Sub, ast.Mult)):
            t = ast.unparse(s.targets[0])
            terms = []

            def flat(e):
                if isinstance(e, ast.BinOp) and isinstance(e.op, ast.Add) and isinstance(s.value.op, ast.Add):
                    flat(e.left)
                    flat(e.right)
                else:
                    terms.append(e)
            if isinstance(s.value.op, ast.Add):
                flat(s.value)
                idx = [i for i, x in enumerate(terms) if ast.unparse(x) == t]
                if len(idx) == 1 and len(terms) >= 2:
                    others = [x for i, x in enumerate(terms) if i != idx[0]]
                    val = others[0]
                    for o in others[1:]:
                        val = ast.BinOp(left=val, op=ast.Add(), right=o)
                    tgt = copy.deepcopy(s.targets[0])
                    out.append(ast.copy_location(ast.AugAssign(target=tgt, op=ast.Add(), value=val), s))
                    continue
            elif ast.unparse(s.value.left) == t:
                tgt = copy.deepcopy(s.targets[0])
                out.append(ast.copy_location(ast.AugAssign(target=tgt, op=s.value.op, value=s.value.right), s))
                continue
        out.append(s)
    return out


# ------------------------------------------------------------------------------------------ driver
def _bound_names(fn):
    out = set()
    for n in ast.walk(fn):
        if isinstance(n, ast.Name) and isinstance(n.ctx, (ast.Store, ast.Del)):
            out.add(n.id)
        elif isinstance(n, ast.arg):
            out.add(n.arg)
        elif isinstance(n, (ast.FunctionDef, ast.AsyncFunctionDef, ast.ClassDef)) and n is not fn:
            out.add(n.name)
        elif isinstance(n, (ast.Import, ast.ImportFrom)):
            out |= {(a.asname or a.name).split('.')[0] for a in n.names}
        elif isinstance(n, ast.ExceptHandler) and n.name:
            out.add(n.name)
    return out



# ------------------------------------------------------------------------------------------ VR: vocabulary restoration
def _local_names(fn):
    """names bound by stores / loop and comprehension targets inside fn, minus the parameters of fn and of nested functions"""
    params = set()
    for f in ast.walk(fn):
        if isinstance(f, (ast.FunctionDef, ast.AsyncFunctionDef, ast.Lambda)):
            a = f.args
            params |= {x.arg for x in a.posonlyargs + a.args + a.kwonlyargs}
            if a.vararg:
                params.add(a.vararg.arg)
            if a.kwarg:
                params.add(a.kwarg.arg)
    out = set()
    for n in ast.walk(fn):
        if isinstance(n, ast.Name) and isinstance(n.ctx, (ast.Store, ast.Del)):
            out.add(n.id)
    return out - params


def def_signatures(fn):
    """[(local name, (sorted definition signatures))] in order of first binding.  A signature is the kind of the binding plus the
    text of the defining expression with every local name written `_`, so that it is invariant under renaming of locals."""
    loc = _local_names(fn)

    class W(ast.NodeTransformer):
        def visit_Name(self, n):
            return ast.copy_location(ast.Name(id='_', ctx=n.ctx), n) if n.id in loc else n

    def text(e):
        try:
            return ast.unparse(W().visit(copy.deepcopy(e)))
        except Exception:
            return '?'
    sigs, order = {}, []

    def add(name, sig):
        if name not in loc:
            return
        if name not in sigs:
            sigs[name] = []
            order.append(name)
        sigs[name].append(sig)

    def targets(t, kind, vtxt):
        if isinstance(t, ast.Name):
            add(t.id, f'{kind}:{vtxt}')
        elif isinstance(t, (ast.Tuple, ast.List)):
            for i, x in enumerate(t.elts):
                targets(x.value if isinstance(x, ast.Starred) else x, f'{kind}{i}/{len(t.elts)}', vtxt)
    # document order (pre-order, fields in source order)
    stack = [fn]
    while stack:
        n = stack.pop()
        if isinstance(n, ast.Assign):
            for t in n.targets:
                if isinstance(n.value, (ast.Tuple, ast.List)) and isinstance(t, (ast.Tuple, ast.List)) and len(t.elts) == len(n.value.elts):
                    for x, v in zip(t.elts, n.value.elts):
                        targets(x, 'a', text(v))
                else:
                    targets(t, 'a', text(n.value))
        elif isinstance(n, ast.AnnAssign) and n.value is not None:
            targets(n.target, 'a', text(n.value))
        elif isinstance(n, ast.AugAssign):
            targets(n.target, 'g' + type(n.op).__name__, text(n.value))
        elif isinstance(n, (ast.For, ast.AsyncFor)):
            targets(n.target, 'f', text(n.iter))
        elif isinstance(n, ast.comprehension):
            targets(n.target, 'c', text(n.iter))
        elif isinstance(n, ast.NamedExpr):
            targets(n.target, 'w', text(n.value))
        elif isinstance(n, (ast.With, ast.AsyncWith)):
            for it in n.items:
                if it.optional_vars is not None:
                    targets(it.optional_vars, 'h', text(it.context_expr))
        stack.extend(reversed(list(ast.iter_child_nodes(n))))
    return [(nm, tuple(sorted(sigs[nm]))) for nm in order]


class _RenameAll(ast.NodeTransformer):
    def __init__(self, m):
        self.m = m

    def visit_Name(self, n):
        if n.id in self.m:
            n.id = self.m[n.id]
        return n

    def visit_Nonlocal(self, n):
        n.names = [self.m.get(x, x) for x in n.names]
        return n

    visit_Global = visit_Nonlocal


def restore_vocabulary(fn, refsigs):
    """Undo a renaming of local variables: a local that the reference tree does not have in this function is given the name of a
    reference local that is missing now and was defined in the same way (same kinds of bindings, same defining expressions up to
    the names of locals).  A consistent renaming of a local is an equivalence whatever name is chosen; the reference table only
    proposes the name.  Returns the mapping applied."""
    if not refsigs:
        return {}
    cur = def_signatures(fn)
    curd = dict(cur)
    refd = dict(refsigs)
    lost = [nm for nm, _ in refsigs if nm not in curd]
    new = [nm for nm, _ in cur if nm not in refd]
    if not lost or not new:
        return {}
    bound = _bound_names(fn)
    by_sig = {}
    for nm in lost:
        by_sig.setdefault(refd[nm], []).append(nm)
    mapping = {}
    for nm in new:
        cands = by_sig.get(curd[nm])
        if cands:
            target = cands.pop(0)          # ties are paired in order of first binding
            if target not in bound:
                mapping[nm] = target
    if mapping:
        _RenameAll(mapping).visit(fn)
    return mapping


ALL_L2 = frozenset({'GN', 'PN', 'W', 'IV1', 'RG1', 'C1', 'E1', 'S1', 'R1', 'U1', 'G1', 'P5', 'L1', 'F1', 'M1', 'II', 'B1', 'P3', 'P3B'})
# second-stage passes that are switched on (see DESIGN.md section 3: a pass is enabled only when every rule has been
# confirmed to be quiet on the reference tree with it and the seeded corpus is still detected)
ENABLED_L2 = frozenset({'GN', 'PN', 'W', 'IV1', 'C1', 'S1', 'U1', 'F1', 'M1', 'II', 'B1', 'P3B'})


def enabled_passes():
    import os
    v = os.environ.get('MPV_PASSES')      # developer override, used by the pass bisection only
    if v is None:
        return ENABLED_L2
    return frozenset(x for x in v.split(',') if x) & ALL_L2 if v != 'all' else ALL_L2


def canon_function(fn_node, level=None, protocol=False, vocab=None, refsigs=None):
    """Return a canonicalised deep copy of a FunctionDef / AsyncFunctionDef.

    protocol=True additionally applies the passes the small message-layer functions were written against
    (alias inlining of arbitrary attribute chains, early-return nesting)."""
    fn = copy.deepcopy(fn_node)
    en = enabled_passes() if level is None else (ALL_L2 if level >= 2 else frozenset())
    if refsigs:
        restore_vocabulary(fn, refsigs)        # VR: renamed locals get their reference names back
    if vocab is not None and not (vocab - _bound_names(fn)):
        # (a function that lost a name of the reference vocabulary may have had a temporary *renamed*: the rules follow renamed
        # temporaries through their definitions, so the function is left as written)
        # GN / PN: temporaries that the reference tree does not have in this function are substituted into their uses
        # first, so that every later pass and every rule sees the function in the vocabulary it was written against
        for _ in range(4):
            ch = False
            if 'GN' in en:
                ch = g1_inline(fn, keep=vocab) or ch
            if 'PN' in en:
                before = ast.dump(fn)
                fn = p5_inline_temps(fn, keep=vocab)
                ch = ch or ast.dump(fn) != before
            if not ch:
                break
    _walk_blocks(fn, p6_unpack1)
    _walk_blocks(fn, rd1_reduce)
    _walk_blocks(fn, ts1_split_tuple)
    gx1_generator_loop(fn)
    mc = _MapComp()
    fn.body = [mc.visit(s) for s in fn.body]
    lb1_inline_lambdas(fn)
    zr = _ZipRanges()
    fn.body = [zr.visit(s) for s in fn.body]
    o = _Orient()
    fn.body = [o.visit(s) for s in fn.body]
    t = _Tests()
    fn.body = [t.visit(s) for s in fn.body]
    _walk_blocks(fn, lc1_loop_constant)
    if protocol:
        _walk_blocks(fn, p7_aug)
        fn = p1_inline_aliases(fn)
        fn = p5_inline_temps(fn)
        _walk_blocks(fn, p4_early_return)
        _walk_blocks(fn, p3_polarity)
    if en - {'GN', 'PN'}:
        for _ in range(4):
            before = ast.dump(fn)
            if 'W' in en:
                w_loops(fn, Facts(fn))
            if 'IV1' in en:
                iv1_induction(fn)
            if 'RG1' in en:
                rg1_ranges(fn)
            if 'C1' in en:
                _walk_loop_bodies(fn, c1_continue)
            if 'E1' in en:
                _walk_blocks(fn, e1_lift)
            if 'S1' in en:
                s1_sink(fn)
            if 'R1' in en:
                _walk_blocks(fn, r1_return_sink)
            if not protocol and 'U1' in en:
                _walk_blocks(fn, u1_unnest)
            if 'G1' in en:
                g1_inline(fn)
            if 'P5' in en:
                fn = p5_inline_temps(fn)
            if 'L1' in en:
                _walk_blocks(fn, l1_loops)
            if 'F1' in en:
                f = _Fuse()
                fn.body = [f.visit(s) for s in fn.body]
            fn.body = [t.visit(s) for s in fn.body]
            if 'M1' in en:
                _walk_blocks(fn, m1_merge_ifs)
            if 'II' in en:
                ii = _IsInst()
                fn.body = [ii.visit(s) for s in fn.body]
            if 'B1' in en:
                _walk_blocks(fn, b1_bool_returns)
            if 'P3' in en:
                _walk_blocks(fn, p3_polarity)
            if not protocol and 'P3B' in en:
                _walk_blocks(fn, p3b_guard_polarity)
            if ast.dump(fn) == before:
                break
    ast.fix_missing_locations(fn)
    return fn


def is_zero_test(test):
    """`not X` or `X == 0` -> X ;  else None."""
    if isinstance(test, ast.UnaryOp) and isinstance(test.op, ast.Not):
        return test.operand
    if isinstance(test, ast.Compare) and len(test.ops) == 1 and isinstance(test.ops[0], ast.Eq):
        l, r = test.left, test.comparators[0]
        if isinstance(r, ast.Constant) and r.value == 0:
            return l
        if isinstance(l, ast.Constant) and l.value == 0:
            return r
    return None


# ------------------------------------------------------------------------------------------ H1
class Helper:
    """A small function that is not part of the rule vocabulary: analysed at its call sites."""

    def __init__(self, node, kind, cls):
        self.node = node          # canonicalised FunctionDef
        self.is_async = kind.startswith('a')
        kind = kind[1:] if self.is_async else kind
        self.kind = kind          # 'function' | 'method' | 'classmethod' | 'staticmethod'
        self.cls = cls            # enclosing class name or None
        self.name = node.name


def helper_candidate(node):
    """Can calls to this function be replaced by its body?"""
    if not isinstance(node, (ast.FunctionDef, ast.AsyncFunctionDef)):
        return None
    # a plain `async def` helper (no decorator: not an MPyC coroutine with its own program counter) that is awaited runs its body
    # inside the caller's task, exactly as if the body stood at the `await`
    is_async = isinstance(node, ast.AsyncFunctionDef)
    if is_async and node.decorator_list:
        return None
    kind = 'function'
    for d in node.decorator_list:
        t = ast.unparse(d)
        if t == 'staticmethod':
            kind = 'staticmethod'
        elif t == 'classmethod':
            kind = 'classmethod'
        else:
            return None
    a = node.args
    if a.vararg or a.kwarg or a.kwonlyargs or a.posonlyargs:
        return None
    for n in _walk(node):
        if n is not node and isinstance(n, NESTED):
            return None
        if isinstance(n, (ast.Yield, ast.YieldFrom, ast.Global, ast.Nonlocal, ast.Try, ast.With, ast.AsyncFor, ast.AsyncWith)):
            return None
        if isinstance(n, ast.Await) and not is_async:
            return None
    # returns only in tail positions (not inside loops)
    for n in _walk(node):
        if isinstance(n, (ast.For, ast.While)):
            if any(isinstance(x, ast.Return) for x in ast.walk(n)):
                return None
    if sum(1 for _ in _walk(node)) > 400:
        return None
    return 'a' + kind if is_async else kind


def _tail_form(body, depth=0):
    """Guard-clause form -> nested if/else where every return is the last statement of its branch: the statements that follow an
    `if` containing a return are moved into those of its branches that fall through (copied when both do)."""
    out = []
    for i, s in enumerate(body):
        if isinstance(s, ast.If) and i + 1 < len(body) and depth < 12 and any(isinstance(x, ast.Return) for x in ast.walk(s)):
            rest = body[i + 1:]
            s.body = _tail_form(s.body if _ends_in_return(s.body) else s.body + copy.deepcopy(rest), depth + 1)
            s.orelse = _tail_form(s.orelse if (s.orelse and _ends_in_return(s.orelse)) else s.orelse + copy.deepcopy(rest), depth + 1)
            out.append(s)
            return out
        if isinstance(s, ast.If):
            s.body = _tail_form(s.body, depth + 1)
            s.orelse = _tail_form(s.orelse, depth + 1)
        out.append(s)
    return out


def _ends_in_return(body):
    if not body:
        return False
    last = body[-1]
    if isinstance(last, (ast.Return, ast.Raise)):
        return True
    if isinstance(last, ast.If) and last.orelse:
        return _ends_in_return(last.body) and _ends_in_return(last.orelse)
    return False


def _returns_to(body, make):
    """Replace every tail `return E` by make(E)."""
    out = []
    for s in body:
        if isinstance(s, ast.Return):
            out.extend(make(s))
        elif isinstance(s, ast.If):
            s.body = _returns_to(s.body, make)
            s.orelse = _returns_to(s.orelse, make)
            out.append(s)
        else:
            out.append(s)
    return out


class _Rename(ast.NodeTransformer):
    def __init__(self, mapping):
        self.m = mapping

    def visit_Name(self, n):
        if n.id in self.m:
            n.id = self.m[n.id]
        return n


_HCOUNT = [0]


def _instantiate(h, call, receiver, tail=False):
    """Body of helper h specialised to the call: list of statements ending in tail returns, or None."""
    fn = copy.deepcopy(h.node)
    params = [a.arg for a in fn.args.args]
    defaults = fn.args.defaults
    first = None
    if h.kind in ('method', 'classmethod'):
        if not params:
            return None
        first = params[0]
        params = params[1:]
    if call.keywords and any(k.arg is None for k in call.keywords):
        return None
    if any(isinstance(a, ast.Starred) for a in call.args):
        return None
    bind = {}
    if len(call.args) > len(params):
        return None
    for p, a in zip(params, call.args):
        bind[p] = a
    for k in call.keywords:
        if k.arg not in params or k.arg in bind:
            return None
        bind[k.arg] = k.value
    ndef = len(defaults)
    for i, p in enumerate(params):
        if p not in bind:
            j = i - (len(params) - ndef)
            if j < 0:
                return None
            bind[p] = defaults[j]
    _HCOUNT[0] += 1
    tag = f'_h{_HCOUNT[0]}_'
    facts = Facts(fn)
    locals_ = set(facts.store_sites) - set(params) - ({first} if first else set())
    body = [s for s in fn.body if not (isinstance(s, ast.Expr) and isinstance(s.value, ast.Constant) and isinstance(s.value.value, str))]
    ren = {n: tag + n for n in locals_}
    pre = []
    sub = {}
    for p in params:
        a = bind[p]
        stored = p in facts.store_sites
        if isinstance(a, ast.Name) and a.id == p and (not stored or tail):
            continue     # same name; in a tail call the caller's variable is dead afterwards
        if not stored and (is_pure(a, True) or isinstance(a, (ast.Attribute, ast.Name))):
            sub[p] = a
        else:
            ren[p] = tag + p
            pre.append(ast.Assign(targets=[ast.Name(id=tag + p, ctx=ast.Store())], value=a))
    if first is not None:
        if h.kind == 'method':
            rv = receiver
        else:
            # classmethod: receiver is the class, or an instance (then its type)
            rv = receiver
            if isinstance(receiver, ast.Name) and receiver.id == 'self':
                rv = ast.Call(func=ast.Name(id='type', ctx=ast.Load()), args=[receiver], keywords=[])
        if rv is None:
            return None
        if not (isinstance(rv, ast.Name) and rv.id == first):
            if first in facts.store_sites:
                return None
            sub[first] = rv
    body = [_Rename(ren).visit(s) for s in body]
    if sub:
        body = [_Subst(sub).visit(s) for s in body]
    body = _tail_form(body)
    if not _ends_in_return(body):
        body = body + [ast.Return(value=ast.Constant(value=None))]
        body = _tail_form(body)
        if not _ends_in_return(body):
            return None
    return pre + body


def h1_inline(fn, helpers, cls_name):
    """Replace calls to helpers in simple statements of fn by the helper bodies."""
    if not helpers:
        return False

    def lookup(call):
        f = call.func
        if isinstance(f, ast.Name):
            h = helpers.get((None, f.id))
            return (h, None) if h is not None and h.kind == 'function' else (None, None)
        if isinstance(f, ast.Attribute):
            recv = f.value
            h = helpers.get((cls_name, f.attr)) if cls_name else None
            if h is None:
                return None, None
            rt = ast.unparse(recv)
            if rt in ('self', 'cls', 'type(self)', cls_name):
                if h.kind == 'method' and rt != 'self':
                    return None, None
                return h, recv
        return None, None

    def find_call(stmt):
        """First helper call evaluated unconditionally in a simple statement (or in the test of an `if`)."""
        if isinstance(stmt, ast.If):
            val = stmt.test
        elif not isinstance(stmt, (ast.Assign, ast.AugAssign, ast.Return, ast.Expr)):
            return None
        else:
            val = stmt.value
        if val is None:
            return None
        stack = [val]
        while stack:
            n = stack.pop(0)
            if isinstance(n, NESTED + COMPS + (ast.IfExp,)):
                continue
            if isinstance(n, ast.BoolOp):
                stack.insert(0, n.values[0])
                continue
            if isinstance(n, ast.Await) and isinstance(n.value, ast.Call):
                h, recv = lookup(n.value)
                if h is not None and h.is_async:
                    n.args, n.keywords = n.value.args, n.value.keywords        # the `await h(..)` expression stands for the call
                    return n, h, recv
            if isinstance(n, ast.Call):
                h, recv = lookup(n)
                if h is not None and not h.is_async:
                    return n, h, recv
            stack.extend(ast.iter_child_nodes(n))
        return None

    changed = False

    def run(block):
        nonlocal changed
        out = []
        for s in block:
            # `if A and <.. helper call ..>: X` (no else): the call is evaluated only when A holds -- nest the tests first
            if isinstance(s, ast.If) and not s.orelse and isinstance(s.test, ast.BoolOp) and isinstance(s.test.op, ast.And) and find_call(s) is None:
                vs = s.test.values
                for k in range(1, len(vs)):
                    probe = ast.If(test=vs[k], body=[], orelse=[])
                    if find_call(probe) is not None:
                        outer_t = vs[0] if k == 1 else ast.BoolOp(op=ast.And(), values=vs[:k])
                        inner_t = vs[k] if k == len(vs) - 1 else ast.BoolOp(op=ast.And(), values=vs[k:])
                        inner = ast.copy_location(ast.If(test=inner_t, body=s.body, orelse=[]), s)
                        s = ast.copy_location(ast.If(test=outer_t, body=run([inner]), orelse=[]), s)
                        changed = True
                        break
            hit = find_call(s)
            if hit is None:
                out.append(s)
                continue
            call, h, recv = hit
            inst = _instantiate(h, call, recv, tail=isinstance(s, ast.Return) and s.value is call)
            if inst is None:
                out.append(s)
                continue
            if isinstance(s, ast.If):
                # the helper's body runs before the test is decided; its result is the temporary the test now reads
                tmp = f'_h{_HCOUNT[0]}_ret'
                new = _returns_to(inst, lambda r: [ast.Assign(targets=[ast.Name(id=tmp, ctx=ast.Store())],
                                                              value=r.value if r.value is not None else ast.Constant(value=None))])
                s.test = _ReplaceNode(call, ast.Name(id=tmp, ctx=ast.Load())).visit(s.test)
                new = new + [s]
                for x in new:
                    for y in ast.walk(x):
                        if not hasattr(y, 'lineno'):
                            ast.copy_location(y, s)
                out.extend(new)
                changed = True
                continue
            whole = s.value is call
            if isinstance(s, ast.Return) and whole:
                for x in inst:
                    ast.copy_location(x, s)
                out.extend(inst)
            else:
                if whole and isinstance(s, ast.Assign):
                    def make(r, s=s):
                        a = copy.deepcopy(s)
                        a.value = r.value if r.value is not None else ast.Constant(value=None)
                        return [a]
                    new = _returns_to(inst, make)
                elif whole and isinstance(s, ast.Expr):
                    new = _returns_to(inst, lambda r: [ast.Expr(value=r.value)] if r.value is not None and not isinstance(r.value, (ast.Constant, ast.Name)) else [])
                    new = new or [ast.Pass()]
                else:
                    tmp = f'_h{_HCOUNT[0]}_ret'
                    new = _returns_to(inst, lambda r: [ast.Assign(targets=[ast.Name(id=tmp, ctx=ast.Store())],
                                                                  value=r.value if r.value is not None else ast.Constant(value=None))])
                    s2 = _ReplaceNode(call, ast.Name(id=tmp, ctx=ast.Load())).visit(s)
                    new = new + [s2]
                for x in new:
                    for y in ast.walk(x):
                        if not hasattr(y, 'lineno'):
                            ast.copy_location(y, s)
                out.extend(new)
            changed = True
        return out
    for _ in range(3):
        before = changed
        changed = False
        _walk_blocks(fn, run)
        if not changed:
            changed = before
            break
        changed = True
    ast.fix_missing_locations(fn)
    return changed


# ------------------------------------------------------------------------------------------ IV1 / RG1
def _lin_of(e):
    from .linform import to_lin
    return to_lin(e, {}, opaque=False) if _arith_only(e) else None


def _arith_only(e):
    if isinstance(e, (ast.Name,)):
        return True
    if isinstance(e, ast.Constant):
        return isinstance(e.value, int) and not isinstance(e.value, bool)
    if isinstance(e, ast.BinOp) and isinstance(e.op, (ast.Add, ast.Sub)):
        return _arith_only(e.left) and _arith_only(e.right)
    if isinstance(e, ast.BinOp) and isinstance(e.op, ast.Mult):
        return _arith_only(e.left) and _arith_only(e.right)
    if isinstance(e, ast.UnaryOp) and isinstance(e.op, (ast.USub, ast.UAdd)):
        return _arith_only(e.operand)
    return False


def _lin_to_ast(l):
    """Linear form -> expression (symbols in sorted order, constant last)."""
    from fractions import Fraction
    terms = []
    for k in sorted(l.t):
        c = l.t[k]
        if c.denominator != 1:
            return None
        c = int(c)
        nm = ast.Name(id=k, ctx=ast.Load())
        if abs(c) == 1:
            terms.append((c, nm))
        else:
            terms.append((1 if c > 0 else -1, ast.BinOp(left=ast.Constant(value=abs(c)), op=ast.Mult(), right=nm)))
    if l.c.denominator != 1:
        return None
    c0 = int(l.c)
    if c0 != 0 or not terms:
        terms.append((1 if c0 >= 0 else -1, ast.Constant(value=abs(c0))))
    terms.sort(key=lambda x: -x[0])       # positive terms first
    sign, out = terms[0]
    if sign < 0:
        out = ast.UnaryOp(op=ast.USub(), operand=out)
    for s, t in terms[1:]:
        out = ast.BinOp(left=out, op=ast.Add() if s > 0 else ast.Sub(), right=t)
    return out


class _Simplify(ast.NodeTransformer):
    """Replace maximal +,-,* sub-expressions over names by their linear normal form when terms cancel."""

    def visit_BinOp(self, n):
        if _arith_only(n):
            l = _lin_of(n)
            if l is not None:
                new = _lin_to_ast(l)
                if new is not None and sum(1 for _ in ast.walk(new)) < sum(1 for _ in ast.walk(n)):
                    return ast.copy_location(new, n)
            return n
        return self.generic_visit(n)


def _simplify_linear_atoms(e):
    """Like _Simplify, but treats pure non-arithmetic sub-expressions (attribute chains, len(..)) as atoms."""
    atoms = {}

    class A(ast.NodeTransformer):
        def visit(self, n):
            nonlin = isinstance(n, ast.BinOp) and isinstance(n.op, ast.Mult) and not isinstance(n.left, ast.Constant) and not isinstance(n.right, ast.Constant)
            if (isinstance(n, (ast.Attribute, ast.Call, ast.Subscript)) or nonlin) and is_pure(n, True):
                t = ast.unparse(n)
                k = atoms.setdefault(t, (f'_a{len(atoms)}_', n))[0]
                return ast.copy_location(ast.Name(id=k, ctx=ast.Load()), n)
            return super().visit(n)
    e2 = A().visit(copy.deepcopy(e))
    e3 = _Simplify().visit(e2)
    back = {k: v for t, (k, v) in atoms.items()}
    return _Subst(back).visit(e3)


def _stored_in(nodes):
    out = set()
    for s in nodes:
        for n in ast.walk(s):
            if isinstance(n, ast.Name) and isinstance(n.ctx, (ast.Store, ast.Del)):
                out.add(n.id)
    return out


def iv1_induction(fn):
    """`v = c0` ; `for h in range(n): BODY; v += step`   ->   uses of v in BODY become c0 + h*step."""
    def run(block):
        out = []
        i = 0
        while i < len(block):
            s = block[i]
            if isinstance(s, ast.Assign) and len(s.targets) == 1 and isinstance(s.targets[0], ast.Name) and i + 1 < len(block) \
                    and isinstance(block[i + 1], ast.For) and not block[i + 1].orelse and is_pure(s.value, True):
                v = s.targets[0].id
                lp = block[i + 1]
                it = lp.iter
                last = lp.body[-1] if lp.body else None
                if isinstance(it, ast.Call) and isinstance(it.func, ast.Name) and it.func.id == 'range' and len(it.args) == 1 and isinstance(lp.target, ast.Name) \
                        and isinstance(last, ast.AugAssign) and isinstance(last.op, ast.Add) and isinstance(last.target, ast.Name) and last.target.id == v \
                        and is_pure(last.value, True) and not any(isinstance(n, (ast.Continue, ast.Break)) for n in ast.walk(lp)):
                    h = lp.target.id
                    body = lp.body[:-1]
                    stored = _stored_in(body)
                    inv = _names(last.value) | _names(s.value)
                    used_after = any(_mentions(x, v) for x in block[i + 2:])
                    if v not in stored and h not in stored and not (inv & (stored | {h, v})) and not used_after \
                            and not any(isinstance(n, NESTED) and _mentions(n, v) for b in body for n in ast.walk(b)):
                        step = last.value
                        prod = ast.BinOp(left=ast.Name(id=h, ctx=ast.Load()), op=ast.Mult(), right=copy.deepcopy(step))
                        c0 = s.value
                        val = prod if (isinstance(c0, ast.Constant) and c0.value == 0) else ast.BinOp(left=copy.deepcopy(c0), op=ast.Add(), right=prod)
                        ast.fix_missing_locations(ast.copy_location(val, last))
                        lp.body = [_Subst({v: val}).visit(b) for b in body] or [ast.Pass()]
                        out.append(lp)
                        i += 2
                        continue
            out.append(s)
            i += 1
        return out
    _walk_blocks(fn, run)


def rg1_ranges(fn):
    """`for v in range(A, B)` with loop-invariant pure A  ->  `for v in range(B - A)` with v := A + v in the body."""
    def lower(it):
        return isinstance(it, ast.Call) and isinstance(it.func, ast.Name) and it.func.id == 'range' and len(it.args) == 2 and not it.keywords

    for lp in [n for n in _walk(fn) if isinstance(n, ast.For)]:
        it = lp.iter
        if not lower(it) or not isinstance(lp.target, ast.Name) or lp.orelse:
            continue
        A, B = it.args
        if isinstance(A, ast.Constant) and A.value == 0:
            it.args = [B]
            continue
        if isinstance(A, ast.Constant):
            continue
        v = lp.target.id
        stored = _stored_in(lp.body)
        if not is_pure(A, True) or not is_pure(B, True) or (_names(A) & (stored | {v})) or v in stored:
            continue
        if any(isinstance(n, NESTED) and _mentions(n, v) for b in lp.body for n in ast.walk(b)):
            continue
        diff = _simplify_linear_atoms(ast.BinOp(left=copy.deepcopy(B), op=ast.Sub(), right=copy.deepcopy(A)))
        val = ast.BinOp(left=copy.deepcopy(A), op=ast.Add(), right=ast.Name(id=v, ctx=ast.Load()))
        ast.fix_missing_locations(ast.copy_location(val, lp))
        body = [_Subst({v: val}).visit(b) for b in lp.body]
        lp.body = [_fix(_SimplifyAtoms().visit(b)) for b in body]
        it.args = [ast.copy_location(diff, B)]
        ast.fix_missing_locations(lp)
    # comprehensions
    for c in [n for n in _walk(fn) if isinstance(n, COMPS)]:
        if len(c.generators) != 1:
            continue
        g = c.generators[0]
        if not lower(g.iter) or not isinstance(g.target, ast.Name):
            continue
        A, B = g.iter.args
        if isinstance(A, ast.Constant) and A.value == 0:
            g.iter.args = [B]
            continue
        if isinstance(A, ast.Constant):
            continue
        v = g.target.id
        if not is_pure(A, True) or not is_pure(B, True) or v in _names(A):
            continue
        diff = _simplify_linear_atoms(ast.BinOp(left=copy.deepcopy(B), op=ast.Sub(), right=copy.deepcopy(A)))
        val = ast.BinOp(left=copy.deepcopy(A), op=ast.Add(), right=ast.Name(id=v, ctx=ast.Load()))
        sub = _Subst({v: val})
        if isinstance(c, ast.DictComp):
            c.key, c.value = _SimplifyAtoms().visit(sub.visit(c.key)), _SimplifyAtoms().visit(sub.visit(c.value))
        else:
            c.elt = _SimplifyAtoms().visit(sub.visit(c.elt))
        g.ifs = [_SimplifyAtoms().visit(sub.visit(x)) for x in g.ifs]
        g.iter.args = [diff]
        ast.fix_missing_locations(c)


def _fix(n):
    ast.fix_missing_locations(n)
    return n


class _SimplifyAtoms(ast.NodeTransformer):
    """Apply _simplify_linear_atoms to every maximal arithmetic expression."""

    def visit_BinOp(self, n):
        if isinstance(n.op, (ast.Add, ast.Sub)):
            new = _simplify_linear_atoms(n)
            if ast.unparse(new) != ast.unparse(n):
                return ast.copy_location(new, n)
        return self.generic_visit(n)

    def visit_FunctionDef(self, n):
        return n

    visit_AsyncFunctionDef = visit_Lambda = visit_ClassDef = visit_FunctionDef
