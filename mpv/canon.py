"""Semantics-preserving canonicalisation of function bodies, applied before the rules look at the small
protocol functions (asyncoro and a few Runtime methods), so that the rules do not depend on how the
same logic is spelled:

  P1  local aliases of attribute chains are inlined (`buffers = self.buffers`, `rt = self.runtime`,
      `parent_pc = rt._program_counter`) when neither the alias nor the aliased attribute is re-bound
      in the function (mutating the object through the alias is the same as through the attribute);
  P2  comparisons are oriented (`a > b` -> `b < a`, `a >= b` -> `b <= a`); `x == 0`/`x != 0` tests on
      counters are kept as they are (rules treat `not x`, `x == 0` alike through `is_zero_test`);
  P3  `if not C: A else: B`  ->  `if C: B else: A`  (also `not in`, `is not`, `!=`);
  P4  `if C: ...; return`  followed by REST  ->  `if C: ...; return  else: REST`;
  P5  a temporary assigned from a call and used exactly once in the next statement is inlined;
  P6  `(a,) = X`  ->  `a = X[0]`;
  P7  `x = x + e`  ->  `x += e` for attribute / name targets.
"""
import ast
import copy


def _terminates(body):
    return bool(body) and isinstance(body[-1], (ast.Return, ast.Raise, ast.Break, ast.Continue))


def _is_chain(e):
    while isinstance(e, ast.Attribute):
        e = e.value
    return isinstance(e, ast.Name)


def _chain_text(e):
    return ast.unparse(e)


class _Subst(ast.NodeTransformer):
    def __init__(self, mapping):
        self.m = mapping

    def visit_Name(self, n):
        if isinstance(n.ctx, ast.Load) and n.id in self.m:
            return ast.copy_location(copy.deepcopy(self.m[n.id]), n)
        return n

    def visit_FunctionDef(self, n):
        return n        # do not touch nested scopes

    visit_AsyncFunctionDef = visit_Lambda = visit_FunctionDef


def _stores(fn):
    """(names stored, attribute-chain texts stored) anywhere in fn (not nested defs)."""
    names, attrs = {}, set()
    stack = list(fn.body)
    while stack:
        n = stack.pop()
        if isinstance(n, (ast.FunctionDef, ast.AsyncFunctionDef, ast.Lambda, ast.ClassDef)):
            continue
        if isinstance(n, ast.Name) and isinstance(n.ctx, (ast.Store, ast.Del)):
            names[n.id] = names.get(n.id, 0) + 1
        if isinstance(n, ast.Attribute) and isinstance(n.ctx, (ast.Store, ast.Del)):
            attrs.add(ast.unparse(n))
        stack.extend(ast.iter_child_nodes(n))
    return names, attrs


def p1_inline_aliases(fn):
    names, attrs = _stores(fn)
    params = {a.arg for a in fn.args.posonlyargs + fn.args.args + fn.args.kwonlyargs}
    changed = True
    while changed:
        changed = False
        for i, s in enumerate(fn.body):
            if isinstance(s, ast.Assign) and len(s.targets) == 1 and isinstance(s.targets[0], ast.Name) and isinstance(s.value, ast.Attribute) \
                    and _is_chain(s.value):
                nm = s.targets[0].id
                chain = _chain_text(s.value)
                base = s.value
                while isinstance(base, ast.Attribute):
                    base = base.value
                if names.get(nm, 0) != 1 or nm in params:
                    continue
                # neither the aliased attribute nor any prefix of the chain is re-bound in the function
                if any(a == chain or chain.startswith(a + '.') for a in attrs):
                    continue
                if names.get(base.id, 0) > (0 if base.id in params or base.id == 'self' else 1):
                    continue
                rest = fn.body[i + 1:]
                sub = _Subst({nm: s.value})
                fn.body[i + 1:] = [sub.visit(x) for x in rest]
                del fn.body[i]
                names, attrs = _stores(fn)
                changed = True
                break
    # aliases defined at the top of a loop body / nested block are left alone
    return fn


class _Orient(ast.NodeTransformer):
    def visit_Compare(self, n):
        self.generic_visit(n)
        if len(n.ops) == 1 and isinstance(n.ops[0], (ast.Gt, ast.GtE)):
            return ast.copy_location(ast.Compare(left=n.comparators[0], ops=[ast.Lt() if isinstance(n.ops[0], ast.Gt) else ast.LtE()],
                                                 comparators=[n.left]), n)
        return n

    def visit_FunctionDef(self, n):
        return n

    visit_AsyncFunctionDef = visit_Lambda = visit_FunctionDef


def _positive(test):
    """(positive test, flipped?)"""
    if isinstance(test, ast.UnaryOp) and isinstance(test.op, ast.Not):
        return test.operand, True
    if isinstance(test, ast.Compare) and len(test.ops) == 1:
        op = test.ops[0]
        flip = {ast.NotIn: ast.In, ast.IsNot: ast.Is, ast.NotEq: ast.Eq}
        for k, v in flip.items():
            if isinstance(op, k):
                return ast.copy_location(ast.Compare(left=test.left, ops=[v()], comparators=test.comparators), test), True
    return test, False


def _blocks(node):
    for f in ('body', 'orelse', 'finalbody'):
        b = getattr(node, f, None)
        if isinstance(b, list) and b and isinstance(b[0], ast.stmt):
            yield f, b
    for h in getattr(node, 'handlers', []) or []:
        yield 'body', h.body


def _walk_blocks(node, fn):
    """Apply fn(block_list) -> new list to every statement block below node (bottom-up)."""
    for f in ('body', 'orelse', 'finalbody'):
        b = getattr(node, f, None)
        if isinstance(b, list) and (not b or isinstance(b[0], ast.stmt)):
            for s in b:
                if not isinstance(s, (ast.FunctionDef, ast.AsyncFunctionDef, ast.ClassDef)):
                    _walk_blocks(s, fn)
            setattr(node, f, fn(b))
    for h in getattr(node, 'handlers', []) or []:
        for s in h.body:
            _walk_blocks(s, fn)
        h.body = fn(h.body)
    for c in getattr(node, 'cases', []) or []:
        for s in c.body:
            _walk_blocks(s, fn)
        c.body = fn(c.body)


def p4_early_return(block):
    out = []
    for i, s in enumerate(block):
        if isinstance(s, ast.If) and not s.orelse and _terminates(s.body) and isinstance(s.body[-1], (ast.Return, ast.Raise)) and i + 1 < len(block):
            rest = p4_early_return(block[i + 1:])
            s.orelse = rest
            out.append(s)
            return out
        out.append(s)
    return out


def p3_polarity(block):
    for s in block:
        if isinstance(s, ast.If):
            pos, flipped = _positive(s.test)
            if flipped and s.orelse:
                s.test = pos
                s.body, s.orelse = s.orelse, s.body
    return block


def p6_unpack1(block):
    for s in block:
        if isinstance(s, ast.Assign) and len(s.targets) == 1 and isinstance(s.targets[0], ast.Tuple) and len(s.targets[0].elts) == 1 \
                and not isinstance(s.targets[0].elts[0], ast.Starred):
            s.targets[0] = s.targets[0].elts[0]
            s.value = ast.copy_location(ast.Subscript(value=s.value, slice=ast.Constant(value=0), ctx=ast.Load()), s.value)
    return block


def p7_aug(block):
    out = []
    for s in block:
        if isinstance(s, ast.Assign) and len(s.targets) == 1 and isinstance(s.targets[0], (ast.Name, ast.Attribute)) and isinstance(s.value, ast.BinOp) \
                and isinstance(s.value.op, (ast.Add, ast.Sub, ast.Mult)):
            t = ast.unparse(s.targets[0])
            # flatten a + b + c with t as first term
            terms = []

            def flat(e):
                if isinstance(e, ast.BinOp) and isinstance(e.op, ast.Add) and isinstance(s.value.op, ast.Add):
                    flat(e.left)
                    flat(e.right)
                else:
                    terms.append(e)
            if isinstance(s.value.op, ast.Add):
                flat(s.value)
                idx = [i for i, x in enumerate(terms) if ast.unparse(x) == t]
                if len(idx) == 1 and len(terms) >= 2:
                    others = [x for i, x in enumerate(terms) if i != idx[0]]
                    val = others[0]
                    for o in others[1:]:
                        val = ast.BinOp(left=val, op=ast.Add(), right=o)
                    tgt = copy.deepcopy(s.targets[0])
                    out.append(ast.copy_location(ast.AugAssign(target=tgt, op=ast.Add(), value=val), s))
                    continue
            elif ast.unparse(s.value.left) == t:
                tgt = copy.deepcopy(s.targets[0])
                out.append(ast.copy_location(ast.AugAssign(target=tgt, op=s.value.op, value=s.value.right), s))
                continue
        out.append(s)
    return out


def _count_loads(node, name):
    return sum(1 for n in ast.walk(node) if isinstance(n, ast.Name) and n.id == name and isinstance(n.ctx, ast.Load))


def p5_inline_temps(fn):
    def run(block):
        i = 0
        while i + 1 < len(block):
            s, nxt = block[i], block[i + 1]
            if isinstance(s, ast.Assign) and len(s.targets) == 1 and isinstance(s.targets[0], ast.Name) and isinstance(s.value, ast.Call):
                nm = s.targets[0].id
                total = _count_loads(fn, nm)
                if total == 1 and _count_loads(nxt, nm) == 1 and not isinstance(nxt, (ast.For, ast.While, ast.If, ast.Try, ast.With)):
                    block[i + 1] = _Subst({nm: s.value}).visit(nxt)
                    del block[i]
                    continue
            i += 1
        return block
    _walk_blocks(fn, run)
    return fn


def canon_function(fn_node):
    """Return a canonicalised deep copy of a FunctionDef / AsyncFunctionDef."""
    fn = copy.deepcopy(fn_node)
    _walk_blocks(fn, p6_unpack1)
    _walk_blocks(fn, p7_aug)
    fn = p1_inline_aliases(fn)
    fn = p5_inline_temps(fn)
    o = _Orient()
    fn.body = [o.visit(s) for s in fn.body]
    _walk_blocks(fn, p4_early_return)
    _walk_blocks(fn, p3_polarity)
    ast.fix_missing_locations(fn)
    return fn


def is_zero_test(test):
    """`not X` or `X == 0` -> X ;  else None."""
    if isinstance(test, ast.UnaryOp) and isinstance(test.op, ast.Not):
        return test.operand
    if isinstance(test, ast.Compare) and len(test.ops) == 1 and isinstance(test.ops[0], ast.Eq):
        l, r = test.left, test.comparators[0]
        if isinstance(r, ast.Constant) and r.value == 0:
            return l
        if isinstance(l, ast.Constant) and l.value == 0:
            return r
    return None
