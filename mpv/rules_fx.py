"""FX rules: fixed-point integrality flags (property C03, scale clause of C02).

The integral flag is a *static annotation* handed to returnType(); the rules compare, by truth
tables over the atoms of the flag expressions, what is declared with what the operands guarantee
(FX1), how flags are combined (FX4), how they are inferred in the constructors (FX5), that a
literal True comes with the scaling by 2^f (FX2) and that the exact shift / probabilistic
truncation of a product are chosen complementarily and only when licensed by a flag (FX3)."""
import ast
import itertools

from .core import AnalysisError, iter_nodes, norm
from . import astq
from .astq import (parents, ancestors, calls_named, definitions, reaching_definitions, enclosing_ifs, enclosing_loops,
                   const_int, attr_tail)
from .flow import gather_params

# atoms that legitimately *widen* a declaration although an operand is not flagged integral
ESCAPE_ATOMS = {
    'z == f': 'the public factor is an int (scaled by 2^f exactly), set only when b is not a secure object',
    'f <= b': 'left shift by at least f bits clears all fractional bits',
    'bool(np.all(f <= b))': 'left shift by at least f bits (elementwise) clears all fractional bits',
    'isinstance(y[0], int)': 'public int vector: integral by type',
}
# operands that are gathered but whose flag deliberately does not enter the declaration
OPERAND_EXEMPT = {
    ('runtime::Runtime._if_else_list', 'a'): 'selector: if_else() raises unless the condition is integral (guard checked below)',
    ('runtime::Runtime._if_swap_list', 'a'): 'selector: if_swap() raises unless the condition is integral (guard checked below)',
    ('runtime::Runtime.np_roll', 'shift'): 'secret shift selects positions only',
}
# declarations with a literal True: result is built from bits / indices and scaled by 2^f
TRUE_BY_CONSTRUCTION = {
    'runtime::Runtime.indexOf': 'returns the index computed by find() on integral bits',
    'runtime::Runtime._np_is_zero': 'conjunction (np_all) of integral bits wrapped as stype(c) (np_all keeps the scale)',
    'runtime::Runtime._np_pow_public_int_base_secret_integral_exponent': 'power of a public int with integral exponent, rescaled by c <<= f',
    'runtime::Runtime.np_unit_vector': 'rotation of a unit vector produced by np_random_unit_vector (declared integral there)',
    'runtime::Runtime.np_from_bits': 'sum of integral bits times powers of two',
    'runtime::Runtime.from_bits': 'sum of integral bits times powers of two',
    'runtime::Runtime.np_to_bits': 'bits scaled via np_random_bits / add_bits on integral operands',
    'runtime::Runtime.to_bits': 'bits built by add_bits from integral random bits and public bits',
    'runtime::Runtime.np_lsb': 'xor of an integral random bit with a public bit, x <<= f',
    'runtime::Runtime.all': 'raises unless all inputs are integral; every pairwise product is shifted back by f exactly',
    'random::_randbelow': 'secure bits from random_bits (declared integral) combined by secure operators only',
    'random::random_unit_vector': 'secure bits from random_bits (declared integral) combined by secure operators only',
    'random::np_random_unit_vector': 'secure bits from np_random_bits (declared integral) combined by secure operators only',
}


class _FracSym(ast.NodeTransformer):
    """Every `<chain>.frac_length` denotes the number of fractional bits f of the type at hand."""

    def visit_Attribute(self, n):
        if n.attr == 'frac_length':
            return ast.copy_location(ast.Name(id='f', ctx=ast.Load()), n)
        return self.generic_visit(n)


def fnorm(e):
    """Normalised text with the fractional-bit count written as the symbol f."""
    import copy
    return norm(_FracSym().visit(copy.deepcopy(e)))


# ---------------------------------------------------------------------------------- formulas
class F:
    """Boolean formula: ('atom', key) | ('not', F) | ('and', [F]) | ('or', [F]) | ('const', bool)"""


def atom(k):
    return ('atom', k)


def _operand_atom(e):
    """`P.integral` -> 'P'; `P[0].integral`, `P[0][0].integral` -> 'P[0]' (the flag of one fixed element of a list operand,
    which says nothing about the other elements; the index is kept); `P[i].integral` with a variable index -> 'P'."""
    if isinstance(e, ast.Attribute) and e.attr == 'integral':
        b = e.value
        idx = []
        while isinstance(b, ast.Subscript):
            k = const_int(b.slice)
            idx.append(k)
            b = b.value
        if isinstance(b, ast.Name):
            if idx and all(k is not None for k in idx):
                return b.id + ''.join(f'[{k}]' for k in reversed(idx))
            return b.id
    return None


def _fixed_element_atoms(ats, p):
    """atoms `p[k]...integral` reading the flag of a fixed element of operand p"""
    return sorted(a for a in ats if a.startswith(p + '[') and a.endswith('.integral'))


class FlagFormula:
    def __init__(self, fn, use, pm):
        self.fn, self.use, self.pm = fn, use, pm
        self.depth = 0

    def build(self, e):
        self.depth += 1
        try:
            return self._build(e)
        finally:
            self.depth -= 1

    def _build(self, e):
        if self.depth > 12:
            return atom(fnorm(e))
        if isinstance(e, ast.Constant) and isinstance(e.value, bool):
            return ('const', e.value)
        if isinstance(e, ast.BoolOp):
            return ('and' if isinstance(e.op, ast.And) else 'or', [self.build(v) for v in e.values])
        if isinstance(e, ast.UnaryOp) and isinstance(e.op, ast.Not):
            return ('not', self.build(e.operand))
        p = _operand_atom(e)
        if p is not None:
            return atom(p + '.integral')
        if isinstance(e, ast.Call) and isinstance(e.func, ast.Name) and e.func.id in ('all',) and e.args:
            a = e.args[0]
            if isinstance(a, (ast.GeneratorExp, ast.ListComp)) and len(a.generators) > 1:
                # all(v.integral for r in A for v in r): every entry of the matrix operand A
                gs = a.generators
                chained = all(isinstance(gs[i].iter, ast.Name) and isinstance(gs[i - 1].target, ast.Name) and gs[i].iter.id == gs[i - 1].target.id
                              and not gs[i].ifs for i in range(1, len(gs)))
                if chained and not gs[0].ifs and isinstance(gs[0].iter, ast.Name) and _operand_atom(a.elt) == norm(gs[-1].target):
                    return atom(gs[0].iter.id + '.integral')
            if isinstance(a, (ast.GeneratorExp, ast.ListComp)) and len(a.generators) == 1 and isinstance(a.generators[0].iter, ast.BinOp) \
                    and isinstance(a.generators[0].iter.op, ast.Add) and not a.generators[0].ifs and _operand_atom(a.elt) == norm(a.generators[0].target):
                # all(v.integral for v in X + Y): every element of both list operands
                def flat(x):
                    return flat(x.left) + flat(x.right) if isinstance(x, ast.BinOp) and isinstance(x.op, ast.Add) else [x]
                parts = flat(a.generators[0].iter)
                if all(isinstance(x, ast.Name) for x in parts):
                    return ('and', [atom(x.id + '.integral') for x in parts])
            if isinstance(a, (ast.GeneratorExp, ast.ListComp)):
                # all(<expr over v> for v in X): the atom is X.integral when the element mentions v.integral
                g = a.generators[0]
                it = g.iter
                while isinstance(it, ast.Subscript):
                    it = it.value
                if isinstance(it, ast.Name) and any(_operand_atom(x) == norm(g.target) or (isinstance(x, ast.Call) and isinstance(x.func, ast.Name))
                                                    for x in ast.walk(a.elt)):
                    return atom(it.id + '.integral')
            if isinstance(a, ast.Name):
                # all(integral) with integral = [a.integral for a in x]
                for st, v, how in reaching_definitions(self.fn.node, a.id, self.use, self.pm):
                    if isinstance(v, (ast.ListComp, ast.GeneratorExp)) and _operand_atom(v.elt) == norm(v.generators[0].target):
                        it = v.generators[0].iter
                        if isinstance(it, ast.Name):
                            return atom(it.id + '.integral')
        if isinstance(e, ast.Call) and isinstance(e.func, ast.Name) and e.func.id == 'bool' and len(e.args) == 1 and fnorm(e) not in ESCAPE_ATOMS:
            return self.build(e.args[0])
        if isinstance(e, ast.Call) and isinstance(e.func, ast.Name) and len(e.args) == 1 and isinstance(e.args[0], ast.Name):
            # local helper applied to a parameter whose body inspects .integral (np_block)
            for n in iter_nodes(self.fn.node, skip_nested=False):
                if isinstance(n, ast.FunctionDef) and n.name == e.func.id and any(isinstance(x, ast.Attribute) and x.attr == 'integral' for x in ast.walk(n)):
                    return atom(e.args[0].id + '.integral')
        if isinstance(e, ast.Name):
            ds = reaching_definitions(self.fn.node, e.id, self.use, self.pm)
            plain = [(st, v) for st, v, how in ds if v is not None]
            # a count used as a condition: `excess = f - z` is true exactly when z != f; a constant 0 is false
            diffs = [v for _, v in plain if isinstance(v, ast.BinOp) and isinstance(v.op, ast.Sub)]
            zeros = [v for _, v in plain if isinstance(v, ast.Constant) and v.value == 0 and not isinstance(v.value, bool)]
            if ds and len(plain) == len(ds) and diffs and len(diffs) + len(zeros) == len(plain) and len({fnorm(v) for v in diffs}) == 1:
                v = diffs[0]
                return ('not', atom(fnorm(ast.Compare(left=v.right, ops=[ast.Eq()], comparators=[v.left]))))
            if ds and len(plain) == len(ds) and len(plain) > 1 and all(isinstance(v, ast.Constant) and isinstance(v.value, bool) for _, v in plain) and self.depth < 8:
                # a flag set to True / False in different branches (`todo = False ... if A: if B: ... else: todo = True`): it is True
                # exactly where a True-assignment ran last -- with the False initialisation first, where some True-assignment ran
                trues = [st for st, v in plain if v.value is True]
                falses = [st for st, v in plain if v.value is False]
                if falses and all(astq.position(fs_) < astq.position(ts_) for fs_ in falses for ts_ in trues):
                    return ('or', [_guard_formula(self.fn, ts_, self.pm) for ts_ in trues]) if trues else ('const', False)
            if any(v is not None and any(isinstance(x, ast.Attribute) and x.attr == 'integral' for x in ast.walk(v)) for _, v in plain):
                # constant definitions (True/False) belong to the cases where the operand is public data
                plain2 = [(st, v) for st, v in plain if not (isinstance(v, ast.Constant) and isinstance(v.value, bool))]
                if plain2 and len(plain2) < len(plain):
                    ds = [d for d in ds if not (isinstance(d[1], ast.Constant) and isinstance(d[1].value, bool))]
                    plain = plain2
            if ds and len(plain) == len(ds):
                # the last reaching definition in program order wins on its path; earlier ones (re-defined
                # names like x_integral = x_integral and ...) are folded in through recursion
                if len(plain) == 1:
                    st, v = plain[0]
                    sub = FlagFormula(self.fn, st, self.pm)
                    sub.depth = self.depth
                    return sub.build(v)
                # several definitions on different paths: any of them may hold (or)
                outs = []
                for st, v in plain:
                    sub = FlagFormula(self.fn, st, self.pm)
                    sub.depth = self.depth
                    outs.append(sub.build(v))
                # self-referential re-definition: keep only the last (it refers to the earlier ones)
                last = max(plain, key=lambda x: astq.position(x[0]))
                if any(isinstance(n, ast.Name) and n.id == e.id for n in ast.walk(last[1])):
                    sub = FlagFormula(self.fn, last[0], self.pm)
                    sub.depth = self.depth
                    return sub.build(last[1])
                return ('or', outs)
            return atom(e.id)
        if isinstance(e, ast.Compare) and len(e.ops) == 1 and isinstance(e.ops[0], ast.NotEq):
            return ('not', atom(fnorm(ast.Compare(left=e.left, ops=[ast.Eq()], comparators=e.comparators))))
        return atom(fnorm(e))


def _guard_formula(fn, node, pm):
    """The condition under which node runs, as a flag formula: enclosing if statements (either branch) and earlier early exits that
    depend on the scale or the flags."""
    conj = []
    for i, br in enclosing_ifs(node, pm, stop=fn.node):
        ff = FlagFormula(fn, i, pm)
        g = ff.build(i.test)
        conj.append(g if br == 'body' else ('not', g))
    # early exits: `if C: return / raise / continue / break` earlier in an enclosing block means not C here
    x = astq.enclosing_stmt(node, pm)
    while x is not None and x is not fn.node:
        p_ = pm.get(id(x))
        if p_ is None:
            break
        for blk in astq._blocks(p_):
            if any(x is s_ for s_ in blk):
                for s_ in blk:
                    if s_ is x:
                        break
                    if isinstance(s_, ast.If) and not s_.orelse and s_.body and isinstance(s_.body[-1], (ast.Return, ast.Raise, ast.Continue, ast.Break)):
                        g_ = FlagFormula(fn, s_, pm).build(s_.test)
                        # (an exit that does not depend on the scale or the flags -- an empty operand -- leaves before any product exists)
                        if any(a_ == 'f' or 'frac_length' in a_ or 'integral' in a_ for a_ in atoms_of(g_)):
                            conj.append(('not', g_))
        x = p_
    return ('and', conj) if conj else ('const', True)


def atoms_of(f, out=None):
    out = set() if out is None else out
    if f[0] == 'atom':
        out.add(f[1])
    elif f[0] == 'not':
        atoms_of(f[1], out)
    elif f[0] in ('and', 'or'):
        for x in f[1]:
            atoms_of(x, out)
    return out


def evalf(f, val):
    if f[0] == 'const':
        return f[1]
    if f[0] == 'atom':
        return val[f[1]]
    if f[0] == 'not':
        return not evalf(f[1], val)
    if f[0] == 'and':
        return all(evalf(x, val) for x in f[1])
    return any(evalf(x, val) for x in f[1])


def satisfiable(f, fixed):
    """Is there an assignment of the free atoms (those not in fixed) making f true?"""
    free = sorted(atoms_of(f) - set(fixed))
    if len(free) > 12:
        return True
    for bits in itertools.product([True, False], repeat=len(free)):
        v = dict(fixed)
        v.update(zip(free, bits))
        if evalf(f, v):
            return True
    return False


# ---------------------------------------------------------------------------------- declarations
ARRAY_DECLS = set()      # ids of flag expressions declared together with a shape: the operand is one array (P[0] is the array)


def _declarations(fn, pm):
    """(returnType call, flag expression node, statement used as the point of use) for every
    declaration of a fixed-point flag in fn."""
    out = []
    for c in calls_named(fn.node, 'returnType'):
        if not c.args:
            continue
        a0 = c.args[0]
        cands = []
        if isinstance(a0, ast.Name):
            for st, v, how in reaching_definitions(fn.node, a0.id, c, pm):
                if v is not None:
                    cands.append((v, st))
        else:
            cands.append((a0, astq.enclosing_stmt(c, pm)))
        for v, st in cands:
            if isinstance(v, ast.Tuple) and len(v.elts) >= 2:
                e = v.elts[1]
                t = norm(e)
                if isinstance(e, ast.Tuple) or t == 'shape' or t.endswith('.shape') or t.endswith('_shape') or isinstance(e, ast.Starred) \
                        or ('shape' in t and 'integral' not in t):
                    continue
                if isinstance(e, ast.Name) and any(isinstance(dv, (ast.Tuple,)) or (dv is not None and norm(dv).startswith('tuple(')) or (dv is not None and 'shape' in norm(dv) and 'integral' not in norm(dv))
                                                   for _, dv, _ in definitions(fn.node, e.id)) and 'integral' not in e.id:
                    continue
                out.append((c, e, st))
                if len(v.elts) >= 3 and 'shape' in norm(v.elts[2]):
                    ARRAY_DECLS.add(id(e))
    return out


def rule_FX1(ctx, rep):
    """integral declaration soundness: with the tabled escape atoms false, falsifying the flag of any one
    gathered secure operand falsifies the declared flag."""
    model = ctx.model
    n = 0
    for k, fn in sorted(model.funcs.items()):
        if fn.kind not in ('pc', 'nopc'):
            continue
        pm = parents(fn.node)
        decls = _declarations(fn, pm)
        if not decls:
            continue
        operands = sorted(gather_params(fn))
        for call, e, st in decls:
            n += 1
            ff = FlagFormula(fn, st, pm)
            f = ff.build(e)
            ats = atoms_of(f)
            if f[0] == 'const':
                continue    # literal True/False: FX2
            flagged = {a[:-9].split('[')[0] for a in ats if a.endswith('.integral')}
            probs = []
            for p in operands:
                if (k, p) in OPERAND_EXEMPT:
                    continue
                # is p an operand of fixed-point arithmetic here? (it is gathered; selectors/keys are exempted above)
                fixed = {a: False for a in ats if a in ESCAPE_ATOMS}
                fe = _fixed_element_atoms(ats, p)
                if id(e) in ARRAY_DECLS and fe == [p + '[0].integral'] and p + '.integral' not in ats:
                    # (stype, P[0].integral, P[0].shape): P holds one secure array, whose flag covers all its entries
                    fixed[fe[0]] = False
                    if satisfiable(f, fixed):
                        probs.append(f'the declared flag `{norm(e)}` can be True although {fe[0]} is False')
                    continue
                if p + '.integral' not in ats and len(fe) >= 2:
                    # the flags of several fixed positions are read (a pair such as (re, im)): all of them must be needed
                    fixed.update({a: False for a in fe[:1]})
                    if satisfiable(f, fixed):
                        probs.append(f'the declared flag `{norm(e)}` can be True although {fe[0]} is False')
                    continue
                if p + '.integral' not in ats and len(fe) == 1:
                    probs.append(f'the declared flag `{norm(e)}` reads the integral flag of one fixed element of the list operand {p} only: for a list '
                                 f'whose other elements are not integral, every element of the result is marked integral (use all(a.integral for a in {p}))')
                    continue
                if p + '.integral' not in ats:
                    if flagged:
                        probs.append(f'operand {p} is gathered and enters the result, but its integral flag does not enter the declared flag `{norm(e)}`: '
                                     f'a non-integral {p} yields a value marked integral')
                    continue
                fixed[p + '.integral'] = False
                if satisfiable(f, fixed):
                    probs.append(f'the declared flag `{norm(e)}` can be True although {p}.integral is False (escape atoms false): '
                                 'a conjunction over the operands has been weakened')
            # the flags are read at the declaration: an operand must not be combined with another value afterwards
            decl_st = astq.enclosing_stmt(call, pm)
            for p in sorted(flagged):
                for s2 in iter_nodes(fn.node):
                    if not isinstance(s2, (ast.Assign, ast.AugAssign)) or astq.position(s2) <= astq.position(decl_st):
                        continue
                    tg = s2.targets[0] if isinstance(s2, ast.Assign) else s2.target
                    if not (isinstance(tg, ast.Subscript) and isinstance(tg.value, ast.Name) and tg.value.id == p):
                        continue
                    gathers = [g for g in calls_named(fn.node, 'gather') if any(isinstance(x, ast.Name) and x.id == p for x in ast.walk(g))]
                    if not gathers or astq.position(s2) >= astq.position(gathers[0]):
                        continue
                    val = s2.value
                    if isinstance(s2, ast.AugAssign) or isinstance(val, ast.BinOp):
                        others = {x.id for x in ast.walk(val) if isinstance(x, ast.Name)} - {p}
                        if others:
                            probs.append(f'operand {p} is combined with {sorted(others)} ({norm(s2)}) after its integral flags were read for the declaration '
                                         f'`{norm(e)}`: the declared flag does not account for the value folded in')
            if not flagged and operands:
                # a declaration not built from operand flags at all (e.g. `not s_type.frac_length`)
                if k == 'runtime::Runtime._convert' and norm(e) == 'not s_type.frac_length':
                    rep.ok('FX1', fn, call, 'converted value is integral exactly when the source type has no fractional bits')
                else:
                    rep.skip('FX1', fn, call, f'flag `{norm(e)}` is not expressed through operand flags')
                continue
            if probs:
                for p in probs:
                    rep.bad('FX1', fn, call, p)
            else:
                rep.ok('FX1', fn, call, f'flag `{norm(e)}` is False whenever one of {sorted(flagged)} is not integral')
    if n < 55:
        raise AnalysisError(f'FX1: only {n} flag declarations found (expected >= 55)')
    # guards of the selector exemption
    for q in ('if_else', 'if_swap'):
        fn = model.func('runtime::Runtime.' + q)
        first = [s for s in fn.node.body if isinstance(s, ast.If)]
        c = fn.params[1]
        good = first and any(isinstance(x, ast.Raise) for x in first[0].body) and norm(first[0].test) == f'isinstance({c}, self.SecureFixedPoint) and (not {c}.integral)'
        callers = []
        for k2, f2 in model.funcs.items():
            for cc in calls_named(f2.node, '_' + q + '_list'):
                callers.append(k2)
        if good and set(callers) <= {'runtime::Runtime.' + q}:
            rep.ok('FX1', fn, first[0].test, f'{q} rejects a non-integral condition and is the only caller of _{q}_list')
        else:
            rep.bad('FX1', fn, fn.qualname, f'the selector exemption of _{q}_list is not protected: {q} does not raise for a non-integral condition '
                    f'or _{q}_list has other callers ({sorted(set(callers))})', fn.node)


# ---------------------------------------------------------------------------------- FX2
def rule_FX2(ctx, rep):
    """scale on True: a result declared integral by a literal True is multiplied by 2^f on its way out
    (or is listed as integral by construction)."""
    model = ctx.model
    n = 0
    for k, fn in sorted(model.funcs.items()):
        if fn.kind not in ('pc', 'nopc'):
            continue
        pm = parents(fn.node)
        lits = [(c, e) for c, e, st in _declarations(fn, pm) if isinstance(e, ast.Constant) and e.value is True]
        if not lits:
            continue
        n += 1
        # scaling by 2^f: `x <<= f`, `x[i] <<= f`, or an expression `<value> << f` (in a return, a comprehension, an assignment)
        shifts = [s for s in iter_nodes(fn.node) if (isinstance(s, ast.AugAssign) and isinstance(s.op, ast.LShift)) or
                  (isinstance(s, ast.BinOp) and isinstance(s.op, ast.LShift) and const_int(s.left) is None)]
        shifts = [s for s in shifts if 'frac_length' in norm(s) or fnorm(s.value if isinstance(s, ast.AugAssign) else s.right) in ('f',)]
        if shifts:
            rep.ok('FX2', fn, lits[0][0], f'declared integral; result scaled by 2^f ({norm(shifts[-1])})')
        elif k in TRUE_BY_CONSTRUCTION:
            rep.ok('FX2', fn, lits[0][0], 'declared integral by construction: ' + TRUE_BY_CONSTRUCTION[k])
        else:
            rep.bad('FX2', fn, lits[0][0], 'result is declared integral (literal True) but is never scaled by 2^frac_length: the fixed-point value is 2^-f times the intended integer')
    if n < 10:
        raise AnalysisError(f'FX2: only {n} literal-True declarations found (expected >= 10)')


# ---------------------------------------------------------------------------------- FX3
PRODUCT_FUNCS = ['mul', 'np_multiply', 'in_prod', 'schur_prod', 'scalar_mul', 'matrix_prod', '_cpx_mul', 'np_matmul', 'np_outer', 'np_convolve']


def rule_FX3(ctx, rep):
    """shift/trunc use: in the product coroutines the exact shift (>>= f) and the probabilistic truncation are
    guarded by complementary conditions, the exact shift only when one factor is flagged integral, and every
    scale-2f product gets exactly one of them whenever f != 0."""
    model = ctx.model
    for q in PRODUCT_FUNCS:
        fn = model.func('runtime::Runtime.' + q)
        pm = parents(fn.node)
        shifts, truncs = [], []
        for s in iter_nodes(fn.node):
            if isinstance(s, ast.AugAssign) and isinstance(s.op, ast.RShift):
                from . import sem as _sem
                sv = s.value
                if isinstance(sv, ast.Name) and sv.id != 'f' and not (isinstance(s.target, ast.Name) and s.target.id in fn.params):
                    # the amount through a temporary (`excess = f - z`): any of its definitions mentions the fractional-bit count
                    dv = [d[1] for d in reaching_definitions(fn.node, sv.id, s, pm) if d[1] is not None]
                    if any('f' in {x.id for x in ast.walk(v_) if isinstance(x, ast.Name)} or 'frac_length' in norm(v_) for v_ in dv):
                        shifts.append(s)
                        continue
                if 'f' in {x.id for x in ast.walk(sv) if isinstance(x, ast.Name)} or 'frac_length' in norm(sv):
                    shifts.append(s)
            if isinstance(s, ast.Assign) and isinstance(s.value, ast.BinOp) and isinstance(s.value.op, ast.RShift) and fnorm(s.value.right) == 'f':
                shifts.append(s)
        for c in iter_nodes(fn.node):
            if isinstance(c, ast.Call) and attr_tail(c.func) in ('trunc', 'np_trunc'):
                truncs.append(c)
        if not shifts or not truncs:
            rep.bad('FX3', fn, fn.qualname, f'product coroutine without both an exact shift and a truncation path ({len(shifts)} shift(s), {len(truncs)} trunc(s)): '
                    'a scale-2f product is returned unscaled on some path', fn.node)
            continue

        def guard(node):
            return _guard_formula(fn, node, pm)
        gs = ('or', [guard(s) for s in shifts])
        gt = ('or', [guard(t) for t in truncs])
        ats = sorted(atoms_of(gs) | atoms_of(gt))
        if len(ats) > 12:
            rep.skip('FX3', fn, fn.qualname, 'too many atoms in the guards', fn.node)
            continue
        flag_atoms = [a for a in ats if a.endswith('.integral') or a.endswith('_integral')]
        if not flag_atoms:
            rep.skip('FX3', fn, fn.qualname, 'guards do not mention integral flags', fn.node)
            continue
        both, neither, unlicensed = None, None, None
        for bits in itertools.product([True, False], repeat=len(ats)):
            v = dict(zip(ats, bits))
            # only valuations with fractional bits and a genuine product of scaled values matter
            if any((a == 'f' or a.endswith('frac_length')) and not v[a] for a in v):
                continue
            if 'z == f' in v and v['z == f']:
                continue
            if 'rshift' in v and not v['rshift']:
                continue
            # a public (non-secure) second operand carries no flag: its cases are the escape atoms above
            if any('isinstance(' in a and 'Secure' not in a and v[a] for a in v):
                continue
            S, T = evalf(gs, v), evalf(gt, v)
            if S and T:
                both = v
            if not S and not T:
                neither = v
            if S and flag_atoms and not any(v[a] for a in flag_atoms):
                unlicensed = v
        show = lambda v: ', '.join(f'{a}={b}' for a, b in v.items())
        if both:
            rep.bad('FX3', fn, shifts[0], f'exact shift and truncation are both applied when {show(both)}: the product is scaled down twice')
        if neither:
            rep.bad('FX3', fn, truncs[0], f'neither exact shift nor truncation is applied when {show(neither)}: a scale-2f product is returned as scale f')
        if unlicensed:
            rep.bad('FX3', fn, shifts[0], f'the exact shift is taken when {show(unlicensed)}: no factor is flagged integral, so the low f bits are not zero '
                    'and the field division by 2^f yields garbage')
        if not (both or neither or unlicensed):
            rep.ok('FX3', fn, shifts[0], f'exact shift iff a factor is integral, truncation otherwise (atoms: {", ".join(ats)})')
        # same amount on both paths
        amt_s = {fnorm(s.value if isinstance(s, ast.AugAssign) else s.value.right) for s in shifts}
        amt_t = set()
        for t in truncs:
            kw = [k.value for k in t.keywords if k.arg == 'f']
            amt_t.add(fnorm(kw[0]) if kw else 'f')
        if amt_s == amt_t or (amt_s == {'f'} and amt_t == {'f'}):
            rep.ok('FX3', fn, truncs[0], f'both paths remove {sorted(amt_s)[0]} fractional bits')
        else:
            rep.bad('FX3', fn, truncs[0], f'the exact shift removes {sorted(amt_s)} bits but the truncation removes {sorted(amt_t)}')


# ---------------------------------------------------------------------------------- FX4
def rule_FX4(ctx, rep):
    """flags are combined by conjunction: wherever an integral flag is *defined* from two or more operand
    flags (assignment to a flag variable / list, returnType argument) the connective is `and`/`all`,
    never `or`/`any` between operand flags."""
    model = ctx.model
    n = 0
    for k, fn in sorted(model.funcs.items()):
        if fn.module not in ('runtime', 'sectypes', 'secgroups', 'seclists', 'statistics', 'random', 'secpols'):
            continue
        pm = None
        # names whose value ends up in a declared / stored flag (not names that merely steer a branch)
        sinks = set()
        src = norm(fn.node)
        if 'integral' not in src:
            continue
        pmx = parents(fn.node)
        for c, e, st in _declarations(fn, pmx):
            sinks |= {x.id for x in ast.walk(e) if isinstance(x, ast.Name)}
        for x in iter_nodes(fn.node):
            if isinstance(x, ast.keyword) and x.arg == 'integral':
                sinks |= {y.id for y in ast.walk(x.value) if isinstance(y, ast.Name)}
            if isinstance(x, ast.Assign) and isinstance(x.targets[0], ast.Attribute) and x.targets[0].attr == 'integral':
                sinks |= {y.id for y in ast.walk(x.value) if isinstance(y, ast.Name)}
            if isinstance(x, ast.Return) and x.value is not None and 'integral' in norm(x.value):
                sinks |= {y.id for y in ast.walk(x.value) if isinstance(y, ast.Name)}
        changed = True
        while changed:
            changed = False
            for nm in list(sinks):
                for st, v, how in definitions(fn.node, nm):
                    if v is None:
                        continue
                    new = {y.id for y in ast.walk(v) if isinstance(y, ast.Name)} - sinks
                    if new:
                        sinks |= new
                        changed = True
        for s in iter_nodes(fn.node):
            tgt = None
            val = None
            if isinstance(s, ast.Assign):
                t = s.targets[0]
                b = t
                while isinstance(b, ast.Subscript):
                    b = b.value
                if isinstance(b, ast.Name) and b.id in sinks and any((isinstance(y, ast.Attribute) and y.attr == 'integral') or
                                                                     (isinstance(y, ast.Name) and 'integral' in y.id) for y in ast.walk(s.value)):
                    tgt, val = b.id, s.value
                elif isinstance(b, ast.Name) and 'integral' in b.id and b.id in sinks:
                    tgt, val = b.id, s.value
                elif isinstance(b, ast.Attribute) and b.attr == 'integral':
                    tgt, val = norm(b), s.value
            if tgt is None:
                continue
            n += 1
            bad = None
            for x in ast.walk(val):
                if isinstance(x, ast.BoolOp) and isinstance(x.op, ast.Or):
                    fl = [v for v in x.values if any((isinstance(y, ast.Attribute) and y.attr == 'integral') or (isinstance(y, ast.Name) and 'integral' in y.id) or
                                                     (isinstance(y, ast.Subscript) and isinstance(y.value, ast.Name) and 'integral' in y.value.id) for y in ast.walk(v))]
                    if len(fl) >= 2:
                        bad = x
                if isinstance(x, ast.Call) and isinstance(x.func, ast.Name) and x.func.id == 'any' and 'integral' in norm(x):
                    bad = x
            if bad is not None:
                rep.bad('FX4', fn, s, f'integral flag `{tgt}` is defined with a disjunction of operand flags ({norm(bad)}): a product/sum is integral only if *all* operands are')
            else:
                rep.ok('FX4', fn, s, 'flag defined from operand flags by conjunction / copy')
    if n < 25:
        raise AnalysisError(f'FX4: only {n} flag definitions found (expected >= 25)')


# ---------------------------------------------------------------------------------- FX5
EXACT_INT_TESTS = ('{v}.is_integer()', 'float({v}).is_integer()', '{v} == int({v})', '{v} % 1 == 0', '{v} == round({v})', 'int({v}) == {v}')


def rule_FX5(ctx, rep):
    """constructors infer `integral` exactly: True for ints, an exact integrality test for floats, and an
    explicit argument is passed through unchanged."""
    model = ctx.model
    for key in ('sectypes::SecureFixedPoint.__init__', 'sectypes::SecureFixedPointArray.__init__'):
        fn = model.func(key)
        pm = parents(fn.node)
        assigns = [s for s in iter_nodes(fn.node) if isinstance(s, ast.Assign) and norm(s.targets[0]) == 'integral']
        if len(assigns) < 2:
            raise AnalysisError(f'FX5: inference of integral not found in {key}')
        from . import cond
        for s in assigns:
            cx = cond.context(fn, s, pm)
            holds = cond.implied(cx)           # atomic conditions that hold whenever this assignment runs (any nesting / polarity)
            under_none = any(a in ('None is integral', 'integral is None') for a in holds)
            v = norm(s.value)
            # a temporary holding the test (`all_whole = ...; integral = bool(all_whole)`) is read through, one level
            for nm_ in [x for x in ast.walk(s.value) if isinstance(x, ast.Name) and x.id not in ('integral', 'value', 'bool')]:
                ds_ = [d for d in reaching_definitions(fn.node, nm_.id, s, pm) if d[2] == 'assign' and d[1] is not None]
                if len(ds_) == 1 and len(reaching_definitions(fn.node, nm_.id, s, pm)) == 1:
                    v = v.replace(nm_.id, norm(ds_[0][1]))
            if not under_none:
                rep.bad('FX5', fn, s, 'an explicitly given integral argument is overwritten')
                continue
            def branch(pred):
                """the assignment runs only when one of the atoms selected by pred holds (a disjunction of them is implied)"""
                sel = [a for a in cond.atoms_of(cx) if pred(a)]
                return bool(sel) and not cond.satisfiable(cond.conj([cx] + [cond.neg(cond.atom(a)) for a in sel]))
            is_int_branch = branch(lambda t: 'isinstance(value, int)' in t or 'np.integer' in t or 'dtype, object)' in t)
            is_float_branch = branch(lambda t: 'isinstance(value, float)' in t or 'np.floating' in t)
            if is_int_branch:
                if v == 'True':
                    rep.ok('FX5', fn, s, 'ints are integral')
                else:
                    rep.bad('FX5', fn, s, f'for int values integral is set to {v}')
            elif is_float_branch:
                exact = [t.format(v='value') for t in EXACT_INT_TESTS]
                okf = v in exact or ('is_integer()' in v and ('.all()' in v or 'all(' in v)) or v == 'bool(integral)'
                if okf:
                    rep.ok('FX5', fn, s, 'floats are integral exactly when they are whole numbers')
                else:
                    rep.bad('FX5', fn, s, f'integrality of a float is inferred by `{v}`, not by an exact whole-number test: a value that is not whole '
                            '(after scaling by 2^f) can be marked integral')
            else:
                rep.bad('FX5', fn, s, f'integral is inferred ({v}) outside the int/float branches')
        st = [s for s in iter_nodes(fn.node) if isinstance(s, ast.Assign) and norm(s.targets[0]) == 'self.integral']
        if len(st) == 1 and norm(st[0].value) == 'integral' and not enclosing_ifs(st[0], pm, stop=fn.node):
            rep.ok('FX5', fn, st[0], 'the (given or inferred) flag is stored unconditionally')
        else:
            rep.bad('FX5', fn, fn.qualname, 'self.integral is not simply the given/inferred flag', fn.node)
    # returnType passes the declared flag to the constructor unchanged
    # (the constructor lambdas may live in returnType itself or in a helper it calls with the declared type: the function holding
    # them is analysed, with its own name for the declared type)
    rt = model.func('asyncoro::returnType')
    from . import sem
    holder, tname = rt, 'rettype'
    if not any(isinstance(l, ast.Lambda) and 'integral' in norm(l) for l in ast.walk(rt.node)):
        for c in iter_nodes(rt.node):
            if isinstance(c, ast.Call) and isinstance(c.func, ast.Name) and len(c.args) == 1 and norm(c.args[0]) == 'rettype':
                h = model.funcs.get(f'asyncoro::{c.func.id}')
                if h is not None and h.params and any(isinstance(l, ast.Lambda) and 'integral' in norm(l) for l in ast.walk(h.node)):
                    holder, tname = h, h.params[0]
    hpm = parents(holder.node)
    lam = [l for l in ast.walk(holder.node) if isinstance(l, ast.Lambda) and 'integral' in norm(l)]
    okl = lam and all(('integral=integral' in norm(l)) or norm(l).endswith('stype(None, shape, integral)') for l in lam)
    src = [s for s in iter_nodes(holder.node) if isinstance(s, ast.Assign) and norm(s.targets[0]) == 'integral' and norm(s.value) != 'None']
    if okl and len(src) == 1 and norm(sem.expand(holder, src[0].value, src[0], hpm)) == f'{tname}[1]':
        rep.ok('FX5', rt, src[0], 'placeholders are created with exactly the declared flag')
    else:
        rep.bad('FX5', rt, rt.qualname, 'returnType does not hand the declared flag (rettype[1]) unchanged to the placeholder constructor', rt.node)


# ---------------------------------------------------------------------------------- SC1
def rule_SC1(ctx, rep, scope=None):
    """representable scale factors: a public factor 2**E applied to a secure fixed-point value is converted with
    round(2**E * 2**f); for E + f < 0 it becomes 0 and the product vanishes.  For every factor whose exponent is a linear
    form in the number of fractional bits f and the bit length l, E + f >= 0 must hold for all types in the property's
    quantifier (l >= 2f)."""
    from .linform import Lin, to_lin
    model = ctx.model
    n = 0
    for k, fn in sorted(model.funcs.items()):
        if fn.module not in ('runtime',):
            continue
        if scope is not None and fn.qualname.split('.')[-1] not in scope:
            continue
        names = {a.arg for a in fn.node.args.args}
        if not any(isinstance(x, ast.Attribute) and x.attr == 'frac_length' for x in ast.walk(fn.node)):
            continue
        for e in iter_nodes(fn.node):
            if not (isinstance(e, ast.BinOp) and isinstance(e.op, ast.Pow) and const_int(e.left) == 2):
                continue
            # local names: f = <type>.frac_length, l = <type>.bit_length
            env = {}
            for nm in {x.id for x in ast.walk(e.right) if isinstance(x, ast.Name)}:
                vals = [v for _, v, _ in definitions(fn.node, nm) if v is not None]
                if vals and all(isinstance(v, ast.Attribute) and v.attr == 'frac_length' for v in vals):
                    env[nm] = Lin.sym('F')
                elif vals and all(isinstance(v, ast.Attribute) and v.attr == 'bit_length' for v in vals):
                    env[nm] = Lin.sym('L')
            E = to_lin(e.right, env, opaque=False)
            if E is None or not (E.syms() <= {'F', 'L'}) or E.coef('L') >= 0:
                continue
            n += 1
            # worst case under L >= 2F: L = 2F + d (d >= 0); E + F with L substituted
            slack = E + Lin.sym('F')
            cl, cf = slack.coef('L'), slack.coef('F')
            # slack = cf*F + cl*L + c ; with L = 2F + d: (cf + 2 cl) F + cl d + c
            worst_ok = cl >= 0 and (cf + 2 * cl) >= 0 and slack.c >= 0
            if worst_ok:
                rep.ok('SC1', fn, e, 'the factor is at least one unit 2^-f for every type with l >= 2f')
            else:
                dmax = None
                if cl < 0 and (cf + 2 * cl) >= 0:
                    dmax = int(slack.c // (-cl))
                rep.bad('SC1', fn, e, f'the public factor 2**({norm(e.right)}) is converted to fixed point as round(2**({norm(e.right)} + f)), which is 0 for '
                        f'types with l > 2f{" + " + str(dmax) if dmax else ""} (e.g. SecFxp(32, 8)): the normalised value -- and with it every quotient / '
                        'reciprocal computed from it -- is 0 whatever the inputs')
    if n < 2:
        raise AnalysisError(f'SC1: only {n} bit-length dependent scale factors found (expected >= 2)')


# ---------------------------------------------------------------------------------- FX6
def _pair_pattern(fn, comp, lst, pm):
    """(start, stride, (offset of first, offset of second)) of the positions of list `lst` that a pairing comprehension combines:
    `[.. L[i] .. L[i+1] .. for i in range(a, n, 2)]` -> (a, 2, (0, 1));  `[.. for u, v in zip(L[s0::k], L[s1::k])]` -> (s0, k, (0, s1-s0))."""
    from .linform import to_lin
    if not (isinstance(comp, (ast.ListComp, ast.GeneratorExp)) and len(comp.generators) == 1 and not comp.generators[0].ifs):
        return None
    g = comp.generators[0]
    it = g.iter
    if isinstance(it, ast.Call) and isinstance(it.func, ast.Name) and it.func.id == 'range' and len(it.args) == 3 and isinstance(g.target, ast.Name):
        iv = g.target.id
        idx = sorted({norm(x.slice) for x in ast.walk(comp.elt) if isinstance(x, ast.Subscript) and isinstance(x.value, ast.Name) and x.value.id == lst})
        offs = []
        for t in idx:
            l = to_lin(ast.parse(t, mode='eval').body, opaque=False)
            if l is None or l.coef(iv) != 1 or len(l.syms()) != 1:
                return None
            offs.append(int(l.c))
        if len(offs) != 2:
            return None
        return (cnorm_x(it.args[0]), norm(it.args[2]), tuple(sorted(offs)))
    if isinstance(it, ast.Call) and isinstance(it.func, ast.Name) and it.func.id == 'zip' and len(it.args) == 2:
        sl = []
        for a in it.args:
            if not (isinstance(a, ast.Subscript) and isinstance(a.value, ast.Name) and a.value.id == lst and isinstance(a.slice, ast.Slice) and a.slice.upper is None):
                return None
            lo = a.slice.lower if a.slice.lower is not None else ast.Constant(value=0)
            st = a.slice.step if a.slice.step is not None else ast.Constant(value=1)
            sl.append((lo, st))
        if norm(sl[0][1]) != norm(sl[1][1]):
            return None
        l0, l1 = to_lin(sl[0][0], opaque=True), to_lin(sl[1][0], opaque=True)
        if l0 is None or l1 is None or not (l1 - l0).is_const():
            return None
        return (cnorm_x(sl[0][0]), norm(sl[0][1]), (0, int((l1 - l0).c)))
    return None


def cnorm_x(e):
    from .core import cnorm
    return cnorm(e)


def rule_FX6(ctx, rep):
    """log-round product tree (Runtime.prod): the list of integrality marks is updated with exactly the pairs of positions whose
    elements are multiplied in that round (same start, same stride, same neighbours), so that mark j keeps describing element j."""
    fn = ctx.model.func('runtime::Runtime.prod')
    pm = parents(fn.node)
    loops = [w for w in iter_nodes(fn.node) if isinstance(w, ast.While)]
    if len(loops) != 1:
        raise AnalysisError('FX6: the round loop of Runtime.prod was not found')
    w = loops[0]
    from . import sem

    def comps():
        for c in iter_nodes(w):
            if isinstance(c, (ast.ListComp, ast.GeneratorExp)):
                yield c
            elif isinstance(c, ast.For) and not c.orelse and len(c.body) == 1 and isinstance(c.body[0], ast.Expr) and isinstance(c.body[0].value, ast.Call) \
                    and isinstance(c.body[0].value.func, ast.Attribute) and c.body[0].value.func.attr == 'append' and len(c.body[0].value.args) == 1:
                # the loop form of the same list: for T in IT: L.append(E)
                yield ast.ListComp(elt=c.body[0].value.args[0], generators=[ast.comprehension(target=c.target, iter=c.iter, ifs=[], is_async=0)])
    allc = list(comps())
    prods = [c for c in allc if isinstance(c.elt, ast.BinOp) and isinstance(c.elt.op, ast.Mult)]
    markc = [c for c in allc if isinstance(c.elt, ast.BoolOp)]
    marks = [s for s in iter_nodes(w) if isinstance(s, ast.Assign) and isinstance(s.targets[0], ast.Subscript) and isinstance(s.targets[0].value, ast.Name)
             and isinstance(s.targets[0].slice, ast.Slice)
             and (isinstance(s.value, (ast.ListComp, ast.GeneratorExp)) and isinstance(s.value.elt, ast.BoolOp) or isinstance(s.value, ast.Name) and len(markc) == 1)]
    if len(prods) != 1 or len(marks) != 1:
        rep.skip('FX6', fn, w, 'pairing comprehensions of products / marks not found in the recognised form')
        return
    xs = {x.value.id for x in ast.walk(prods[0].elt) if isinstance(x, ast.Subscript) and isinstance(x.value, ast.Name)}
    if len(xs) != 1:
        rep.skip('FX6', fn, prods[0], 'products are not taken from one list')
        return
    flagl = marks[0].targets[0].value.id
    pp = _pair_pattern(fn, prods[0], xs.pop(), pm)
    # marks written as u and v over zip(..): the element reads names, not subscripts
    mp_ = _pair_pattern(fn, marks[0].value if not isinstance(marks[0].value, ast.Name) else markc[0], flagl, pm)
    tslice = marks[0].targets[0].slice
    tstart = cnorm_x(tslice.lower) if isinstance(tslice, ast.Slice) and tslice.lower is not None else '0'
    if pp is None or mp_ is None:
        rep.skip('FX6', fn, marks[0], 'pairing pattern not recognised')
    elif pp == mp_ and tstart == pp[0]:
        rep.ok('FX6', fn, marks[0], f'marks are combined for the same pairs of positions as the products (from {pp[0]}, stride {pp[1]})')
    else:
        rep.bad('FX6', fn, marks[0], f'the integrality marks are combined for positions starting at {mp_[0]} (stride {mp_[1]}, neighbours {mp_[2]}) but the products are formed '
                f'for positions starting at {pp[0]} (stride {pp[1]}, neighbours {pp[2]}): for an odd number of elements every mark describes the wrong element, '
                'so an exact shift is applied to a non-integral product (or a truncation to an integral one)')
