"""SS rules: secret-sharing plumbing -- dealing threshold provenance, dealer randomness, x-coordinate
convention, payload provenance, routing duality (properties C07, C11-C15, C19, C28, parts of C01)."""
import ast

from .core import AnalysisError, iter_nodes, norm, cnorm
from . import astq
from .astq import (parents, ancestors, calls_named, mentions_attr, mentions_name, definitions, reaching_definitions,
                   enclosing_loops, enclosing_ifs, const_int, attr_tail, resolve_value)
from .linform import Lin, to_lin

RT = 'runtime::Runtime.'


# ---------------------------------------------------------------------------------- helpers
def _resolved_lin(fn, e, use=None, pm=None, depth=0):
    """Linear form of e with local names replaced by their (single reaching) linear definitions."""
    env = {}
    names = {n.id for n in ast.walk(e) if isinstance(n, ast.Name)}
    for nm in names:
        ds = reaching_definitions(fn.node, nm, use, pm) if (use is not None and pm is not None) else definitions(fn.node, nm)
        vals = [v for _, v, how in ds]
        if len(vals) == 1 and vals[0] is not None and depth < 4 and not isinstance(vals[0], (ast.Call, ast.Await, ast.IfExp)):
            if isinstance(vals[0], ast.Attribute) or isinstance(vals[0], (ast.BinOp, ast.Name, ast.Constant)):
                sub = _resolved_lin(fn, vals[0], ds[0][0], pm, depth + 1)
                if sub is not None:
                    env[nm] = sub
    return to_lin(e, env)


def _mod_term(e):
    """`X % M` -> (X, M) else None."""
    if isinstance(e, ast.BinOp) and isinstance(e.op, ast.Mod):
        return e.left, e.right
    return None


def _guard_interval(test, env=None):
    """Chain comparison around one modular term: returns (inner expr, modulus expr, lo Lin, hi Lin)
    meaning lo <= inner % modulus <= hi; None if not of that shape."""
    if not isinstance(test, ast.Compare):
        return None
    terms = [test.left] + list(test.comparators)
    ops = test.ops
    idx = [i for i, t in enumerate(terms) if _mod_term(t)]
    if len(idx) != 1:
        return None
    i = idx[0]
    inner, mod = _mod_term(terms[i])
    lo, hi = Lin(0), None
    if i > 0:
        if len(terms[:i]) != 1:
            return None
        b = _pid_lin(terms[i - 1], env)
        if b is None:
            return None
        if isinstance(ops[i - 1], ast.Lt):
            lo = b + 1
        elif isinstance(ops[i - 1], ast.LtE):
            lo = b
        else:
            return None
    if i < len(terms) - 1:
        if len(terms[i + 1:]) != 1:
            return None
        b = _pid_lin(terms[i + 1], env)
        if b is None:
            return None
        if isinstance(ops[i], ast.Lt):
            hi = b - 1
        elif isinstance(ops[i], ast.LtE):
            hi = b
        else:
            return None
    if hi is None:
        return None
    return inner, mod, lo, hi


def _range_bounds(call, env=None):
    """range(n) / range(a, b) -> (lo Lin, hi Lin inclusive) else None."""
    if not (isinstance(call, ast.Call) and isinstance(call.func, ast.Name) and call.func.id == 'range'):
        return None
    a = call.args
    if len(a) == 1:
        n = to_lin(a[0], env or {}, opaque=False)
        return (Lin(0), n - 1) if n is not None else None
    if len(a) == 2:
        lo, hi = to_lin(a[0], env or {}, opaque=False), to_lin(a[1], env or {}, opaque=False)
        return (lo, hi - 1) if lo is not None and hi is not None else None
    return None


def _subst(lin, name, val):
    """Substitute symbol name by Lin val in lin."""
    c = lin.coef(name)
    if c == 0:
        return lin
    rest = Lin(lin.c, {k: v for k, v in lin.t.items() if k != name})
    return rest + val * c


SELF = 'self.pid'


def _canon_env(fn):
    """Local names of fn that denote the threshold in force (symbol T) or the number of parties (symbol M)."""
    env = {}
    names = set()
    for n in iter_nodes(fn.node):
        if isinstance(n, ast.Assign) and len(n.targets) == 1 and isinstance(n.targets[0], ast.Name):
            names.add(n.targets[0].id)
    for nm in names:
        vals = [v for _, v, _ in definitions(fn.node, nm)]
        if len(vals) != 1 or vals[0] is None:
            continue
        v = vals[0]
        t = norm(v)
        if t in ('self.threshold', 'runtime.threshold'):
            env[nm] = Lin.sym('T')
        elif isinstance(v, ast.IfExp) and norm(v.body) in ('self.threshold',) and isinstance(v.test, ast.Compare) and len(v.test.ops) == 1 \
                and isinstance(v.test.ops[0], ast.Is) and norm(v.test.comparators[0]) == 'None' and norm(v.orelse) == norm(v.test.left):
            env[nm] = Lin.sym('T')       # the threshold requested for this output (default: runtime threshold)
        elif isinstance(v, ast.IfExp) and norm(v.orelse) in ('self.threshold',) and isinstance(v.test, ast.Compare) and len(v.test.ops) == 1 \
                and isinstance(v.test.ops[0], ast.IsNot) and norm(v.test.comparators[0]) == 'None' and norm(v.body) == norm(v.test.left):
            env[nm] = Lin.sym('T')
        elif t in ('len(self.parties)', 'len(runtime.parties)'):
            env[nm] = Lin.sym('M')
    return env


def _pid_lin(e, env=None):
    """Lin of an expression in which self.pid is the symbol 'self.pid', self.threshold is T and
    len(self.parties) is M; local names are canonicalised through env."""
    class T(ast.NodeTransformer):
        def visit_Attribute(self, n):
            t = norm(n)
            if t in ('self.pid', 'runtime.pid', 'rt.pid'):
                return ast.copy_location(ast.Name(id='__selfpid__', ctx=ast.Load()), n)
            if t in ('self.threshold', 'runtime.threshold'):
                return ast.copy_location(ast.Name(id='T', ctx=ast.Load()), n)
            return n

        def visit_Call(self, n):
            if norm(n) in ('len(self.parties)', 'len(runtime.parties)'):
                return ast.copy_location(ast.Name(id='M', ctx=ast.Load()), n)
            return self.generic_visit(n)
    import copy
    e2 = T().visit(copy.deepcopy(e))
    l = to_lin(e2, env or {}, opaque=False)
    if l is None:
        return None
    return _subst(l, '__selfpid__', Lin.sym(SELF)) if l.coef('__selfpid__') != 0 else l


def _same_modulus(a, b, env):
    la, lb = _pid_lin(a, env), _pid_lin(b, env)
    return la is not None and lb is not None and la == lb and la == Lin.sym('M')


# ---------------------------------------------------------------------------------- SS2
def rule_SS2(ctx, rep):
    """dealing threshold provenance: every protocol dealing passes self.threshold and len(self.parties)."""
    model = ctx.model
    n = 0
    for k, fn in sorted(model.funcs.items()):
        if fn.module == 'thresha':
            continue
        pm = None
        for c in iter_nodes(fn.node):
            if not isinstance(c, ast.Call):
                continue
            tg = ctx.flow.rs.resolve_call(fn, c)
            if not any(t.key in ('thresha::random_split', 'thresha::np_random_split') for t in tg):
                continue
            n += 1
            pm = pm or parents(fn.node)
            if len(c.args) < 4:
                raise AnalysisError(f'SS2: random_split call with unexpected arity in {fn.key}')
            targ, marg = c.args[2], c.args[3]
            probs = []
            tv = targ
            hops = 0
            while isinstance(tv, ast.Name) and hops < 4:
                ds = reaching_definitions(fn.node, tv.id, c, pm)
                if len(ds) != 1 or ds[0][1] is None:
                    break
                tv = ds[0][1]
                hops += 1
            if not (isinstance(tv, ast.Attribute) and tv.attr == 'threshold' and isinstance(tv.value, ast.Name) and tv.value.id in ('self', 'runtime', 'rt')):
                probs.append(f'degree argument {norm(targ)} = {norm(tv)} is not the runtime\'s current threshold (self.threshold): shares are dealt '
                             'with a polynomial of the wrong degree')
            mv = marg
            hops = 0
            while isinstance(mv, ast.Name) and hops < 4:
                ds = reaching_definitions(fn.node, mv.id, c, pm)
                if len(ds) != 1 or ds[0][1] is None:
                    break
                mv = ds[0][1]
                hops += 1
            if not (isinstance(mv, ast.Call) and attr_tail(mv.func) == 'len' and mv.args and mentions_attr(mv.args[0], 'parties')):
                probs.append(f'party count {norm(marg)} = {norm(mv)} is not len(self.parties)')
            if probs:
                for p in probs:
                    rep.bad('SS2', fn, c, p)
            else:
                rep.ok('SS2', fn, c, 'dealt with degree self.threshold for len(self.parties) parties')
    if n < 2:
        raise AnalysisError(f'SS2: only {n} dealing call sites found (expected >= 2)')


# ---------------------------------------------------------------------------------- SS3
def rule_SS3(ctx, rep):
    """dealer randomness in thresha.random_split / np_random_split."""
    model = ctx.model
    fn = model.func('thresha::random_split')
    pm = parents(fn.node)
    ps = fn.params  # field, s, t, m
    fieldp, sp, tp, mp = ps[:4]
    draws = [c for c in iter_nodes(fn.node) if isinstance(c, ast.Call) and norm(c.func) in ('secrets.randbelow',)]
    if len(draws) != 1:
        rep.bad('SS3', fn, fn.qualname, f'{len(draws)} direct secrets.randbelow draws found (expected exactly one, per coefficient): coefficients are not '
                'drawn from the CSPRNG', fn.node)
        return
    d = draws[0]
    from . import routes
    binders, guards = routes._context(fn, d, pm)
    par = pm.get(id(d))
    cname, coll_node = None, None
    if isinstance(par, (ast.ListComp, ast.GeneratorExp)) and par.elt is d:
        p2 = pm.get(id(par))
        while isinstance(p2, ast.Call) and isinstance(p2.func, ast.Name) and p2.func.id in ('list', 'tuple'):
            p2 = pm.get(id(p2))
        if isinstance(p2, ast.Assign) and isinstance(p2.targets[0], ast.Name):
            cname, coll_node = p2.targets[0].id, par
    elif isinstance(par, ast.Call) and attr_tail(par.func) == 'append' and isinstance(par.func.value, ast.Name) and par.args and par.args[0] is d:
        cname, coll_node = par.func.value.id, par
    if cname is None:
        rep.bad('SS3', fn, d, 'a drawn value is post-processed before use as a coefficient (not uniform on the field)')
        return
    inner = binders[-1] if binders else None
    if inner is not None and inner.kind == 'range' and (inner.hi - inner.lo + 1) == Lin.sym(tp) and not any(
            any(isinstance(x, ast.Name) and x.id == inner.var for x in ast.walk(g[0])) for g in guards):
        rep.ok('SS3', fn, coll_node, f'exactly {tp} random coefficients per secret')
    else:
        rep.bad('SS3', fn, coll_node, f'the number of random coefficients per secret is not the degree parameter {tp}: the sharing polynomial has the wrong degree')
    bound = routes.xp(fn, d.args[0], d, pm)
    if norm(bound) == f'{fieldp}.order':
        rep.ok('SS3', fn, d, 'each coefficient is uniform on the whole field (randbelow(field.order))')
    else:
        rep.bad('SS3', fn, d, f'coefficients are drawn below {norm(bound)}, not below the field order: shares are not uniform')
    # fresh per secret: the draw (and the start of its collection) is inside the loop over the secrets
    st = astq.enclosing_stmt(d, pm)
    sb = [b for b in binders[:-1] if b.kind in ('enum', 'iter') and b.src is not None and mentions_name(b.src, sp)]
    sloops = [b.node for b in sb]
    fresh = bool(sb)
    if fresh and isinstance(par, ast.Call):
        # for/append form: the list must be re-initialised inside the secrets loop as well
        inits = [st_ for st_, v, how in definitions(fn.node, cname) if isinstance(v, ast.List) and not v.elts]
        fresh = any(any(x is st_ for x in ast.walk(sb[-1].node)) for st_ in inits)
    if fresh:
        rep.ok('SS3', fn, st, 'coefficients are drawn afresh for every secret')
    else:
        rep.bad('SS3', fn, st, 'the random coefficients are not drawn inside the loop over the secrets: all secrets of a batch share one '
                'polynomial tail, so share differences reveal secret differences')
    # Horner: y = (y + c_j) * x over all coefficients, then + secret, stored in the row of the party with point x
    from . import routes
    cl = [l for l in iter_nodes(fn.node) if isinstance(l, ast.For) and cname and norm(l.iter) == cname]
    if len(cl) != 1:
        rep.bad('SS3', fn, fn.qualname, 'the evaluation does not run over all drawn coefficients', fn.node)
        return
    cv = cl[0].target.id if isinstance(cl[0].target, ast.Name) else None
    body = cl[0].body
    good = cv is not None and len(body) == 1 and isinstance(body[0], ast.Assign) and isinstance(body[0].targets[0], ast.Name)
    xv = acc = None
    if good:
        acc = body[0].targets[0].id
        v = body[0].value
        good = isinstance(v, ast.BinOp) and isinstance(v.op, ast.Mult)
        if good:
            a, b = v.left, v.right
            if not isinstance(b, ast.Name) or isinstance(a, ast.Name):
                a, b = b, a
            good = isinstance(b, ast.Name) and isinstance(a, ast.BinOp) and isinstance(a.op, ast.Add) and \
                sorted([norm(a.left), norm(a.right)]) == sorted([acc, cv])
            xv = b.id if good else None
    if good:
        rep.ok('SS3', fn, body[0], 'Horner step: every coefficient is multiplied by the evaluation point (positive powers only)')
    else:
        rep.bad('SS3', fn, cl[0], 'the evaluation loop is not the Horner step y = (y + c_j) * x: some coefficient does not carry a positive power of x '
                '(the constant term is no longer exactly the secret / a coefficient is unused)')
        return
    # the evaluation point ranges over 1..m, one per party
    binders, _g = routes._context(fn, cl[0], pm)
    xb = [b for b in binders if xv in b.names()]
    pt = Lin.sym(xv)       # the evaluation point as a linear form over the loop variable of the party loop
    if not xb:
        # the point is a temporary computed from the loop variable (x = i + 1)
        pt = to_lin(_xp_arith(fn, ast.Name(id=xv, ctx=ast.Load()), body[0], pm), opaque=False)
        if pt is not None and len(pt.syms()) == 1 and pt.coef(next(iter(pt.syms()))) == 1:
            v0 = next(iter(pt.syms()))
            xb = [b for b in binders if v0 in b.names() and (b.kind == 'range' or (b.kind == 'enum' and b.pos == v0))]
    pl = xb[-1].node if xb else None
    rows_tbl = None        # name of the table whose rows are enumerated together with the point
    pts_ok = False
    if xb and xb[-1].kind == 'range':
        pts_ok = xb[-1].lo + pt.c == Lin(1) and xb[-1].hi + pt.c == Lin.sym(mp)
    elif xb and xb[-1].kind == 'enum' and pt is not None and pt.coef(xb[-1].pos) == 1 and xb[-1].start + pt.c == 1 and isinstance(xb[-1].src, ast.Name):
        # enumerate(<table with one row per party>[, start=k]) with the point = position - k + 1
        tbl = astq.sole_definition(fn.node, xb[-1].src.id)
        if isinstance(tbl, ast.ListComp) and len(tbl.generators) == 1 and _range_bounds(tbl.generators[0].iter) \
                and _range_bounds(tbl.generators[0].iter)[1] == Lin.sym(mp) - 1:
            pts_ok = True
            rows_tbl = (xb[-1].src.id, xb[-1].elem)
    if not pts_ok:
        rep.bad('SS3', fn, pl if pl is not None else fn.qualname, f'evaluation points are not exactly 1..{mp} (one per party)', fn.node)
        return
    # accumulator reset per evaluation point
    ci = [k for k, s_ in enumerate(pl.body) if s_ is cl[0] or any(x is cl[0] for x in ast.walk(s_))]
    ci = ci[0] if ci else len(pl.body)
    resets = [s for s in pl.body[:ci] if isinstance(s, ast.Assign) and norm(s.targets[0]) == acc]
    if resets:
        rep.ok('SS3', fn, resets[0], 'accumulator reset for every evaluation point')
    else:
        rep.bad('SS3', fn, pl, 'the Horner accumulator is not reset for every evaluation point')
    stores = [s for s in pl.body[ci + 1:] if isinstance(s, ast.Assign) and isinstance(s.targets[0], ast.Subscript)]
    good = False
    if len(stores) == 1:
        tgt = stores[0].targets[0]
        val = routes.xp(fn, stores[0].value, stores[0], pm)
        if isinstance(val, ast.BinOp) and isinstance(val.op, ast.Mod):
            val = val.left
        row_ok = False
        if isinstance(tgt.value, ast.Subscript):
            rl = to_lin(_xp_arith(fn, tgt.value.slice, stores[0], pm), opaque=False)
            row_ok = rl is not None and rl == pt - 1 and (rows_tbl is None or norm(tgt.value.value) == rows_tbl[0])
            if rows_tbl is not None and row_ok:
                row_ok = rl == Lin.sym(xb[-1].pos) - xb[-1].start          # indexed by position in the enumerated table
        elif rows_tbl is not None and isinstance(tgt.value, ast.Name) and tgt.value.id == rows_tbl[1]:
            row_ok = True          # the row enumerated together with its point (start=1)
        sec = None
        if isinstance(val, ast.BinOp) and isinstance(val.op, ast.Add):
            other = [x for x in (val.left, val.right) if norm(x) != acc]
            if len(other) == 1:
                sec = other[0]
        if row_ok and sec is not None:
            # the secret of this iteration (loop variable of the secrets loop, possibly .value)
            tnames = set(astq.assigned_names(sloops[0].target)) if sloops else set()
            secx = routes.xp(fn, sec, stores[0], pm)
            names = {n.id for n in ast.walk(secx) if isinstance(n, ast.Name)}
            for nm in list(names):
                for st_, v_, how_ in definitions(fn.node, nm):
                    if v_ is not None:
                        names |= {n.id for n in ast.walk(v_) if isinstance(n, ast.Name)}
            if names & tnames:
                good = True
    if good:
        rep.ok('SS3', fn, stores[0], 'constant term is the secret; the share for evaluation point x is stored in row x-1')
    else:
        rep.bad('SS3', fn, pl, 'after the Horner loop the secret is not added as constant term / the share is not stored in row x-1')
    # numpy variant
    nf = model.func('thresha::np_random_split')
    pmn = parents(nf.node)
    nps = nf.params
    nfield, nsp, ntp, nmp = nps[:4]
    fi = calls_named(nf.node, 'fromiter')
    okn = False

    def xn(e, use):
        return cnorm(routes.xp(nf, e, use, pmn))
    want_cnt = {cnorm(ast.parse(f'{ntp} * len({nsp})', mode='eval').body)}
    if len(fi) == 1:
        gen = fi[0].args[0] if fi[0].args else None
        if isinstance(gen, ast.GeneratorExp) and isinstance(gen.elt, ast.Call) and len(gen.generators) == 1 and not gen.generators[0].ifs:
            callee = routes.xp(nf, gen.elt.func, fi[0], pmn)
            bound = routes.xp(nf, gen.elt.args[0], fi[0], pmn) if gen.elt.args else None
            it = gen.generators[0].iter
            cnt = [k.value for k in fi[0].keywords if k.arg == 'count']
            if isinstance(it, ast.Call) and attr_tail(it.func) == 'range' and len(it.args) == 1:
                if norm(callee) == 'secrets.randbelow' and bound is not None and norm(bound) == f'{nfield}.order' and xn(it.args[0], fi[0]) in want_cnt \
                        and cnt and xn(cnt[0], fi[0]) == xn(it.args[0], fi[0]):
                    okn = True
    if okn:
        rep.ok('SS3', nf, fi[0], f'{ntp}*n CSPRNG coefficients uniform on the field')
    else:
        rep.bad('SS3', nf, fi[0] if fi else nf.qualname, 'array variant does not draw exactly t*n coefficients with secrets.randbelow(field.order)', nf.node)
    # reshape (t, n); vander N=t+1 increasing over points 1..m; secret row first
    rs = [c for c in calls_named(nf.node, 'reshape') if len(c.args) == 2 and norm(c.args[0]) == ntp]
    vd = calls_named(nf.node, 'vander')
    cc = calls_named(nf.node, 'concatenate')
    okv = False
    if len(vd) == 1:
        kw = {k.arg: k.value for k in vd[0].keywords}
        Nl = to_lin(routes.xp(nf, kw['N'], vd[0], pmn), opaque=False) if 'N' in kw else None
        inc = kw.get('increasing')
        base = routes.xp(nf, vd[0].args[0], vd[0], pmn)
        elts = [c for c in ast.walk(base) if isinstance(c, ast.ListComp)]
        pts_ok = coerced = False
        if len(elts) == 1 and len(elts[0].generators) == 1 and not elts[0].generators[0].ifs and isinstance(elts[0].elt, ast.Call) and len(elts[0].elt.args) == 1:
            g = elts[0].generators[0]
            rb = _range_bounds(g.iter)
            al = to_lin(elts[0].elt.args[0], opaque=False)
            iv = norm(g.target)
            if rb and al is not None and al.coef(iv) == 1:
                lo, hi = _subst(al, iv, rb[0]), _subst(al, iv, rb[1])
                pts_ok = lo == Lin(1) and hi == Lin.sym(nmp)
            # evaluation points must be of the modulus' type (int or polynomial), as in the list variant where
            # `(y + c) * i1` is carried out in the modulus' arithmetic
            tpv = routes.xp(nf, elts[0].elt.func, vd[0], pmn)
            coerced = isinstance(tpv, ast.Call) and attr_tail(tpv.func) == 'type' and len(tpv.args) == 1 and norm(routes.xp(nf, tpv.args[0], vd[0], pmn)) == f'{nfield}.modulus'
        okv = Nl is not None and Nl == Lin.sym(ntp) + 1 and isinstance(inc, ast.Constant) and inc.value is True and pts_ok and coerced
    if okv:
        rep.ok('SS3', nf, vd[0], 'Vandermonde matrix of points 1..m (in the modulus\' arithmetic) with powers 0..t (increasing)')
    else:
        rep.bad('SS3', nf, vd[0] if vd else nf.qualname, 'Vandermonde matrix is not "points type(modulus)(1..m), N=t+1, increasing": wrong degree, point set, '
                'or powers computed over the integers instead of in the field\'s modulus arithmetic', nf.node)
    okc = False
    if len(cc) == 1 and cc[0].args and isinstance(cc[0].args[0], ast.Tuple) and len(cc[0].args[0].elts) == 2:
        first, second = cc[0].args[0].elts
        cn = None
        st = astq.enclosing_stmt(fi[0], parents(nf.node)) if fi else None
        if isinstance(st, ast.Assign):
            cn = norm(st.targets[0])
        # the second block is the drawn coefficients shaped (t, n): followed from the concatenate operand back to the draw, through
        # names and .reshape(t, ..) wherever it is applied
        e_, reshaped, found = second, False, False
        for _ in range(8):
            if isinstance(e_, ast.Call) and attr_tail(e_.func) == 'reshape' and isinstance(e_.func, ast.Attribute):
                if len(e_.args) == 2 and norm(e_.args[0]) == ntp:
                    reshaped = True
                e_ = e_.func.value
            elif isinstance(e_, ast.Name):
                ds_ = [d for d in astq.reaching_definitions(nf.node, e_.id, cc[0], pmn) if d[2] == 'assign' and d[1] is not None]
                if len(ds_) != 1:
                    break
                e_ = ds_[0][1]
            elif fi and e_ is fi[0]:
                found = True
                break
            else:
                break
        okc = mentions_name(first, nsp) and found and reshaped
    if okc:
        rep.ok('SS3', nf, cc[0], 'secret row first (power 0), then the (t, n) coefficient rows')
    else:
        rep.bad('SS3', nf, cc[0] if cc else nf.qualname, 'the coefficient matrix is not [secrets; (t, n) random rows]: the constant term is not the secret', nf.node)


# ---------------------------------------------------------------------------------- SS4
def _plus_one_party(e):
    """e == P + 1 -> P (expr) else None."""
    if isinstance(e, ast.BinOp) and isinstance(e.op, ast.Add):
        if const_int(e.right) == 1:
            return e.left
        if const_int(e.left) == 1:
            return e.right
    return None


def _f_S_points(fs):
    """None when the interpolation points of thresha._f_S_i are exactly (0, [1]) and (j+1, [0]) for the parties j in 0..m-1 outside S,
    evaluated at i+1; otherwise what is different.  Decided on the elements flowing into the point list (display, comprehension,
    concatenation, append loop alike), their binders and their path conditions."""
    from . import routes, cond, rules_rt
    pm = parents(fs.node)
    mpar, ipar, Spar = fs.params[1], fs.params[2], fs.params[3]
    rc = calls_named(fs.node, 'recombine')
    if len(rc) != 1 or len(rc[0].args) < 3:
        return 'no single call recombine(field, points, x)'
    xr = to_lin(_xp_arith(fs, rc[0].args[2], rc[0], pm), opaque=False)
    if xr is None or xr != Lin.sym(ipar) + 1:
        return f'evaluated at {norm(rc[0].args[2])}'
    elts, complete = rules_rt.list_elements(fs, rc[0].args[1], rc[0], pm)
    if not complete or not elts:
        return 'the point list is not understood'
    fixed = party = 0
    for e in elts:
        if not (isinstance(e, ast.Tuple) and len(e.elts) == 2):
            return f'point {norm(e)} is not a pair'
        binders, _g = routes._context(fs, e, pm)
        f = cond.context(fs, e, pm)
        x = to_lin(_xp_arith(fs, e.elts[0], e, pm), opaque=False)
        val = norm(routes.xp(fs, e.elts[1], e, pm))
        if not binders:
            if x == Lin(0) and val == "[1]" and cond.equivalent(f, cond.TRUE):
                fixed += 1
                continue
            return f'fixed point {norm(e)}'
        if len(binders) != 1 or binders[0].kind != 'range' or x is None:
            return f'point {norm(e)} is not enumerated over the parties'
        b = binders[0]
        k = x - Lin.sym(b.var)
        if not k.is_const() or b.lo + k != Lin(1) or b.hi + k != Lin.sym(mpar) or val != '[0]':
            return f'zero points {norm(e)} for {b}'
        # the filter: exactly the parties outside S, party = x - 1
        ok = False
        if f[0] == 'not' and f[1][0] == 'atom':
            try:
                a = ast.parse(f[1][1], mode='eval').body
            except SyntaxError:
                a = None
            if isinstance(a, ast.Compare) and len(a.ops) == 1 and isinstance(a.ops[0], ast.In) and norm(a.comparators[0]) == Spar:
                l = to_lin(a.left, opaque=False)
                ok = l is not None and l == x - 1
        if not ok:
            return f'zero points are taken where {cond.fmt(f)}'
        party += 1
    if fixed != 1 or party != 1:
        return f'{fixed} fixed and {party} enumerated point sources'
    return None


def rule_SS4(ctx, rep, scope=None):
    """x-coordinate convention: party i <-> evaluation point i+1, everywhere."""
    model = ctx.model
    n = 0
    # (a) runtime: every tuple flowing into recombine/np_recombine (decided on the routing summaries)
    from . import rules_rt
    n += rules_rt.rule_SS4_points(ctx, rep)
    # (b) thresha conventions
    fs = model.func('thresha::_f_S_i')
    n += 1
    why = _f_S_points(fs)
    if why is None:
        rep.ok('SS4', fs, 'points of f_S', 'f_S is 1 at 0, 0 at x = j+1 for parties j outside S, evaluated at x = i+1 for party i', fs.node)
    else:
        rep.bad('SS4', fs, fs.qualname, f'f_S is not built from the points (0,1) and (j+1,0) for j outside S and evaluated at i+1 ({why}): pseudorandom shares '
                'of different parties do not lie on one polynomial', fs.node)
    for q in ('pseudorandom_share_zero', 'np_pseudorandom_share_0'):
        fz = model.func('thresha::' + q)
        ip = fz.params[2]
        hits = [e for e in ast.walk(fz.node) if _plus_one_party(e) is not None and norm(_plus_one_party(e)) == ip]
        n += 1
        if hits:
            rep.ok('SS4', fz, hits[0], 'zero-sharing polynomial evaluated at x = i+1 for party i')
        else:
            rep.bad('SS4', fz, fz.qualname, 'zero-sharing polynomial is not evaluated at x = i+1 for party i', fz.node)
    # (c) secgroups: recombination vector over points 1..m at 0, indexed by own pid
    for q in ('repeat_public_base_secret_output', 'repeat_public_base_public_output'):
        fg = model.func('secgroups::' + q, required=False)
        if fg is None:
            raise AnalysisError(f'SS4: anchor secgroups::{q} vanished')
        rv = calls_named(fg.node, '_recombination_vector')
        n += 1
        if len(rv) != 1:
            rep.bad('SS4', fg, fg.qualname, 'recombination vector call not found', fg.node)
            continue
        c = rv[0]
        from . import routes
        pmg = parents(fg.node)
        from . import sem
        rb = _range_bounds(sem.symx(routes.xp(fg, c.args[1], c, pmg)), {}) if len(c.args) > 1 else None
        mv = None
        for s_ in iter_nodes(fg.node):
            if isinstance(s_, ast.Assign) and isinstance(s_.value, ast.Call) and attr_tail(s_.value.func) == 'len' and mentions_attr(s_.value, 'parties'):
                mv = s_.targets[0].id
        # the entry of the vector that is used: <vector>[pid], directly or through a temporary holding the vector
        idx_ok = False
        for sub in iter_nodes(fg.node):
            if isinstance(sub, ast.Subscript) and norm(sub.slice) in ('runtime.pid', 'self.pid'):
                v = sub.value
                if v is c or (isinstance(v, ast.Name) and routes.xp(fg, v, sub, pmg) is not None and norm(routes.xp(fg, v, sub, pmg)) == norm(routes.xp(fg, c, c, pmg))):
                    idx_ok = True
        if rb and rb[0] == Lin(1) and rb[1] == Lin.sym('M') and const_int(c.args[2]) == 0 and idx_ok:
            rep.ok('SS4', fg, c, 'Lagrange coefficients for points 1..m at 0; this party takes entry [pid] (its point pid+1)')
        else:
            rep.bad('SS4', fg, c, 'the Lagrange coefficient used for the local share is not the one of point pid+1 among 1..m at 0: the parties\' '
                    'contributions do not combine to a^x')
    # (d) dealing rows: row index == receiving party (decided on the routing summaries)
    n += rules_rt.rule_SS4_rows(ctx, rep)
    if n < 9:
        raise AnalysisError(f'SS4: only {n} convention sites analysed (expected >= 9)')


# ---------------------------------------------------------------------------------- SS5
def rule_SS5(ctx, rep):
    """dealt payload provenance: dealing coroutines send nothing but (marshalled) rows of a fresh split -- decided on the routing
    summaries: the payload of every send derives only from the row that is enumerated together with the destination."""
    from . import rules_rt, routes
    n = 0
    for q in ('_distribute', '_reshare'):
        fn, evs, cases = rules_rt._summary(ctx, q)
        pm = parents(fn.node)
        for e in evs:
            if e.kind != 'send':
                continue
            n += 1
            b = routes._find_binder(e, e.peer_raw.id) if isinstance(e.peer_raw, ast.Name) else None
            if b is None or b.kind != 'enum' or not routes._resolves_to_split(ctx, fn, b.src, b.node, pm) or e.payload is None:
                rep.bad('SS5', fn, e.node, f'payload {norm(e.payload) if e.payload is not None else "?"} is not sent inside the enumeration of a fresh random split')
                continue
            if rules_rt._derives_only_from(fn, e.payload, e.node, pm, b.elem):
                rep.ok('SS5', fn, e.node, 'payload is a (marshalled) row of the fresh random split')
            else:
                rep.bad('SS5', fn, e.node, f'payload {norm(e.payload)} does not derive (only) from the output of random_split: a secret or a share of it may be sent in the clear')
    if n < 2:
        raise AnalysisError('SS5: dealing sends not found')


# ---------------------------------------------------------------------------------- SS6
def _arc_role(v, graph='sender_receivers'):
    """Which set of parties does expression v select from the arc set `graph` (arcs (a, b): a sends to b; as a dict: sender ->
    receivers)?  'S' = the parties that send to me, 'R' = the parties I send to, None = not an expression over the arc set."""
    while isinstance(v, ast.Call) and isinstance(v.func, ast.Name) and v.func.id in ('list', 'tuple', 'sorted', 'set') and len(v.args) == 1:
        v = v.args[0]
    me = 'self.pid'
    if isinstance(v, ast.Subscript) and norm(v.value) == graph:
        return 'R' if norm(v.slice) == me else '?'
    if isinstance(v, ast.Call) and isinstance(v.func, ast.Attribute) and v.func.attr == 'get' and norm(v.func.value) == graph and v.args:
        return 'R' if norm(v.args[0]) == me else '?'
    if isinstance(v, (ast.ListComp, ast.GeneratorExp, ast.SetComp)) and len(v.generators) == 1:
        g = v.generators[0]
        it = norm(g.iter)
        if it not in (graph, graph + '.items()'):
            return None
        if not (isinstance(g.target, ast.Tuple) and len(g.target.elts) == 2 and all(isinstance(e, ast.Name) for e in g.target.elts)
                and isinstance(v.elt, ast.Name) and len(g.ifs) == 1 and isinstance(g.ifs[0], ast.Compare) and len(g.ifs[0].ops) == 1):
            return '?'
        x, y = (e.id for e in g.target.elts)
        t = g.ifs[0]
        l, r, op = norm(t.left), norm(t.comparators[0]), t.ops[0]
        if it == graph:                 # list of arcs
            if isinstance(op, ast.Eq) and {l, r} == {y, me} and v.elt.id == x:
                return 'S'
            if isinstance(op, ast.Eq) and {l, r} == {x, me} and v.elt.id == y:
                return 'R'
            return '?'
        # dict sender -> receivers
        if isinstance(op, ast.In) and l == me and r == y and v.elt.id == x:
            return 'S'
        return '?'
    return None


def _graph_roles(rep, rule, fn, ms, mr):
    """Graph form of transfer: my_senders must select the parties with an arc to me, my_receivers the parties I have an arc to,
    in the list-of-arcs and in the dict representation alike."""
    n = 0
    for name, want, defs in (('my_senders', 'S', ms), ('my_receivers', 'R', mr)):
        for v in defs:
            role = _arc_role(v)
            if role is None:
                continue
            n += 1
            if role == want:
                rep.ok(rule, fn, v, f'{name}: arcs (a, b) mean a sends to b; this selects the parties that ' + ('send to me' if want == 'S' else 'I send to'))
            elif role == '?':
                rep.skip(rule, fn, v, f'{name}: expression over the arc set not in a recognised shape')
            else:
                rep.bad(rule, fn, v, f'{name} is computed from the arc set with the roles of sender and receiver exchanged: every arc a->b is used as b->a, '
                        'so messages go to parties that are not the designated receivers')
    if n < 4:
        rep.skip(rule, fn, 'my_senders / my_receivers (graph form)', f'only {n} of the 4 graph-form definitions found', fn.node)



def rule_SS6(ctx, rep):
    """routing duality, decided on the relational routing summaries (rules_rt.py)."""
    from . import rules_rt
    rules_rt.rule_SS6(ctx, rep)


def rule_SO1(ctx, rep):
    """sender order of result slots, decided on the routing summaries (rules_rt.py)."""
    from . import rules_rt
    rules_rt.rule_SO1(ctx, rep)


# ---------------------------------------------------------------------------------- SS7
def _row_aliasing(ctx, rep, rule, modules=('thresha',)):
    """Two-level accumulators (`sums[r][h] += ..`, `shares[i][h] = ..`) must have distinct row objects: a table built by
    replicating one row (`[row] * k`) makes every row the same list, so all rows end up with the sum over all of them."""
    model = ctx.model
    n = 0
    for k, fn in sorted(model.funcs.items()):
        if k.split('::')[0] not in modules:
            continue
        two_level = set()
        for s in iter_nodes(fn.node):
            tg = s.targets[0] if isinstance(s, ast.Assign) and len(s.targets) == 1 else (s.target if isinstance(s, ast.AugAssign) else None)
            if isinstance(tg, ast.Subscript) and isinstance(tg.value, ast.Subscript) and isinstance(tg.value.value, ast.Name):
                two_level.add(tg.value.value.id)
        for name in sorted(two_level):
            for st, v, how in definitions(fn.node, name):
                if v is None or how != 'assign':
                    continue
                n += 1
                if isinstance(v, ast.BinOp) and isinstance(v.op, ast.Mult):
                    lst = v.left if isinstance(v.left, ast.List) else (v.right if isinstance(v.right, ast.List) else None)
                    if lst is not None and lst.elts and not isinstance(lst.elts[0], ast.Constant):
                        rep.bad(rule, fn, st, f'the rows of {name} are one and the same list object ({norm(v)}): an update of {name}[r][h] changes every row, so for '
                                'more than one row each row accumulates the contributions of all rows')
                        continue
                rep.ok(rule, fn, st, f'rows of the two-level table {name} are distinct objects')
    return n


def rules_rt_elements(fn, e, use, pm):
    from . import rules_rt
    return rules_rt.list_elements(fn, e, use, pm)


def rule_SS7(ctx, rep):
    """Lagrange recombination vector: numerator and denominator factors are oriented alike, taken over
    all j != i; list and array recombination use the same vector with the same default point."""
    model = ctx.model
    _row_aliasing(ctx, rep, 'SS7')
    fn = model.func('thresha::_recombination_vector')
    pm = parents(fn.node)
    fieldp, xsp, xrp = fn.params[:3]
    from . import routes, cond
    upd = [s for s in iter_nodes(fn.node) if isinstance(s, ast.AugAssign) and isinstance(s.op, ast.Mult) and isinstance(s.target, ast.Name)]
    if len(upd) != 2:
        raise AnalysisError('SS7: numerator/denominator updates of _recombination_vector not found')
    ctxs = [routes._context(fn, u, pm)[0] for u in upd]
    if any(len(bs) != 2 or any(b.kind != 'enum' or b.start != 0 for b in bs) for bs in ctxs) or ctxs[0][0].node is not ctxs[1][0].node \
            or ctxs[0][1].node is not ctxs[1][1].node:
        rep.bad('SS7', fn, upd[0], 'the Lagrange products are not accumulated in a double enumeration (i, x_i), (j, x_j) of the x-coordinates')
        return
    ob, ib = ctxs[0]
    ol, il = ob.node, ib.node
    if cnorm(routes.xp(fn, ob.src, ol, pm)) != cnorm(routes.xp(fn, ib.src, il, pm)):
        rep.bad('SS7', fn, il, 'inner and outer loop do not range over the same x-coordinates')
        return
    # the coordinates are the field values of the given points
    elts, complete = rules_rt_elements(fn, ob.src, ol, pm)
    srcs = []
    for e in elts:
        bs, _g = routes._context(fn, e, pm)
        sb = [b for b in bs if b.kind in ('iter', 'enum')]
        if norm(routes.xp(fn, e, e, pm)) in tuple(f'{fieldp}({b.elem}).value' for b in sb) and len(bs) == 1 and norm(sb[0].src) == xsp \
                and cond.equivalent(cond.context(fn, e, pm), cond.TRUE):
            srcs.append(e)
    if complete and len(elts) == 1 and len(srcs) == 1:
        rep.ok('SS7', fn, srcs[0], 'the coordinates are the field values of all given x-coordinates, in their order')
    else:
        rep.bad('SS7', fn, ol, f'the enumerated coordinates are not [{fieldp}(x).value for x in {xsp}]: a point is dropped, repeated or not reduced into the field')
    oi, ox, ii, ix = ob.pos, ob.elem, ib.pos, ib.elem
    gs = [cond.context(fn, u, pm, stop=ol) for u in upd]
    want = {f'{oi} == {ii}', f'{ii} == {oi}'}
    if all(g[0] == 'not' and g[1][0] == 'atom' and g[1][1] in want for g in gs):
        rep.ok('SS7', fn, upd[0], 'product over all j != i')
    else:
        rep.bad('SS7', fn, il, f'the Lagrange products are not taken over exactly the j != i (conditions: {sorted(cond.fmt(g) for g in gs)})')
    # which is numerator / denominator: by the division at the end
    divs = [d for d in ast.walk(ol) if isinstance(d, ast.BinOp) and isinstance(d.op, ast.Div)]
    if len(divs) != 1:
        raise AnalysisError('SS7: final division not found')
    num, den = norm(routes.xp(fn, divs[0].left, divs[0], pm)), norm(routes.xp(fn, divs[0].right, divs[0], pm))
    fac = {norm(u.target): u.value for u in upd}
    if set(fac) != {num, den} or any(x is divs[0] for x in ast.walk(il)):
        rep.bad('SS7', fn, divs[0], 'the quotient is not numerator product / denominator product, taken once per i after the products are complete')
        return
    fn_, fd_ = fac[num], fac[den]

    def orient(e, a, use):
        """+1 if e == a - x_j, -1 if e == x_j - a, else 0."""
        e = _xp_arith(fn, e, use, pm)
        if isinstance(e, ast.BinOp) and isinstance(e.op, ast.Sub):
            if norm(e.left) == a and norm(e.right) == ix:
                return 1
            if norm(e.left) == ix and norm(e.right) == a:
                return -1
        return 0
    on, od = orient(fn_, xrp, upd[0]), orient(fd_, ox, upd[1])
    if num != norm(upd[0].target):
        on, od = orient(fn_, xrp, upd[1]), orient(fd_, ox, upd[0])
    if on != 0 and on == od:
        rep.ok('SS7', fn, divs[0], 'basis polynomial prod_j (x_r - x_j)/(x_i - x_j) (both factors oriented alike)')
    else:
        rep.bad('SS7', fn, upd[1], f'numerator factor `{norm(fn_)}` and denominator factor `{norm(fd_)}` are not of the form (x_r - x_j) and (x_i - x_j) '
                'with the same orientation: for an even number of points every Lagrange coefficient changes sign')
    # start values 1 for every i: (re)defined in the outer loop, outside the inner one
    inits = [st for nm in (num, den) for st, v, how in definitions(fn.node, nm) if how == 'assign' and any(x is st for x in ast.walk(ol))
             and not any(x is st for x in ast.walk(il)) and astq.position(st) < astq.position(il)
             and isinstance(v, ast.Call) and norm(v.func) == fieldp and len(v.args) == 1 and const_int(v.args[0]) == 1]
    if len(inits) == 2:
        rep.ok('SS7', fn, inits[0], 'products start at 1 for every i')
    else:
        rep.bad('SS7', fn, ol, 'numerator/denominator products are not re-initialised to 1 for every i')
    # siblings
    rl, ra = model.func('thresha::recombine'), model.func('thresha::np_recombine')
    cl, ca = calls_named(rl.node, '_recombination_vector'), calls_named(ra.node, '_recombination_vector')
    def vec_call(f, c):
        """(field argument, coordinates argument, what the recombination point ranges over) of the vector call, names resolved"""
        bs, _g = routes._context(f, c, parents(f.node))
        a2 = c.args[2] if len(c.args) > 2 else None
        over = None
        if isinstance(a2, ast.Name):
            for b_ in bs:
                if b_.kind in ('iter', 'enum') and b_.elem == a2.id and b_.src is not None:
                    over = norm(b_.src)
        return (norm(c.args[0]), norm(c.args[1]), over) if len(c.args) > 2 else None
    if len(cl) == 1 and len(ca) == 1 and vec_call(rl, cl[0]) is not None and vec_call(rl, cl[0]) == vec_call(ra, ca[0]) \
            and vec_call(rl, cl[0])[2] == rl.params[2]:
        rep.ok('SS7', ra, ca[0], 'list and array recombination use the same recombination vector call')
    else:
        rep.bad('SS7', ra, ca[0] if ca else ra.qualname, 'list and array recombination compute their Lagrange vectors differently', ra.node)
    dl = [norm(d) for d in rl.node.args.defaults]
    da = [norm(d) for d in ra.node.args.defaults]
    if dl == da == ['0']:
        rep.ok('SS7', ra, 'x_rs=0', 'both variants recombine at 0 by default', ra.node)
    else:
        rep.bad('SS7', ra, 'x_rs default', f'default recombination points differ / are not 0: {dl} vs {da}', ra.node)
    for f in (rl, ra):
        z = [s for s in iter_nodes(f.node) if isinstance(s, ast.Assign) and isinstance(s.value, ast.Call) and 'zip(*' in norm(s.value) and f.params[1] in norm(s.value)]
        if z and isinstance(z[0].targets[0], ast.Tuple) and len(z[0].targets[0].elts) == 2:
            xs_name = norm(z[0].targets[0].elts[0])
            c = calls_named(f.node, '_recombination_vector')[0]
            if norm(c.args[1]) == xs_name:
                rep.ok('SS7', f, z[0], 'x-coordinates and shares are split from the same point list, in the same order')
                continue
        rep.bad('SS7', f, f.qualname, 'x-coordinates handed to the recombination vector are not the first components of the points', f.node)
    # list variant: share i multiplied by vector[r][i]
    acc = [s for s in iter_nodes(rl.node) if isinstance(s, ast.AugAssign) and isinstance(s.op, ast.Add) and isinstance(s.value, ast.BinOp) and isinstance(s.value.op, ast.Mult)]
    pml = parents(rl.node)
    good = False
    if len(acc) == 1:
        loops = [l for l in enclosing_loops(acc[0], pml, stop=rl.node) if isinstance(l, ast.For)]
        sh = [l for l in loops if isinstance(l.iter, ast.Call) and attr_tail(l.iter.func) == 'enumerate']
        if sh:
            iv = norm(sh[0].target.elts[0])
            vec = [x for x in (acc[0].value.left, acc[0].value.right) if isinstance(x, ast.Subscript)]
            good = any(norm(v.slice) == iv for v in vec)
    if good:
        rep.ok('SS7', rl, acc[0], 'share i is weighted with coefficient i of the vector')
    else:
        rep.bad('SS7', rl, rl.qualname, 'shares are not weighted with the Lagrange coefficient of their own position', rl.node)


# ---------------------------------------------------------------------------------- PR1
def _xp_arith(fn, e, use, pm, depth=0):
    """e with temporaries expanded whose (single reaching) definition is pure integer arithmetic over names (`offset = h * d`);
    names defined through calls or attributes (`d = m - len(S)`) stay symbolic."""
    import copy

    class X(ast.NodeTransformer):
        def visit_Name(self, n):
            if not isinstance(n.ctx, ast.Load) or depth > 4:
                return n
            ds = reaching_definitions(fn.node, n.id, use, pm)
            if len(ds) == 1 and ds[0][2] == 'assign' and ds[0][1] is not None:
                v = ds[0][1]
                if all(isinstance(x, (ast.BinOp, ast.Name, ast.Constant, ast.operator, ast.expr_context, ast.UnaryOp, ast.unaryop)) for x in ast.walk(v)) \
                        and not any(isinstance(x, ast.Name) and x.id == n.id for x in ast.walk(v)) and not isinstance(v, (ast.Name, ast.Constant)):
                    return _xp_arith(fn, v, ds[0][0], pm, depth + 1)
            return n
    return X().visit(copy.deepcopy(e))


def rule_PR1(ctx, rep):
    """PRSS structure: every subset PRF contributes prf_S(uci) * f_S(i); zero-sharings use d = m - |S| = t
    fresh values per secret as coefficients of x^1..x^d; list and array variants agree."""
    model = ctx.model
    f1, f1n = model.func('thresha::pseudorandom_share'), model.func('thresha::np_pseudorandom_share')
    f0, f0n = model.func('thresha::pseudorandom_share_zero'), model.func('thresha::np_pseudorandom_share_0')
    for f in (f1, f1n, f0, f0n):
        fieldp, mp, ip, prfsp, ucip, np_ = f.params[:6]
        # the enumeration of the held subsets with their PRFs: `for S, prf in prfs.items()`, or `for S in prfs` / `prfs.keys()` with prfs[S]
        from . import routes
        pmf = parents(f.node)
        its = []
        for x in iter_nodes(f.node):
            if isinstance(x, (ast.For, ast.comprehension)):
                b = routes.binder_of(f, x.target, x.iter, x, pmf, x)
                if b is not None and b.kind == 'iter' and b.src is not None and norm(b.src) in (prfsp, f'{prfsp}.keys()') and b.elem:
                    its.append((x, b))
        if len(its) != 1 or (isinstance(its[0][0], ast.comprehension) and its[0][0].ifs):
            rep.bad('PR1', f, f.qualname, 'the share is not a sum over all held subset PRFs', f.node)
            continue
        Sv, pv = its[0][1].elem, its[0][1].value_var
        fs = calls_named(f.node, '_f_S_i')
        if len(fs) == 1 and [norm(a) for a in fs[0].args] == [fieldp, mp, ip, Sv]:
            rep.ok('PR1', f, fs[0], 'each PRF output is weighted with f_S evaluated for this party and this subset')
        else:
            rep.bad('PR1', f, fs[0] if fs else f.qualname, 'f_S is not evaluated with (field, m, i, S) of the subset being summed', f.node)
        pc = [c for c in iter_nodes(f.node) if isinstance(c, ast.Call) and ((pv is not None and norm(c.func) == pv) or norm(c.func) == f'{prfsp}[{Sv}]')]
        if len(pc) != 1 or norm(pc[0].args[0]) != ucip:
            rep.bad('PR1', f, pc[0] if pc else f.qualname, 'the subset PRF is not evaluated on the common input', f.node)
            continue
        cnt = pc[0].args[1]
        if f in (f1, f1n):
            want = [np_] if f is f1 else [f'({np_},)']
            if norm(cnt) in want:
                rep.ok('PR1', f, pc[0], 'n pseudorandom values per subset')
            else:
                rep.bad('PR1', f, pc[0], f'{norm(cnt)} values drawn per subset instead of n')
        else:
            dv = [s for s in iter_nodes(f.node) if isinstance(s, ast.Assign) and norm(s.targets[0]) == 'd']
            okd = False
            if len(dv) == 1 and isinstance(dv[0].value, ast.BinOp) and isinstance(dv[0].value.op, ast.Sub) and norm(dv[0].value.left) == mp:
                r = dv[0].value.right
                if isinstance(r, ast.Call) and attr_tail(r.func) == 'len':
                    a = norm(r.args[0])
                    okd = a == Sv or ('keys()' in a and prfsp in a)
            if okd:
                rep.ok('PR1', f, dv[0], 'd = m - |S| = t random coefficients per zero-sharing')
            else:
                rep.bad('PR1', f, dv[0] if dv else f.qualname, 'the number of random coefficients of a zero-sharing is not d = m - |S| (= t): the sharing has a wrong degree '
                        '(openings with threshold 2t then recombine garbage) or is not re-randomised', f.node)
            wantc = [f'{np_} * d', f'd * {np_}'] if f is f0 else [f'({np_}, d)']
            if norm(cnt) in wantc:
                rep.ok('PR1', f, pc[0], 'n*d pseudorandom values per subset')
            else:
                rep.bad('PR1', f, pc[0], f'{norm(cnt)} values drawn per subset instead of n*d')
    # list zero variant: Horner over range(d) with stride d
    pm = parents(f0.node)
    hl = [l for l in iter_nodes(f0.node) if isinstance(l, ast.For) and isinstance(l.iter, ast.Call) and isinstance(l.iter.func, ast.Name) and l.iter.func.id == 'range'
          and norm(l.iter) != f'range({f0.params[5]})']
    hl = [l for l in hl if any(isinstance(s, ast.Assign) and isinstance(s.value, ast.BinOp) and isinstance(s.value.op, ast.Mult) for s in l.body)]
    good = False
    if len(hl) == 1:
        it = hl[0].iter
        rb = None
        if isinstance(it, ast.Call) and len(it.args) in (1, 2):
            from . import routes
            los = to_lin(_xp_arith(f0, it.args[0], hl[0], pm), opaque=True) if len(it.args) == 2 else Lin(0)
            his = to_lin(_xp_arith(f0, it.args[-1], hl[0], pm), opaque=True)
            if los is not None and his is not None:
                rb = (los, his - 1)
        jv = norm(hl[0].target)
        st = hl[0].body[0]
        # window form `for k in range(h*d, (h+1)*d): .. prl[k] ..`: d consecutive indices starting at h*d (as polynomials)
        from .linform import to_poly, poly_sub
        if isinstance(it, ast.Call) and len(it.args) == 2 and len(hl[0].body) == 1 and isinstance(st, ast.Assign) and isinstance(st.value, ast.BinOp):
            plo, phi = to_poly(_xp_arith(f0, it.args[0], hl[0], pm)), to_poly(_xp_arith(f0, it.args[1], hl[0], pm))
            hloop_ = [l for l in enclosing_loops(hl[0], pm, stop=f0.node) if isinstance(l, ast.For)]
            i1_ = [s_ for s_ in iter_nodes(f0.node) if isinstance(s_, ast.Assign) and _plus_one_party(s_.value) is not None and norm(_plus_one_party(s_.value)) == f0.params[2]]
            a_, b_ = st.value.left, st.value.right
            idx_ = [x for x in ast.walk(a_) if isinstance(x, ast.Subscript)] if isinstance(a_, ast.BinOp) and isinstance(a_.op, ast.Add) else []
            if plo is not None and phi is not None and hloop_ and i1_ and idx_ and isinstance(hloop_[0].target, ast.Name):
                hv_ = hloop_[0].target.id
                if poly_sub(phi, plo) == {('d',): 1} and plo == {tuple(sorted(('d', hv_))): 1} and norm(idx_[0].slice) == jv and norm(b_) == norm(i1_[0].targets[0]):
                    good = True
        if not good and rb is not None and (rb[1] - rb[0]) == Lin.sym('d') - 1 and len(hl[0].body) == 1:
            v = st.value
            a, b = v.left, v.right
            i1 = [s for s in iter_nodes(f0.node) if isinstance(s, ast.Assign) and _plus_one_party(s.value) is not None and norm(_plus_one_party(s.value)) == f0.params[2]]
            if i1 and norm(b) == norm(i1[0].targets[0]) and isinstance(a, ast.BinOp) and isinstance(a.op, ast.Add):
                idx = [x for x in ast.walk(a) if isinstance(x, ast.Subscript)]
                hloop = [l for l in enclosing_loops(hl[0], pm, stop=f0.node) if isinstance(l, ast.For)]
                if idx and hloop:
                    hv = norm(hloop[0].target)
                    il = to_lin(_xp_arith(f0, idx[0].slice, st, pm), opaque=True)
                    if il is not None and il.coef(jv) == 1:
                        # the indices visited for secret h are exactly h*d .. h*d + d - 1
                        first = _subst(il, jv, rb[0])
                        if first in (Lin.sym(f'<{hv} * d>'), Lin.sym(f'<d * {hv}>')):
                            good = True
    if not good:
        # running-index form: one counter, 0 before the loop over the secrets, advanced by 1 in every Horner step, d steps per secret
        # (`stop = k + d; while k < stop: y = (y + prl[k]) * i1; k += 1`): by induction secret h uses prl[h*d .. h*d + d - 1]
        wl = [w for w in iter_nodes(f0.node) if isinstance(w, ast.While)]
        if len(wl) == 1 and len(wl[0].body) == 2 and isinstance(wl[0].test, ast.Compare) and len(wl[0].test.ops) == 1 and not wl[0].orelse:
            w = wl[0]
            t = w.test
            kname = bound = None
            if isinstance(t.ops[0], ast.Lt) and isinstance(t.left, ast.Name):
                kname, bound = t.left.id, t.comparators[0]
            elif isinstance(t.ops[0], ast.Gt) and isinstance(t.comparators[0], ast.Name):
                kname, bound = t.comparators[0].id, t.left
            step, inc = w.body
            hloop = [l for l in enclosing_loops(w, pm, stop=f0.node) if isinstance(l, ast.For)]
            i1 = [s_ for s_ in iter_nodes(f0.node) if isinstance(s_, ast.Assign) and _plus_one_party(s_.value) is not None and norm(_plus_one_party(s_.value)) == f0.params[2]]
            if kname and isinstance(inc, ast.AugAssign) and isinstance(inc.op, ast.Add) and norm(inc.target) == kname and const_int(inc.value) == 1 \
                    and isinstance(step, ast.Assign) and isinstance(step.value, ast.BinOp) and isinstance(step.value.op, ast.Mult) and len(hloop) == 2 and i1:
                a, b = step.value.left, step.value.right
                idx = [x for x in ast.walk(a) if isinstance(x, ast.Subscript)] if isinstance(a, ast.BinOp) and isinstance(a.op, ast.Add) else []
                kdefs = [d for d in definitions(f0.node, kname)]
                inits = [d for d in kdefs if d[2] == 'assign' and const_int(d[1]) == 0]
                others = [d for d in kdefs if d[0] is not inc and d not in inits]
                bl = to_lin(_xp_arith(f0, bound, w, pm), opaque=True)
                inner_h, outer_s = hloop[0], hloop[1]
                init_ok = len(inits) == 1 and not others and any(inits[0][0] is s_ for s_ in outer_s.body) and astq.position(inits[0][0]) < astq.position(inner_h)
                # the bound is the counter's value before the loop plus d, computed in the body of the loop over the secrets before the while
                bdef_ok = bl is not None and bl == Lin.sym(kname) + Lin.sym('d') and isinstance(bound, ast.Name) \
                    and all(d_[0] is not w and any(d_[0] is s_ for s_ in inner_h.body) and astq.position(d_[0]) < astq.position(w)
                            for d_ in definitions(f0.node, bound.id)) and len(definitions(f0.node, bound.id)) == 1
                hrange = _range_bounds(inner_h.iter)
                if idx and norm(idx[0].slice) == kname and norm(b) == norm(i1[0].targets[0]) and init_ok and bdef_ok \
                        and hrange and hrange[0] == Lin(0) and hrange[1] == Lin.sym(f0.params[5]) - 1 and any(w is s_ for s_ in inner_h.body):
                    good = True
                    hl = [w]
    if good:
        rep.ok('PR1', f0, hl[0], 'all d values of a secret are used, as coefficients of x^1..x^d (Horner with a final multiplication)')
    else:
        rep.bad('PR1', f0, hl[0] if hl else f0.qualname, 'the zero-sharing does not use all d drawn values as coefficients of x^1..x^d '
                '(loop not over range(d) / index not h*d + j): its degree is below 2t or values are reused', f0.node)
    # array zero variant: powers 1..d
    pw = [c for c in iter_nodes(f0n.node) if isinstance(c, ast.ListComp) and isinstance(c.elt, ast.BinOp) and isinstance(c.elt.op, ast.Pow)]
    good = False
    if len(pw) == 1:
        rb = _range_bounds(pw[0].generators[0].iter)
        base = pw[0].elt.left
        P = None
        for x in ast.walk(base):
            if _plus_one_party(x) is not None:
                P = _plus_one_party(x)
        good = rb and rb[0] == Lin(1) and rb[1] == Lin.sym('d') and norm(pw[0].elt.right) == norm(pw[0].generators[0].target) and P is not None and norm(P) == f0n.params[2]
        # the point is an element of the field's value domain (int or polynomial): powers and products then use the field's own
        # arithmetic -- for a binary / extension field an int base would multiply with carries instead of as a polynomial
        from . import routes
        pmn = parents(f0n.node)
        bx = routes.xp(f0n, base, pw[0], pmn)
        typed = isinstance(bx, ast.Call) and len(bx.args) == 1 and norm(bx.func) in (f'type({f0n.params[0]}.modulus)',)
        if good and not typed:
            good = False
            rep.bad('PR1', f0n, pw[0], f'the evaluation point {norm(base)} of the array zero-sharing is not converted to the field\'s value type type({f0n.params[0]}.modulus): '
                    'for binary and extension fields its powers are integer powers, not polynomial ones, so parties with x >= 3 leave the common polynomial')
            good = None
    if good is None:
        pass
    elif good:
        rep.ok('PR1', f0n, pw[0], 'array variant: powers (i+1)^1..(i+1)^d')
    else:
        rep.bad('PR1', f0n, pw[0] if pw else f0n.qualname, 'array variant does not use the powers (i+1)^1..(i+1)^d', f0n.node)


# ---------------------------------------------------------------------------------- MK6
def rule_MK6(ctx, rep):
    """transfer along a graph: messages follow the arcs in their direction -- the parties a message is sent to are the heads of
    the arcs leaving this party, and the parties received from are the tails of the arcs entering it, in both representations of the
    arc set (read off the routing summaries: the names and the spelling of the lists do not matter)."""
    from . import rules_rt
    fn, evs, cases = rules_rt._summary(ctx, 'transfer')
    n = 0
    for k in sorted(cases):
        for e in evs:
            at = cases[k][id(e)]
            arcs = [a for a in at if a[0] in ('Arc', 'Arc-reversed')]
            unk = [a for a in at if a[0] == 'Unknown' and 'sender_receivers' in a[1]]
            if not arcs and not unk:
                continue
            what = 'destinations' if e.kind == 'send' else 'sources'
            label = ' and '.join(f'{t}:{br}' for t, br in k)
            site = f'transfer ({arcs[0][2] if arcs else "graph"} form): {what} [{label}]'
            if unk:
                rep.skip('MK6', fn, site, 'expression over the arc set not in a recognised shape', e.node)
                continue
            n += 1
            if arcs[0][0] == 'Arc':
                rep.ok('MK6', fn, site, 'arcs (a, b) mean a sends to b; ' + ('messages go to the heads of the arcs leaving this party' if e.kind == 'send'
                                                                              else 'messages are awaited from the tails of the arcs entering this party'), e.node)
            else:
                rep.bad('MK6', fn, site, f'the {what} are computed from the arc set with the roles of sender and receiver exchanged: every arc a->b is used as b->a, '
                        'so messages go to parties that are not the designated receivers', e.node)
    if n < 4:
        rep.skip('MK6', fn, 'transfer (graph form)', f'only {n} of the 4 graph-form routing relations found', fn.node)
