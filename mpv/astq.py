"""Small AST query helpers shared by the rule modules."""
import ast

from .core import AnalysisError, iter_nodes, norm, unparse


def parents(root):
    """Map id(node) -> parent node, for all nodes below root (nested defs included)."""
    out = {}
    for n in ast.walk(root):
        for c in ast.iter_child_nodes(n):
            out[id(c)] = n
    return out


def ancestors(node, pmap):
    n = pmap.get(id(node))
    while n is not None:
        yield n
        n = pmap.get(id(n))


def enclosing_stmt(node, pmap):
    n = node
    while n is not None and not isinstance(n, ast.stmt):
        n = pmap.get(id(n))
    return n


def calls_named(root, name, skip_nested=True):
    """Calls whose callee's last component is `name` (x.name(...) or name(...))."""
    out = []
    for n in iter_nodes(root, skip_nested=skip_nested):
        if isinstance(n, ast.Call):
            f = n.func
            if (isinstance(f, ast.Attribute) and f.attr == name) or (isinstance(f, ast.Name) and f.id == name):
                out.append(n)
    return out


def attr_tail(e):
    if isinstance(e, ast.Attribute):
        return e.attr
    if isinstance(e, ast.Name):
        return e.id
    return None


def mentions(node, pred):
    return any(pred(n) for n in ast.walk(node))


def mentions_attr(node, attr):
    return mentions(node, lambda n: isinstance(n, ast.Attribute) and n.attr == attr)


def mentions_name(node, name):
    return mentions(node, lambda n: isinstance(n, ast.Name) and n.id == name)


def assigned_names(target):
    out = []
    for n in ast.walk(target):
        if isinstance(n, ast.Name):
            out.append(n.id)
    return out


def definitions(fn_node, name):
    """All statements (in fn, not nested defs) that bind `name`, with the bound value expression
    when it is a plain `name = value` / `for name in iter` / with-as / named expr."""
    defs = []
    for n in iter_nodes(fn_node):
        if isinstance(n, ast.Assign):
            for t in n.targets:
                if isinstance(t, ast.Name) and t.id == name:
                    defs.append((n, n.value, 'assign'))
                elif isinstance(t, (ast.Tuple, ast.List)):
                    for i, x in enumerate(t.elts):
                        if isinstance(x, ast.Name) and x.id == name:
                            v = n.value
                            if isinstance(v, (ast.Tuple, ast.List)) and len(v.elts) == len(t.elts):
                                defs.append((n, v.elts[i], 'assign'))
                            else:
                                defs.append((n, None, 'unpack'))
                        elif isinstance(x, ast.Starred) and isinstance(x.value, ast.Name) and x.value.id == name:
                            defs.append((n, None, 'unpack'))
        elif isinstance(n, ast.AugAssign):
            if isinstance(n.target, ast.Name) and n.target.id == name:
                defs.append((n, None, 'aug'))
        elif isinstance(n, ast.AnnAssign):
            if isinstance(n.target, ast.Name) and n.target.id == name and n.value is not None:
                defs.append((n, n.value, 'assign'))
        elif isinstance(n, (ast.For, ast.AsyncFor)):
            if name in assigned_names(n.target):
                defs.append((n, None, 'for'))
        elif isinstance(n, ast.NamedExpr):
            if isinstance(n.target, ast.Name) and n.target.id == name:
                defs.append((n, n.value, 'assign'))
        elif isinstance(n, (ast.With, ast.AsyncWith)):
            for it in n.items:
                if it.optional_vars is not None and name in assigned_names(it.optional_vars):
                    defs.append((n, None, 'with'))
        elif isinstance(n, ast.comprehension):
            if name in assigned_names(n.target):
                defs.append((n, None, 'comp'))
        elif isinstance(n, ast.ExceptHandler):
            if n.name == name:
                defs.append((n, None, 'except'))
    return defs


def sole_definition(fn_node, name):
    """Value expression of the only plain definition of name, or None."""
    d = definitions(fn_node, name)
    if len(d) == 1 and d[0][2] == 'assign':
        return d[0][1]
    return None


def resolve_value(fn_node, e, depth=0):
    """Follow `name` through its sole definitions (copy propagation)."""
    while isinstance(e, ast.Name) and depth < 6:
        v = sole_definition(fn_node, e.id)
        if v is None:
            return e
        e = v
        depth += 1
    return e


def all_values(fn_node, name):
    """All plainly assigned value expressions of name (None entries for non-plain definitions)."""
    return [v for _, v, _ in definitions(fn_node, name)]


def is_param(fn_node, name):
    a = fn_node.args
    return any(x.arg == name for x in a.posonlyargs + a.args + a.kwonlyargs) or \
        (a.vararg and a.vararg.arg == name) or (a.kwarg and a.kwarg.arg == name)


def enclosing_loops(node, pmap, stop=None):
    out = []
    for a in ancestors(node, pmap):
        if a is stop:
            break
        if isinstance(a, (ast.For, ast.AsyncFor, ast.While)):
            out.append(a)
        elif isinstance(a, (ast.ListComp, ast.SetComp, ast.GeneratorExp, ast.DictComp)):
            out.append(a)
        if isinstance(a, (ast.FunctionDef, ast.AsyncFunctionDef, ast.Lambda)):
            break
    return out


def enclosing_ifs(node, pmap, stop=None):
    """(If node, branch) pairs enclosing node: branch is 'body' or 'orelse'."""
    out = []
    child = node
    for a in ancestors(node, pmap):
        if a is stop:
            break
        if isinstance(a, ast.If):
            if child is a.test or _contains(a.test, child):
                pass                      # part of the test itself: evaluated before either branch
            else:
                br = 'body' if any(child is s or _contains(s, child) for s in a.body) else 'orelse'
                out.append((a, br))
        if isinstance(a, (ast.FunctionDef, ast.AsyncFunctionDef, ast.Lambda)):
            break
        child = a
    return out


def _contains(root, node):
    return any(n is node for n in ast.walk(root))


def const_int(e):
    if isinstance(e, ast.Constant) and isinstance(e.value, int) and not isinstance(e.value, bool):
        return e.value
    if isinstance(e, ast.UnaryOp) and isinstance(e.op, ast.USub):
        v = const_int(e.operand)
        return -v if v is not None else None
    return None


def stmts_in_order(fn_node):
    return [n for n in iter_nodes(fn_node) if isinstance(n, ast.stmt) and n is not fn_node]


def position(node):
    """Program-order position: the source-order number given by core._number (robust to inlined helper bodies), else (line, column)."""
    p = getattr(node, '_pos', None)
    return p if p is not None else (getattr(node, 'lineno', 0), getattr(node, 'col_offset', 0))


def exclusive(a, b, pm, stop=None):
    """Are nodes a and b in different arms of one if statement (never both executed in one pass)?"""
    ia = {id(i): br for i, br in enclosing_ifs(a, pm, stop=stop)}
    for i, br in enclosing_ifs(b, pm, stop=stop):
        if id(i) in ia and ia[id(i)] != br:
            return True
    return False


def _blocks(node):
    for f in ('body', 'orelse', 'finalbody'):
        b = getattr(node, f, None)
        if isinstance(b, list):
            yield b
    for h in getattr(node, 'handlers', []) or []:
        yield h.body


def dominating_block_index(d, use, pm):
    """If statement d precedes (an enclosing statement of) use in one block, or d is the loop whose body contains use
    (for the loop-target binding), return the chain node of use in that block (else None)."""
    x = use
    while x is not None:
        p = pm.get(id(x))
        if p is None:
            return None
        if p is d and isinstance(d, (ast.For, ast.AsyncFor)) and any(x is s for s in d.body):
            return x
        if isinstance(x, ast.stmt):
            for b in _blocks(p):
                if any(x is s for s in b):
                    for s in b:
                        if s is x:
                            break
                        if s is d:
                            return x
        x = p
    return None


def _binds(stmt, name):
    """does the simple statement bind name (plain / tuple / chained assignment, with-as)"""
    if isinstance(stmt, ast.Assign):
        return any(name in assigned_names(t) for t in stmt.targets)
    if isinstance(stmt, ast.AnnAssign):
        return stmt.value is not None and name in assigned_names(stmt.target)
    if isinstance(stmt, (ast.With, ast.AsyncWith)):
        return any(it.optional_vars is not None and name in assigned_names(it.optional_vars) for it in stmt.items) or _seq_must_define(stmt.body, name)
    return False


def _seq_must_define(stmts, name):
    """every path that runs through the statement list to its end binds name (a path that leaves by return / raise / continue /
    break does not reach the end)"""
    for s in stmts:
        if isinstance(s, (ast.Return, ast.Raise, ast.Continue, ast.Break)):
            return True
        if _must_define(s, name):
            return True
    return False


def _must_define(stmt, name):
    if isinstance(stmt, ast.If):
        return bool(stmt.orelse) and _seq_must_define(stmt.body, name) and _seq_must_define(stmt.orelse, name)
    return _binds(stmt, name)


def _must_define_point(fn_node, name, use, pm):
    """the last *compound* statement before (an enclosing statement of) use, in a block enclosing use, that binds name on every path"""
    best = None
    x = use if isinstance(use, ast.stmt) else enclosing_stmt(use, pm)
    while x is not None and x is not fn_node:
        p = pm.get(id(x))
        if p is None:
            break
        for blk in _blocks(p):
            if any(x is s for s in blk):
                for s in blk:
                    if s is x:
                        break
                    if isinstance(s, ast.If) and _must_define(s, name) and (best is None or position(s) > position(best)):
                        best = s
        if isinstance(p, (ast.For, ast.AsyncFor, ast.While)):
            pass        # definitions later in the loop body can still reach around the back edge: they are positioned after `best` anyway
        x = p
    return best


def reaching_definitions(fn_node, name, use, pm):
    """Definitions of name that can reach the use: not in an exclusive if-arm, and either textually
    before the use or inside a loop that also contains the use.  A definition that dominates the use (an earlier
    statement of a block enclosing the use, or the target of the loop whose body contains it) kills every
    definition that precedes it, and -- when it lies in the innermost loop shared with a later definition -- the
    loop-carried ones as well."""
    out = []
    if isinstance(fn_node, (ast.FunctionDef, ast.AsyncFunctionDef)) and is_param(fn_node, name):
        out.append((fn_node, None, 'param'))         # the value passed by the caller
    for st, val, how in definitions(fn_node, name):
        if exclusive(st, use, pm, stop=fn_node):
            continue
        inside = isinstance(st, (ast.Assign, ast.AugAssign, ast.AnnAssign)) and st is not use and any(n is use for n in ast.walk(st))
        if position(st) < position(use) and not inside:
            out.append((st, val, how))
            continue
        # (a use inside the right-hand side of the defining statement itself is evaluated before the binding: only loop-carried)
        lu = {id(x) for x in enclosing_loops(use, pm, stop=fn_node)}
        ld = {id(x) for x in enclosing_loops(st, pm, stop=fn_node)}
        if lu & ld:
            out.append((st, val, how))
    if len(out) > 1:
        # a compound statement that dominates the use and binds the name on every path through it (`if C: x = A  else: x = B`)
        # kills everything before it, the parameter's incoming value included
        kp = _must_define_point(fn_node, name, use, pm)
        if kp is not None:
            out = [d for d in out if not (d[2] == 'param' or (position(d[0]) < position(kp) and not any(n is d[0] for n in ast.walk(kp))))] or out
    if len(out) > 1:
        before = [d for d in out if position(d[0]) < position(use) and d[2] in ('assign', 'for', 'unpack')
                  and isinstance(d[0], ast.stmt) and d[0] is not fn_node]
        # the latest definition before the use that dominates it (a later conditional one does not hide an earlier dominating one)
        doms = [d for d in sorted(before, key=lambda d: position(d[0]), reverse=True)
                if dominating_block_index(d[0], use, pm) is not None and not (
                    isinstance(d[0], ast.stmt) and any(n is use for n in ast.walk(d[0])) and not isinstance(d[0], (ast.For, ast.AsyncFor)))]
        if doms:
            dstar = doms[0]
            if True:
                loops_d = [id(x) for x in enclosing_loops(dstar[0], pm, stop=fn_node) if isinstance(x, (ast.For, ast.AsyncFor, ast.While))]
                if isinstance(dstar[0], (ast.For, ast.AsyncFor)):
                    loops_d = [id(dstar[0])] + loops_d
                kept = []
                for d in out:
                    if d is dstar:
                        kept.append(d)
                    elif position(d[0]) < position(dstar[0]):
                        continue                                  # killed
                    elif position(d[0]) > position(use):
                        # loop-carried: killed if every loop shared by d and use also contains dstar
                        shared = [id(x) for x in enclosing_loops(d[0], pm, stop=fn_node)
                                  if id(x) in {id(y) for y in enclosing_loops(use, pm, stop=fn_node)}]
                        if shared and all(l in loops_d for l in shared):
                            continue
                        kept.append(d)
                    else:
                        kept.append(d)                            # between dstar and use but not dominating (conditional)
                out = kept
    return out


def loop_normal_form(w):
    """(continuation test, body) of a while loop: `while T: B` is (T, B); `while True: if X: break; B` is (not X, B)."""
    import copy
    test, body = w.test, w.body
    if isinstance(test, ast.Constant) and test.value is True and body and isinstance(body[0], ast.If) and not body[0].orelse \
            and len(body[0].body) == 1 and isinstance(body[0].body[0], ast.Break):
        from .canon import negate
        return negate(copy.deepcopy(body[0].test)), body[1:]
    return test, body
