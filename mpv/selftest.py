"""Developer tool: run every mutant against every claimed property and print the detection matrix."""
import sys
from .mutants import self_validate
from .props import PROPS


def main(argv):
    ids = argv or sorted(PROPS)
    bad = 0
    for pid in ids:
        r = self_validate(pid)
        print(f'{pid}: detected {r["detected"]}/{r["applicable"]}  benign silent {r["benign_silent"]}/{r["benign_total"]}  stale {len(r["stale"])}')
        for m in r['missed']:
            bad += 1
            print('   MISSED', m)
        for m in r['benign_alarms']:
            bad += 1
            print('   BENIGN-ALARM', m)
        for m in r['stale']:
            print('   stale', m)
    return 1 if bad else 0


if __name__ == '__main__':
    sys.exit(main(sys.argv[1:]))
