"""Routing rules decided on the message-effect summaries of `routes.py` (properties C07, C11, C01, C19, C12 ...).

SS6  routing duality: for each message-layer coroutine the (sender, receiver) relation implied by its send sites
     equals the one implied by its receive sites; window sizes t (output) and 2t+1 (_reshare).
SS4a the x-coordinate of every recombination point is <party the share in that slot came from> + 1.
SS4d row j of a fresh split goes to party j.
SO1  result slots are indexed by the position of the sender in the sender list.

None of these depends on whether the code uses a `for` statement or a comprehension, an `if` or a conditional
expression, a temporary or the expression itself (see routes.py).
"""
import ast

from .core import AnalysisError, iter_nodes, norm, cnorm
from . import astq, sem, routes
from .astq import parents, ancestors, calls_named, definitions, reaching_definitions, enclosing_stmt, attr_tail, const_int
from .linform import Lin, to_lin

RT = 'runtime::Runtime.'
ROUTERS = ('output', '_reshare', 'transfer', '_distribute')


def _summary(ctx, q):
    key = ('routes', q)
    if key not in ctx.cache:
        fn = ctx.model.func(RT + q)
        evs = routes.summarise(ctx, fn)
        ctx.cache[key] = (fn, evs, routes.resolve_cases(fn, evs))
    return ctx.cache[key]


def _fmt(atoms):
    out = []
    for a in sorted(atoms, key=repr):
        if a[0] == 'In':
            out.append(f'{a[1]} in {a[2]}')
        elif a[0] == 'Off':
            out.append(f'(R - S) mod m in [{a[1]}, {a[2]}]')
        elif a[0] == 'Abs':
            out.append(f'{a[1]} in {{({a[2]} + k) mod m : 0 <= k <= {a[3]}}}')
        elif a[0] == 'Neq':
            out.append('S != R')
        elif a[0] == 'Arc':
            out.append(f'(S, R) in {a[1]} ({a[2]})')
        elif a[0] == 'Arc-reversed':
            out.append(f'(R, S) in {a[1]} ({a[2]}, roles exchanged)')
        else:
            out.append(f'? {a[1]}')
    return '{' + '; '.join(out) + '}'


# ---------------------------------------------------------------------------------------------------- SS6
def rule_SS6(ctx, rep):
    """routing duality on relational summaries."""
    for q in ROUTERS:
        fn, evs, cases = _summary(ctx, q)
        sends = [e for e in evs if e.kind == 'send']
        recvs = [e for e in evs if e.kind == 'recv']
        if not sends or not recvs:
            raise AnalysisError(f'SS6: {fn.key} no longer has both a send site and a receive site')
        for e in evs:
            if any(b.kind == 'opaque' for b in e.binders):
                rep.skip('SS6', fn, e.node, 'message site inside an iteration whose range is not understood')
        for k in sorted(cases):
            per = cases[k]
            srel = {frozenset(per[id(e)]) for e in sends}
            rrel = {frozenset(per[id(e)]) for e in recvs}
            label = ' and '.join(f'{t}:{br}' for t, br in k) or 'all paths'
            site = f'{q}: send/receive relation [{label}]'
            rev = [a for s in srel | rrel for a in s if a[0] == 'Arc-reversed']
            if rev:
                rep.bad('SS6', fn, site, 'the arc set is read with the roles of sender and receiver exchanged: every arc a->b is used as b->a, so messages '
                        'go to parties that are not the designated receivers', sends[0].node)
                continue
            if srel == rrel:
                unk = [a for s in srel for a in s if a[0] == 'Unknown']
                rep.ok('SS6', fn, site, 'senders and receivers describe the same (S, R) pairs: ' + ' | '.join(_fmt(s) for s in sorted(srel, key=lambda z: sorted(map(repr, z))))
                       + (' (with an uninterpreted but identical condition)' if unk else ''), sends[0].node)
            else:
                only_s = ' | '.join(_fmt(s) for s in sorted(srel - rrel, key=lambda z: sorted(map(repr, z))))
                only_r = ' | '.join(_fmt(s) for s in sorted(rrel - srel, key=lambda z: sorted(map(repr, z))))
                rep.bad('SS6', fn, site, f'the pairs (S, R) for which S sends are {only_s}, those for which R waits are {only_r}: some message is sent that nobody '
                        'receives, or a receive is never matched (a receiver waits forever / recombines with a missing point)', sends[0].node)
            # no message to self
            if q != 'output':
                if all(('Neq',) in s for s in srel | rrel):
                    rep.ok('SS6', fn, f'{q}: self-exclusion [{label}]', 'no message to self on either side', sends[0].node)
                else:
                    rep.bad('SS6', fn, f'{q}: self-exclusion [{label}]', 'self-exclusion differs between the sending and the collecting side, or a party messages itself', sends[0].node)
        # window sizes
        if q == 'output':
            for e in recvs:
                offs = [a for a in cases[sorted(cases)[0]][id(e)] if a[0] == 'Off']
                if len(offs) == 1:
                    lo, hi = offs[0][1], offs[0][2]
                    cnt = hi - lo + 1
                    if cnt == Lin.sym('T') and lo == Lin(1):
                        rep.ok('SS6', fn, e.node, 'exactly t foreign shares (from the t predecessors) + own share = t+1 points (t = requested output threshold, default the runtime threshold)')
                    else:
                        rep.bad('SS6', fn, e.node, f'{cnt} foreign shares from offsets [{lo}, {hi}] are collected, expected the t predecessors (t = requested output threshold, default self.threshold)')
                else:
                    rep.bad('SS6', fn, e.node, 'the receive side of output does not enumerate a window of predecessors modulo the number of parties')
        if q == '_reshare':
            for e in recvs:
                ab = [a for a in cases[sorted(cases)[0]][id(e)] if a[0] == 'Abs']
                if len(ab) == 1:
                    n = ab[0][3]
                    if n + 1 == Lin.sym('T') * 2 + 1:
                        rep.ok('SS6', fn, e.node, f'2t+1 dealers ({ab[0][2]} + [0, {ab[0][3]}] mod m) on both the dealing and the collecting side')
                    else:
                        rep.bad('SS6', fn, e.node, f'{n + 1} dealers take part in the resharing, expected 2t+1 with t = self.threshold (degree-2t products need 2t+1 points)')
                else:
                    rep.bad('SS6', fn, e.node, 'the collecting side of _reshare does not enumerate a window of dealers modulo the number of parties')
                # slots
                if e.slot and e.slot[0] == 'index':
                    sz = _container_size(fn, e.slot[1], e.node)
                    if sz is not None and sz == Lin.sym('T') * 2 + 1:
                        rep.ok('SS6', fn, f'slots of {e.slot[1]}', '2t+1 slots for the dealers\' sub-shares', e.slot[3])
                    else:
                        rep.bad('SS6', fn, f'slots of {e.slot[1]}', f'the number of slots for collected sub-shares is {sz}, not 2t+1', e.slot[3])
                elif e.slot and e.slot[0] == 'comp':
                    rep.ok('SS6', fn, f'slots of {e.slot[1]}', 'one slot per enumerated dealer (comprehension)', e.node)
                else:
                    rep.bad('SS6', fn, e.node, 'the received sub-share is not stored in a slot of the collection list')


def _container_size(fn, name, use):
    """Lin size of `name = [None] * N` reaching use."""
    pm = parents(fn.node)
    for st, v, how in reaching_definitions(fn.node, name, use, pm):
        if v is not None and isinstance(v, ast.BinOp) and isinstance(v.op, ast.Mult):
            a, b = v.left, v.right
            if isinstance(b, ast.List):
                a, b = b, a
            if isinstance(a, ast.List) and len(a.elts) == 1 and norm(a.elts[0]) == 'None':
                return routes.lin(fn, b, st, pm)
    return None


# ---------------------------------------------------------------------------------------------------- SS4 (a), (d)
def _point_tuples(fn, pts_name, pm):
    """Tuples flowing into the list `pts_name`: comprehension elements and append arguments."""
    out = []
    for st, v, how in definitions(fn.node, pts_name):
        if isinstance(v, ast.ListComp) and isinstance(v.elt, ast.Tuple):
            out.append(v.elt)
        elif isinstance(v, ast.List):
            out.extend(e for e in v.elts if isinstance(e, ast.Tuple))
        elif isinstance(v, ast.BinOp) and isinstance(v.op, ast.Add):
            for side in (v.left, v.right):
                if isinstance(side, ast.ListComp) and isinstance(side.elt, ast.Tuple):
                    out.append(side.elt)
                elif isinstance(side, ast.List):
                    out.extend(e for e in side.elts if isinstance(e, ast.Tuple))
    for c in calls_named(fn.node, 'append'):
        if isinstance(c.func, ast.Attribute) and isinstance(c.func.value, ast.Name) and c.func.value.id == pts_name and c.args and isinstance(c.args[0], ast.Tuple):
            out.append(c.args[0])
    for n in iter_nodes(fn.node):
        if isinstance(n, ast.AugAssign) and isinstance(n.target, ast.Name) and n.target.id == pts_name and isinstance(n.op, ast.Add):
            v = n.value
            if isinstance(v, ast.List):
                out.extend(e for e in v.elts if isinstance(e, ast.Tuple))
            elif isinstance(v, ast.ListComp) and isinstance(v.elt, ast.Tuple):
                out.append(v.elt)
    return out


def list_elements(fn, e, use, pm, depth=0):
    """(element nodes, complete) of the list denoted by expression e at `use`: elements of list displays, of comprehensions, of
    concatenations, and -- for a local name -- of all its definitions plus what is appended / added to it.  The nodes are nodes of
    fn's tree, so their binders and path conditions can be asked for; complete is False when some contribution is not understood."""
    out, complete = [], True
    if depth > 4:
        return out, False
    if isinstance(e, (ast.List, ast.Tuple)):
        for x in e.elts:
            if isinstance(x, ast.Starred):
                o, c = list_elements(fn, x.value, use, pm, depth + 1)
                out += o
                complete &= c
            else:
                out.append(x)
    elif isinstance(e, (ast.ListComp, ast.GeneratorExp)):
        out.append(e.elt)
    elif isinstance(e, ast.BinOp) and isinstance(e.op, ast.Add):
        for side in (e.left, e.right):
            o, c = list_elements(fn, side, use, pm, depth + 1)
            out += o
            complete &= c
    elif isinstance(e, ast.BinOp) and isinstance(e.op, ast.Mult) and (isinstance(e.left, ast.List) or isinstance(e.right, ast.List)):
        return list_elements(fn, e.left if isinstance(e.left, ast.List) else e.right, use, pm, depth + 1)     # [x] * n: the elements of the display
    elif isinstance(e, ast.Call) and isinstance(e.func, ast.Name) and e.func.id in ('list', 'tuple') and len(e.args) == 1:
        return list_elements(fn, e.args[0], use, pm, depth + 1)
    elif isinstance(e, ast.Name):
        nm = e.id
        # the definitions that can reach the use (a later re-use of the name, e.g. as a loop variable, is not one of them)
        ds = [d for d in reaching_definitions(fn.node, nm, use, pm) if d[2] != 'param'] if use is not None else definitions(fn.node, nm)
        if not ds:
            return out, False
        for st, v, how in ds:
            if how == 'assign' and v is not None:
                o, c = list_elements(fn, v, st, pm, depth + 1)
                out += o
                complete &= c
            elif how == 'aug' and isinstance(st.op, ast.Add):
                o, c = list_elements(fn, st.value, st, pm, depth + 1)
                out += o
                complete &= c
            else:
                complete = False
        for c_ in iter_nodes(fn.node):
            if isinstance(c_, ast.Call) and isinstance(c_.func, ast.Attribute) and isinstance(c_.func.value, ast.Name) and c_.func.value.id == nm:
                if c_.func.attr == 'append' and len(c_.args) == 1:
                    out.append(c_.args[0])
                elif c_.func.attr == 'extend' and len(c_.args) == 1:
                    o, c = list_elements(fn, c_.args[0], c_, pm, depth + 1)
                    out += o
                    complete &= c
                elif c_.func.attr in ('insert', 'pop', 'remove', 'clear', 'sort', 'reverse'):
                    complete = False
    else:
        complete = False
    return out, complete


def _plus_one(e):
    if isinstance(e, ast.BinOp) and isinstance(e.op, ast.Add):
        if const_int(e.right) == 1:
            return e.left
        if const_int(e.left) == 1:
            return e.right
    return None


class _Tmp:
    """Carrier of binders for routes helpers when analysing a non-message site."""
    def __init__(self, node, binders):
        self.node, self.binders, self.kind = node, binders, 'recv'


def _slot_position(fn, tup, share, binders, pm):
    """(container, Lin position in terms of binder vars) of the share expression of a point tuple."""
    subs = [n for n in ast.walk(share) if isinstance(n, ast.Subscript) and isinstance(n.value, ast.Name) and isinstance(n.ctx, ast.Load)]
    for s in subs:
        l = routes.lin(fn, s.slice, tup, pm)
        if l is not None:
            return s.value.id, l
    names = [n.id for n in ast.walk(share) if isinstance(n, ast.Name)]
    for b in binders:
        if b.kind == 'enum' and b.elem in names and isinstance(b.src, ast.Name):
            return b.src.id, Lin.sym(b.pos) - b.start
    return None, None


def _elem_values(fn, e, use, pm):
    """Replace a name bound as the element of `enumerate([E(v) for v in range(a, b)])` by E(position + a): the k-th element of a
    list built by a comprehension over a range is that comprehension's element expression at v = a + k."""
    import copy
    binders, _ = routes._context(fn, use, pm)

    class X(ast.NodeTransformer):
        def visit_Name(self, n):
            for b in reversed(binders):
                if b.kind == 'enum' and b.elem == n.id and b.start == 0:
                    src = routes.xp(fn, b.src, b.node, pm)
                    if isinstance(src, ast.ListComp) and len(src.generators) == 1 and not src.generators[0].ifs and isinstance(src.generators[0].target, ast.Name):
                        g = src.generators[0]
                        it = g.iter
                        if isinstance(it, ast.Call) and isinstance(it.func, ast.Name) and it.func.id == 'range' and len(it.args) in (1, 2):
                            lo = it.args[0] if len(it.args) == 2 else None
                            posn = ast.Name(id=b.pos, ctx=ast.Load())
                            val = posn if lo is None else ast.BinOp(left=posn, op=ast.Add(), right=copy.deepcopy(lo))

                            class R(ast.NodeTransformer):
                                def visit_Name(self, m):
                                    return copy.deepcopy(val) if m.id == g.target.id else m
                            return R().visit(copy.deepcopy(src.elt))
            return n
    return X().visit(copy.deepcopy(e))


def rule_SS4_points(ctx, rep):
    """(a) every tuple flowing into recombine carries x = <party the share came from> + 1."""
    n = 0
    for q in ('output', '_reshare'):
        fn, evs, cases = _summary(ctx, q)
        pm = parents(fn.node)
        rec = [c for c in iter_nodes(fn.node) if isinstance(c, ast.Call) and isinstance(c.func, ast.Name) and c.func.id == 'recombine']
        if len(rec) != 1:
            raise AnalysisError(f'SS4: recombine call not found in {fn.key}')
        pts = rec[0].args[1]
        if not isinstance(pts, ast.Name):
            raise AnalysisError(f'SS4: points argument of recombine in {fn.key} is not a local list')
        tuples = _point_tuples(fn, pts.id, pm)
        if len(tuples) < 2:
            raise AnalysisError(f'SS4: point tuples not found in {fn.key}')
        recvs = [e for e in evs if e.kind == 'recv']
        for tup in tuples:
            n += 1
            x = routes.xp(fn, tup.elts[0], tup, pm)
            x = _elem_values(fn, x, tup, pm)
            P = _plus_one(x)
            if P is None:
                rep.bad('SS4', fn, tup, f'x-coordinate {norm(tup.elts[0])} is not <party index> + 1: the share is attributed to a wrong evaluation point '
                        '(recombination yields a wrong value at some parties)')
                continue
            if routes.is_self(P):
                # own share: must not be a received one
                if any(isinstance(s, ast.Subscript) for s in ast.walk(tup.elts[1])) and recvs and recvs[0].slot and recvs[0].slot[1] and \
                        any(isinstance(s, ast.Name) and s.id == recvs[0].slot[1] for s in ast.walk(tup.elts[1])):
                    rep.bad('SS4', fn, tup, 'a received share is attributed to this party\'s own point')
                else:
                    rep.ok('SS4', fn, tup, 'own share at x = self.pid + 1')
                continue
            mp = routes._mod_parts(P)
            binders, guards = routes._context(fn, tup, pm)
            # the party is an element of a list that is also the list of parties received from, at the same position
            if mp is None and isinstance(tup.elts[0], ast.BinOp):
                praw = _plus_one(tup.elts[0])
                pb = routes._find_binder(_Tmp(tup, binders), praw.id) if isinstance(praw, ast.Name) else None
                if pb is not None and pb.kind == 'zip':
                    # (p + 1, f(s)) for p, s in zip(PARTIES, SHARES): slot k of SHARES must hold what was received from PARTIES[k]
                    src_p = cnorm(routes.xp(fn, pb.src_of(praw.id), pb.node, pm))
                    snames = [n_.id for n_ in ast.walk(tup.elts[1]) if isinstance(n_, ast.Name) and n_.id in pb.elems and n_.id != praw.id]
                    cont = pb.src_of(snames[0]) if len(snames) == 1 else None
                    hit = None
                    for e in recvs:
                        if e.slot is None or e.slot[0] != 'comp' or not isinstance(e.peer_raw, ast.Name) or not isinstance(cont, ast.Name) or e.slot[1] != cont.id:
                            continue
                        rb = routes._find_binder(e, e.peer_raw.id)
                        if rb is None or rb.kind != 'iter' or rb.elem != e.peer_raw.id or rb.node is not e.slot[2] or len(e.slot[2].generators) != 1 or e.slot[2].generators[0].ifs:
                            continue
                        if cnorm(routes.xp(fn, rb.src, rb.node, pm)) == src_p:
                            hit = e
                    if hit is None:
                        # the party list is a comprehension over a range, and the receives are posted by a comprehension over a range:
                        # position k of both denotes the same party (as linear forms modulo the number of parties)
                        from .rules_ss import _subst
                        pl_ = routes.xp(fn, pb.src_of(praw.id), pb.node, pm)
                        if isinstance(pl_, ast.ListComp) and len(pl_.generators) == 1 and not pl_.generators[0].ifs and isinstance(pl_.generators[0].target, ast.Name):
                            gb = routes.binder_of(fn, pl_.generators[0].target, pl_.generators[0].iter, pb.node, pm, pb.node)
                            mp_ = routes._mod_parts(pl_.elt)
                            if gb is not None and gb.kind == 'range' and mp_ is not None and routes.is_M(fn, mp_[1], tup, pm):
                                Lp_ = routes.lin(fn, mp_[0])
                                k_ = Lin.sym('__k__')
                                for e in recvs:
                                    if e.slot is None or e.slot[0] != 'comp' or not isinstance(cont, ast.Name) or e.slot[1] != cont.id or len(e.slot[2].generators) != 1 \
                                            or e.slot[2].generators[0].ifs:
                                        continue
                                    rb_ = [b for b in e.binders if b.node is e.slot[2]]
                                    rp_ = routes._mod_parts(e.peer)
                                    if len(rb_) == 1 and rb_[0].kind == 'range' and rp_ is not None and Lp_ is not None:
                                        Lr_ = routes.lin(fn, rp_[0])
                                        if Lr_ is not None and _subst(Lp_, gb.var, k_ + gb.lo) == _subst(Lr_, rb_[0].var, k_ + rb_[0].lo) \
                                                and (gb.hi - gb.lo) == (rb_[0].hi - rb_[0].lo):
                                            hit = e
                    if hit is not None:
                        rep.ok('SS4', fn, tup, f'slot k holds the share received from the k-th party of {norm(pb.src_of(praw.id))}; it is attributed to that party\'s point')
                    else:
                        rep.bad('SS4', fn, tup, f'the share paired with x-coordinate {norm(tup.elts[0])} was not received from party {norm(praw)}: recombination uses wrong evaluation points')
                    continue
                if pb is not None and pb.kind == 'enum' and pb.elem == praw.id and pb.start == 0:
                    cont, pos_p = _slot_position(fn, tup, tup.elts[1], binders, pm)
                    src_p = cnorm(routes.xp(fn, pb.src, pb.node, pm))
                    hit = None
                    for e in recvs:
                        if e.slot is None or e.slot[0] != 'comp' or not isinstance(e.peer_raw, ast.Name):
                            continue
                        rb = routes._find_binder(e, e.peer_raw.id)
                        if rb is None or rb.elem != e.peer_raw.id or rb.node is not e.slot[2] or len(e.slot[2].generators) != 1 or e.slot[2].generators[0].ifs:
                            continue
                        if cnorm(routes.xp(fn, rb.src, rb.node, pm)) == src_p and (e.slot[1] is None or cont == e.slot[1]) \
                                and pos_p is not None and pos_p == Lin.sym(pb.pos):
                            hit = e
                    if hit is not None:
                        rep.ok('SS4', fn, tup, f'slot k holds the share received from the k-th party of {norm(pb.src)}; it is attributed to that party\'s point')
                    else:
                        rep.bad('SS4', fn, tup, f'the share paired with x-coordinate {norm(tup.elts[0])} was not received from party {norm(praw)}: recombination uses wrong evaluation points')
                    continue
            if mp is None or not routes.is_M(fn, mp[1], tup, pm):
                rep.bad('SS4', fn, tup, f'the party of the point ({norm(P)}) is not reduced modulo the number of parties: for a window that wraps around, shares are '
                        'attributed to evaluation points no party holds')
                continue
            Lp = routes.lin(fn, mp[0])
            cont, pos_p = _slot_position(fn, tup, tup.elts[1], binders, pm)
            ok, why = False, 'unrecognised pairing of received shares with points'
            for e in recvs:
                if e.slot is None:
                    continue
                rp = routes._mod_parts(e.peer)
                if rp is None:
                    why = f'party received from ({norm(e.peer)}) is not reduced modulo the party count'
                    continue
                Lr = routes.lin(fn, rp[0])
                if e.slot[0] == 'index':
                    pos_r = routes.lin(fn, e.slot[2])
                    rcont = e.slot[1]
                elif e.slot[0] == 'comp':
                    rb = [b for b in e.binders if b.node is e.slot[2]]
                    rcont = e.slot[1]
                    if len(rb) == 1 and rb[0].kind == 'range':
                        pos_r = Lin.sym(rb[0].var) - rb[0].lo
                    else:
                        pos_r = None
                elif e.slot[0] == 'append':
                    # appended once per iteration of a range loop to a list that is empty when the loop starts: position = var - lo
                    rcont = e.slot[1]
                    pos_r = _append_position(fn, e, pm)
                else:
                    pos_r = None
                if Lp is None or Lr is None or pos_p is None or pos_r is None or cont is None:
                    why = 'slot positions / party expressions are not linear'
                    continue
                if rcont is not None and cont != rcont:
                    why = f'the share paired with the x-coordinate is taken from {cont}, received shares are stored in {rcont}'
                    continue
                vp = [s for s in pos_p.syms() if any(s in b.names() for b in binders)]
                vr = [s for s in pos_r.syms() if any(s in b.names() for b in e.binders)]
                if len(vp) != 1 or len(vr) != 1 or pos_p.coef(vp[0]) != 1 or pos_r.coef(vr[0]) != 1:
                    why = 'slot index is not a unit-stride function of one loop variable'
                    continue
                k = Lin.sym('__k__')
                # position k  <=>  vp = k - (pos_p - vp), vr = k - (pos_r - vr)
                sp = k - (pos_p - Lin.sym(vp[0]))
                sr = k - (pos_r - Lin.sym(vr[0]))
                from .rules_ss import _subst
                if _subst(Lp, vp[0], sp) == _subst(Lr, vr[0], sr):
                    ok, why = True, f'slot k holds the share received from party {norm(P)}; it is attributed to point {norm(P)} + 1'
                    # same range of positions
                    break
                why = (f'the share in slot k was received from party ({_subst(Lr, vr[0], sr)}) mod m but is attributed to party ({_subst(Lp, vp[0], sp)}) mod m: '
                       'recombination uses wrong evaluation points')
            (rep.ok if ok else rep.bad)('SS4', fn, tup, why)
    return n


def _append_position(fn, e, pm):
    """Lin position (over the loop variable) at which the value of receive event e lands in its list, when the list is empty
    before a range loop and the append is the only one, unconditional, once per iteration; None otherwise."""
    st = e.slot[3]
    b = e.binders[-1] if e.binders else None
    if b is None or b.kind != 'range' or not isinstance(b.node, (ast.For, ast.AsyncFor)) or not any(st is s_ for s_ in b.node.body):
        return None
    if len(e.binders) > 1 and any(x is b.node for ob in e.binders[:-1] for x in ast.walk(ob.node)):
        pass        # nested in an outer loop: the list must be re-initialised inside it (checked through the reaching definition)
    name = e.slot[1]
    ds = reaching_definitions(fn.node, name, b.node, pm)
    if len(ds) != 1 or not (isinstance(ds[0][1], ast.List) and not ds[0][1].elts):
        return None
    others = [c for c in iter_nodes(fn.node) if isinstance(c, ast.Call) and isinstance(c.func, ast.Attribute) and isinstance(c.func.value, ast.Name)
              and c.func.value.id == name and c.func.attr in ('append', 'extend', 'insert', 'pop', 'remove')
              and any(x is c for x in ast.walk(b.node)) and not any(x is c for x in ast.walk(st))]
    if others:
        return None
    return Lin.sym(b.var) - b.lo


def _derives_only_from(fn, e, use, pm, target, depth=0, seen=None):
    """Do all data names in e (through every reaching plain definition) bottom out in the name `target`?"""
    seen = seen if seen is not None else set()
    names = []
    for n in ast.walk(e):
        if isinstance(n, ast.Name) and isinstance(n.ctx, ast.Load):
            par_call = False
            names.append(n)
    # exclude callee names
    callees = {id(c.func) for c in ast.walk(e) if isinstance(c, ast.Call)}
    names = [n for n in names if id(n) not in callees]
    if not names:
        return False
    for n in names:
        if n.id == target:
            continue
        if depth > 5 or (n.id, id(use)) in seen:
            return False
        seen.add((n.id, id(use)))
        ds = reaching_definitions(fn.node, n.id, use, pm)
        plain = [d for d in ds if d[2] == 'assign' and d[1] is not None]
        if not plain:
            return False
        for st, v, how in ds:
            if how == 'for' and n.id == target:
                continue
            if how != 'assign' or v is None:
                return False
            if isinstance(v, ast.Constant) and v.value is None:
                continue
            if not _derives_only_from(fn, v, st, pm, target, depth + 1, seen):
                return False
    return True


def rule_SS4_rows(ctx, rep):
    """(d) the share sent to party j is row j of the split (point j+1)."""
    n = 0
    for q in ('_distribute', '_reshare'):
        fn, evs, cases = _summary(ctx, q)
        pm = parents(fn.node)
        for e in evs:
            if e.kind != 'send':
                continue
            n += 1
            good = False
            if isinstance(e.peer_raw, ast.Name):
                b = routes._find_binder(e, e.peer_raw.id)
                if b is not None and b.kind == 'enum' and b.pos == e.peer_raw.id and b.start == 0 and routes._resolves_to_split(ctx, fn, b.src, b.node, pm) \
                        and e.payload is not None:
                    # payload derives from the row bound together with the index
                    if _payload_from(fn, e.payload, e.node, pm, b.elem):
                        good = True
            if good:
                rep.ok('SS4', fn, e.node, 'row j of the split (point j+1) is sent to party j')
            else:
                rep.bad('SS4', fn, e.node, 'the share sent to a party is not the row of the split with that party\'s index')
    return n


def _payload_from(fn, e, use, pm, rowvar):
    """payload expression mentions the row variable, directly or through local definitions made inside the loop."""
    for n in ast.walk(e):
        if isinstance(n, ast.Name) and n.id == rowvar:
            return True
    for n in ast.walk(e):
        if isinstance(n, ast.Name) and isinstance(n.ctx, ast.Load):
            for st, v, how in reaching_definitions(fn.node, n.id, use, pm):
                if how == 'assign' and v is not None and st is not use and not any(x is use for x in ast.walk(st)):
                    if any(isinstance(x, ast.Name) and x.id == rowvar for x in ast.walk(v)):
                        return True
    return False


# ---------------------------------------------------------------------------------------------------- SO1
def rule_SO1(ctx, rep):
    """results are delivered in sender order: slots are indexed by the position of the sender in the sender list."""
    n = 0
    for q in ('_distribute', 'transfer'):
        fn, evs, cases = _summary(ctx, q)
        pm = parents(fn.node)
        recvs = [e for e in evs if e.kind == 'recv']
        for e in recvs:
            b = routes._find_binder(e, e.peer_raw.id) if isinstance(e.peer_raw, ast.Name) else None
            if b is None or b.kind not in ('enum', 'iter') or b.elem != e.peer_raw.id:
                rep.skip('SO1', fn, e.node, 'the party received from is not an element of an enumerated sender list')
                continue
            lst = norm(b.src)
            if e.slot is None:
                rep.bad('SO1', fn, e.node, 'the received value is not stored in a result slot')
                n += 1
                continue
            if e.slot[0] == 'comp':
                n += 2
                if e.slot[2] is b.node and len(e.slot[2].generators) == 1 and not e.slot[2].generators[0].ifs:
                    rep.ok('SO1', fn, e.node, f'one result per element of {lst}, in list order (comprehension)')
                    rep.ok('SO1', fn, f'own value in {lst} order', 'the element kept for this party itself is produced at its own position of the same comprehension', e.node)
                else:
                    rep.bad('SO1', fn, e.node, f'the results are not produced one per element of {lst} in list order (filtered or nested comprehension)')
                continue
            if e.slot[0] == 'append':
                n += len(_appends(fn, e.slot[1], b.node))
                if not any(g for g in e.guards if False):
                    # appended inside the loop over the sender list: order kept only if every iteration appends exactly once
                    stores = _appends(fn, e.slot[1], b.node)
                    if _every_path_appends_once(b.node.body, e.slot[1]):
                        rep.ok('SO1', fn, e.node, f'exactly one append per element of {lst}, in list order')
                    else:
                        rep.bad('SO1', fn, e.node, f'not exactly one append per element of {lst}: results lose their position in the sender list')
                continue
            cont, idx = e.slot[1], e.slot[2]
            # every store into the container inside the binder's loop
            stores = [s for s in iter_nodes(b.node) if isinstance(s, ast.Assign) and len(s.targets) == 1 and isinstance(s.targets[0], ast.Subscript)
                      and isinstance(s.targets[0].value, ast.Name) and s.targets[0].value.id == cont]
            if b.kind != 'enum':
                rep.bad('SO1', fn, e.node, f'slot index {norm(idx)} is not the position of the sender in {lst} (the list is not enumerated)')
                n += 1
                continue
            for s in stores:
                n += 1
                il = routes.lin(fn, s.targets[0].slice, s, pm)
                if il is not None and il == Lin.sym(b.pos) - b.start:
                    rep.ok('SO1', fn, s, f'slot = position of the sender in {lst}')
                else:
                    rep.bad('SO1', fn, s, f'result slot {norm(s.targets[0].slice)} is not the position ({b.pos}) of the sender in the sender list: values end up in the wrong '
                            'order (or out of range) whenever sender ids differ from positions')
            sz = _container_size(fn, cont, b.node)
            want = to_lin(ast.parse(f'len({lst})', mode='eval').body, {}, opaque=True) if lst.isidentifier() else None
            szx = None
            for st, v, how in reaching_definitions(fn.node, cont, b.node, pm):
                if v is not None and isinstance(v, ast.BinOp) and isinstance(v.op, ast.Mult):
                    szx = v.right if isinstance(v.left, ast.List) else v.left
            if szx is not None and cnorm(routes.xp(fn, szx, b.node, pm)) == cnorm(routes.xp(fn, ast.parse(f'len({lst})', mode='eval').body, b.node, pm)):
                pass
            elif szx is not None:
                rep.bad('SO1', fn, f'size of {cont}', f'the result list has {norm(szx)} slots, not one per element of {lst}', b.node)
        # the sender list keeps the caller's order
        for st, v, how in definitions(fn.node, 'senders'):
            if v is not None and isinstance(v, ast.Call) and attr_tail(v.func) in ('set', 'sorted', 'frozenset', 'reversed'):
                rep.bad('SO1', fn, st, 'the sender list is passed through an order-destroying constructor')
    fi = ctx.model.func(RT + 'input')
    for st, v, how in definitions(fi.node, 'senders'):
        if v is not None and any(isinstance(c, ast.Call) and attr_tail(c.func) in ('set', 'sorted', 'frozenset', 'reversed') for c in ast.walk(v)):
            rep.bad('SO1', fi, st, 'the sender list is passed through an order-destroying constructor')
    if n < 4:
        raise AnalysisError('SO1: too few slot stores analysed')


def _appends(fn, cont, loop):
    return [c for c in calls_named(loop, 'append') if isinstance(c.func.value, ast.Name) and c.func.value.id == cont]


def _every_path_appends_once(body, cont):
    def count(stmts):
        """set of possible append counts along the paths of stmts"""
        acc = {0}
        for s in stmts:
            if isinstance(s, ast.If):
                a, b = count(s.body), count(s.orelse)
                acc = {x + y for x in acc for y in a | b}
            elif isinstance(s, (ast.For, ast.While)):
                if any(isinstance(c, ast.Call) and isinstance(c.func, ast.Attribute) and c.func.attr in ('append', 'extend', 'insert', 'pop') and isinstance(c.func.value, ast.Name)
                       and c.func.value.id == cont for c in ast.walk(s)):
                    return {-1}
                # an inner loop that does not touch the result list (dealing the shares) adds nothing
            else:
                k = sum(1 for c in ast.walk(s) if isinstance(c, ast.Call) and isinstance(c.func, ast.Attribute) and c.func.attr == 'append'
                        and isinstance(c.func.value, ast.Name) and c.func.value.id == cont)
                acc = {x + k for x in acc}
        return acc
    return count(body) == {1}
