"""vcheck: decide one property (or all) for the current /repo tree by static analysis.

exit 0  every obligation discharged (known findings printed as KNOWN-FINDING lines)
exit 1  VIOLATION property=<id> replay=<report>   (a definite violation not listed as known)
exit 2  ANALYSIS-ERROR (the analysis itself is broken; never a VIOLATION)
"""
import argparse
import json
import os
import sys
import time
import traceback

from .core import AnalysisError, Report, REPO
from .ctx import Ctx

VERIF = os.path.dirname(os.path.dirname(os.path.abspath(__file__)))
EVID = os.path.join(VERIF, 'evidence')
KNOWN = os.path.join(VERIF, 'known_findings.json')


def load_known():
    try:
        with open(KNOWN) as f:
            d = json.load(f)
    except FileNotFoundError:
        return [], []
    return d.get('known', []), d.get('fixed', [])


def is_known(ob, pid, known):
    for k in known:
        if k.get('property') != pid:
            continue
        if k.get('rule') == ob.rule and k.get('construct') == f'{ob.file}::{ob.construct}' and \
                (not k.get('site') or k['site'] == ob.site):
            return k
    return None


def run_property(pid, tier='quick', seed=0, repo=None, overrides=None, write=True, quiet=False):
    """Returns (exit_code, report, evidence dict)."""
    from .props import PROPS
    t0 = time.time()
    spec = PROPS[pid]
    ctx = Ctx(repo=repo, overrides=overrides)
    rep = Report()
    rules_run = []
    for r in spec['rules']:
        r['fn'](ctx, rep, **r.get('kw', {}))
        rules_run.append(r['id'])
    if not any(o.status == 'violation' for o in rep.obs):
        # floors guard against vacuous passes; a run that reports violations is not vacuous
        for rule, n in spec.get('floors', {}).items():
            # floors are the instance counts confirmed by hand on the pinned tree; a small slack tolerates
            # refactorings that merge two instances, while a rule that lost its anchors still fails closed
            rep.floor(rule, max(1, n - 1 - n // 6))
    known, fixed = load_known()
    viols = [o for o in rep.obs if o.status == 'violation']
    new, kn = [], []
    for o in viols:
        k = is_known(o, pid, known)
        (kn if k else new).append((o, k))
    mutants = None
    if tier == 'thorough' and overrides is None:
        from .mutants import self_validate
        mutants = self_validate(pid, seed=seed)
    wall = time.time() - t0
    obs = [o for o in rep.obs if o.status != 'unanalysed']
    distinct = len({(o.rule, o.file, o.construct, o.site) for o in obs})
    samples = [o.as_dict() for o in rep.obs[:3]] + [o.as_dict() for o in rep.obs if o.status != 'ok'][:10]
    byrule = {}
    for o in rep.obs:
        d = byrule.setdefault(o.rule, {'ok': 0, 'violation': 0, 'unanalysed': 0})
        d[o.status] += 1
    # one sample per rule so that the reader sees what each rule's obligations look like
    seen = set()
    for o in rep.obs:
        if o.rule not in seen:
            seen.add(o.rule)
            samples.append(o.as_dict())
    ev = {
        'property_id': pid, 'tier': tier, 'seed': seed, 'level': 'other',
        'coverage': {
            'explanation': spec['explanation'],
            'obligations': len(obs), 'discharged': sum(1 for o in obs if o.status == 'ok'),
            'evaluations': len(obs), 'distinct_nontrivial': distinct,
            'rule': 'one obligation = one (rule, construct, site) instance found in the current source of /repo/mpyc; '
                    'distinct = distinct (rule, file, construct, normalised site text); sites a rule could not classify are '
                    'counted as unanalysed and excluded',
            'samples': samples,
            'rules': {r: byrule.get(r, {}) for r in sorted(byrule)},
            'rules_run': rules_run,
            'floors': spec.get('floors', {}),
            'unanalysed': [o.as_dict() for o in rep.obs if o.status == 'unanalysed'][:50],
            'all_obligations': [[o.rule, f'{o.file}::{o.construct}', o.site[:100], o.status] for o in rep.obs],
            'modules_analysed': sorted(ctx.model.sources),
            'functions_indexed': len(ctx.model.funcs),
            'constructs_analysed': sorted(set().union(*rep.analysed.values())) if rep.analysed else [],
            'source_digest': ctx.model.digest,
            'exhaustive': True,
            'checker_cmd': f'bin/vcheck {pid} --tier {tier}',
            'trusted_base': ['CPython ast parser', 'the rule implementations in /verif/mpv', 'the hand-confirmed tables in the rules (each entry carries its reason)'],
        },
        'assumptions': spec.get('assumptions', []),
        'wall_s': round(wall, 3),
        'violations': len(new),
        'known_findings': [o.as_dict() for o, _ in kn],
    }
    if mutants is not None:
        ev['coverage']['self_validation'] = mutants
    code = 1 if new else 0
    if write:
        os.makedirs(EVID, exist_ok=True)
        with open(os.path.join(EVID, f'{pid}.json'), 'w') as f:
            json.dump(ev, f, indent=1)
        if new:
            with open(os.path.join(EVID, f'{pid}.report.json'), 'w') as f:
                json.dump({'property': pid, 'violations': [o.as_dict() for o, _ in new]}, f, indent=1)
    if not quiet:
        for o, k in kn:
            print(f'KNOWN-FINDING: property={pid} {o.rule} {o.file}::{o.construct}: {o.detail}')
        print(f'{pid}: rules {",".join(rules_run)}; {len(obs)} obligations, {ev["coverage"]["discharged"]} discharged, '
              f'{len(new)} violation(s), {len(kn)} known finding(s), {byrule and sum(d["unanalysed"] for d in byrule.values())} unanalysed; '
              f'{len(ctx.model.funcs)} functions in {len(ctx.model.sources)} modules; {wall:.2f}s')
        if mutants is not None:
            print(f'{pid}: self-validation: {mutants["detected"]}/{mutants["applicable"]} mutants detected, '
                  f'{mutants["benign_silent"]}/{mutants["benign_total"]} benign variants silent')
        if new:
            for o, _ in new:
                print(f'  {o.file}:{o.line} {o.construct} [{o.rule}] {o.site}\n      -> {o.detail}')
            print(f'VIOLATION property={pid} replay={os.path.join(EVID, pid + ".report.json")}')
    return code, rep, ev


def main(argv=None):
    ap = argparse.ArgumentParser(prog='vcheck')
    ap.add_argument('prop', help='property id (C01..C39) or "all"')
    ap.add_argument('--tier', default=os.environ.get('VERIF_TIER', 'quick'), choices=['quick', 'thorough'])
    ap.add_argument('--repo', default=None)
    ap.add_argument('--explain', default=None, help='print a violation report file')
    a = ap.parse_args(argv)
    seed = int(os.environ.get('VERIF_SEED', '0') or 0)
    if a.explain:
        print(open(a.explain).read())
        return 0
    try:
        from .props import PROPS
    except Exception:       # a broken checker must not look like a violation (exit 1)
        print(f'ANALYSIS-ERROR property={a.prop}: internal error while loading the rule tables')
        traceback.print_exc()
        return 2
    ids = sorted(PROPS) if a.prop == 'all' else [a.prop]
    worst = 0
    for pid in ids:
        if pid not in PROPS:
            print(f'ANALYSIS-ERROR property={pid}: not a claimed property (see MANIFEST.json not_applicable)')
            return 2
        try:
            code, _, _ = run_property(pid, a.tier, seed, a.repo)
        except AnalysisError as e:
            print(f'ANALYSIS-ERROR property={pid}: {e}')
            code = 2
        except Exception:
            print(f'ANALYSIS-ERROR property={pid}: internal error')
            traceback.print_exc()
            code = 2
        worst = max(worst, code)
    return worst


if __name__ == '__main__':
    sys.exit(main())
