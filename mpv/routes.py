"""Routing summaries of the message-layer coroutines (`output`, `_reshare`, `transfer`, `_distribute`).

For every `_send_message` / `_receive_message` call site the summary records *who talks to whom* as a set of
relational atoms over the two roles S (the sending party) and R (the receiving party), independent of how the
code spells it: a `for` statement or a comprehension, an `if` statement, a conditional expression or an early
`continue`, a temporary or the expression itself, `range(a, b)` or `range(n)` with an offset.  The atoms are

    ('In', role, L)            role is a member of the list L (text of the expanded expression)
    ('Off', lo, hi)            (R - S) mod M  lies in [lo, hi]            (linear forms over T, M and locals)
    ('Abs', role, base, n)     role is one of (base + k) mod M, 0 <= k <= n
    ('Neq',)                   S != R
    ('Arc', G, form)           (S, R) is an arc of the graph argument G ('pairs' or 'dict' representation)
    ('Unknown', text)          a party-dependent condition that is none of the above

Everything is read off the syntax tree with names expanded through their reaching definitions; nothing is run.
"""
import ast
import copy

from .core import norm, cnorm, iter_nodes, AnalysisError
from . import astq
from .astq import parents, ancestors, enclosing_stmt, reaching_definitions, definitions, attr_tail, const_int
from .linform import Lin, to_lin
from . import sem

COMPS = (ast.ListComp, ast.SetComp, ast.GeneratorExp, ast.DictComp)
SELF_TEXTS = ('self.pid', 'runtime.pid', 'rt.pid')


class Binder:
    """One enclosing iteration: kind 'range' (var in [lo, hi]), 'enum' (pos, elem over src) or 'iter' (elem over src)."""

    def __init__(self, kind, node, var=None, lo=None, hi=None, src=None, pos=None, elem=None, start=0):
        self.kind, self.node, self.var, self.lo, self.hi = kind, node, var, lo, hi
        self.src, self.pos, self.elem, self.start = src, pos, elem, start
        self.value_var = None

    def names(self):
        return [x for x in (self.var, self.pos, self.elem) if x] + list(getattr(self, 'elems', []))

    def src_of(self, name):
        """the list the name is an element of (iter / enum element, zip component)"""
        if self.kind == 'zip':
            return self.srcs[self.elems.index(name)] if name in self.elems else None
        return self.src if name == self.elem else None

    def __repr__(self):
        if self.kind == 'range':
            return f'{self.var} in [{self.lo}, {self.hi}]'
        if self.kind == 'zip':
            return f'{",".join(self.elems)} over zip({", ".join(norm(x) for x in self.srcs)})'
        return f'{self.pos},{self.elem} over {norm(self.src) if self.src is not None else "?"}'


class Event:
    def __init__(self, kind, node, fn):
        self.kind, self.node, self.fn = kind, node, fn
        self.peer = None          # expanded expression
        self.peer_raw = None
        self.payload = None
        self.binders = []
        self.guards = []          # [(expanded test, truth)]
        self.slot = None          # ('index', container, index expr) | ('comp', container, binder) | None
        self.atoms = None
        self.stmt = None

    def line(self):
        return getattr(self.node, 'lineno', 0)


# ------------------------------------------------------------------------------------------------- expansion
def xp(fn, e, use, pm):
    """e with local names replaced by their single reaching plain definition, recursively."""
    return sem.expand(fn, e, use, pm)


def lin(fn, e, use=None, pm=None):
    """Linear form over T, M, P (self.pid) and remaining names; None when not linear."""
    if use is not None:
        e = xp(fn, e, use, pm)
    return to_lin(sem.symx(e), {}, opaque=True)


def opaque_mentions(l, names):
    """Does an opaque (non-linear) term of l mention one of the given identifiers?"""
    import re
    for s in l.syms():
        if s.startswith('<') and any(re.search(r'(?<![\w.])' + re.escape(n) + r'(?![\w])', s) for n in names):
            return True
    return False


def is_self(e):
    return norm(e) in SELF_TEXTS


def is_M(fn, e, use, pm):
    l = lin(fn, e, use, pm)
    return l is not None and l == Lin.sym('M')


# ------------------------------------------------------------------------------------------------- binders
def _range_binder(fn, var, call, use, pm, node):
    a = call.args
    if len(a) == 1:
        n = lin(fn, a[0], use, pm)
        if n is None:
            return None
        return Binder('range', node, var=var, lo=Lin(0), hi=n - 1)
    if len(a) == 2:
        lo, hi = lin(fn, a[0], use, pm), lin(fn, a[1], use, pm)
        if lo is None or hi is None:
            return None
        return Binder('range', node, var=var, lo=lo, hi=hi - 1)
    return None


def binder_of(fn, target, it, use, pm, node):
    """Binder for `for target in it` (statement or comprehension generator); None if the shape is not understood."""
    if isinstance(it, ast.Call) and isinstance(it.func, ast.Name) and it.func.id == 'range' and isinstance(target, ast.Name):
        return _range_binder(fn, target.id, it, use, pm, node)
    if isinstance(it, ast.Call) and isinstance(it.func, ast.Name) and it.func.id == 'enumerate' and isinstance(target, ast.Tuple) \
            and len(target.elts) == 2 and all(isinstance(x, ast.Name) for x in target.elts) and it.args:
        start = 0
        if len(it.args) > 1:
            start = const_int(it.args[1])
        for k in it.keywords:
            if k.arg == 'start':
                start = const_int(k.value)
        if start is None:
            return None
        return Binder('enum', node, src=it.args[0], pos=target.elts[0].id, elem=target.elts[1].id, start=start)
    if isinstance(target, ast.Name):
        return Binder('iter', node, src=it, elem=target.id)
    # for a, b in zip(A, B): a is the k-th element of A while b is the k-th element of B
    if isinstance(target, ast.Tuple) and all(isinstance(x, ast.Name) for x in target.elts) and isinstance(it, ast.Call) and isinstance(it.func, ast.Name) \
            and it.func.id == 'zip' and len(it.args) == len(target.elts) and not it.keywords and not any(isinstance(a, ast.Starred) for a in it.args):
        b = Binder('zip', node)
        b.elems = [x.id for x in target.elts]
        b.srcs = list(it.args)
        return b
    # for k, v in D.items()  (possibly sorted()/list()): k ranges over the keys of D
    inner = it
    while isinstance(inner, ast.Call) and isinstance(inner.func, ast.Name) and inner.func.id in ('sorted', 'list', 'tuple') and len(inner.args) == 1:
        inner = inner.args[0]
    if isinstance(target, ast.Tuple) and len(target.elts) == 2 and all(isinstance(x, ast.Name) for x in target.elts) \
            and isinstance(inner, ast.Call) and isinstance(inner.func, ast.Attribute) and inner.func.attr == 'items' and not inner.args:
        b = Binder('iter', node, src=inner.func.value, elem=target.elts[0].id)
        b.value_var = target.elts[1].id
        return b
    return None


def _unwrap_filtered(b):
    """`for x in (v for v in L if C(v))` (also a list comprehension) iterates over the elements of L that satisfy C: the binder is
    re-pointed at L and the filter, written over x, is returned as guards [(test, True)]."""
    out = []
    while b.kind == 'iter' and isinstance(b.src, (ast.GeneratorExp, ast.ListComp)) and len(b.src.generators) == 1 \
            and isinstance(b.src.elt, ast.Name) and isinstance(b.src.generators[0].target, ast.Name) \
            and b.src.elt.id == b.src.generators[0].target.id and not b.src.generators[0].is_async:
        g = b.src.generators[0]
        v = g.target.id

        class R(ast.NodeTransformer):
            def visit_Name(self, n):
                return ast.copy_location(ast.Name(id=b.elem, ctx=n.ctx), n) if n.id == v else n
        for c in g.ifs:
            out.append((R().visit(copy.deepcopy(c)), True))
        b.src = g.iter
    return out


def _context(fn, node, pm):
    """Binders (outermost first) and guards [(test, truth)] governing the evaluation of `node`."""
    binders, guards = [], []
    child = node
    for a in ancestors(node, pm):
        if a is fn.node:
            break
        if isinstance(a, (ast.For, ast.AsyncFor)):
            if any(child is s for s in a.body):
                b = binder_of(fn, a.target, a.iter, a, pm, a)
                if b is not None:
                    guards.extend(_unwrap_filtered(b))
                binders.append(b if b is not None else Binder('opaque', a))
        elif isinstance(a, ast.While):
            binders.append(Binder('opaque', a))
        elif isinstance(a, COMPS):
            # child is the element (or a generator's `if`); all generators bind
            for g in reversed(a.generators):
                if child is g:
                    continue
                b = binder_of(fn, g.target, g.iter, a, pm, a)
                if b is not None:
                    guards.extend(_unwrap_filtered(b))
                binders.append(b if b is not None else Binder('opaque', a))
                for c in g.ifs:
                    guards.append((c, True))
        elif isinstance(a, ast.comprehension):
            pass
        elif isinstance(a, ast.If):
            if any(child is s for s in a.body):
                guards.append((a.test, True))
            elif any(child is s for s in a.orelse):
                guards.append((a.test, False))
        elif isinstance(a, ast.IfExp):
            if child is a.body:
                guards.append((a.test, True))
            elif child is a.orelse:
                guards.append((a.test, False))
        elif isinstance(a, ast.BoolOp) and isinstance(a.op, ast.And):
            i = [k for k, v in enumerate(a.values) if v is child]
            if i:
                for v in a.values[:i[0]]:
                    guards.append((v, True))
        elif isinstance(a, (ast.FunctionDef, ast.AsyncFunctionDef, ast.Lambda)):
            break
        child = a
    binders.reverse()
    guards.reverse()
    # early exits: `if C: return / raise / continue / break` earlier in an enclosing block means not C afterwards
    x = enclosing_stmt(node, pm)
    early = []
    while x is not None and x is not fn.node:
        p_ = pm.get(id(x))
        if p_ is None:
            break
        for blk in astq._blocks(p_):
            if any(x is s_ for s_ in blk):
                for s_ in blk:
                    if s_ is x:
                        break
                    if isinstance(s_, ast.If) and not s_.orelse and s_.body and isinstance(s_.body[-1], (ast.Return, ast.Raise, ast.Continue, ast.Break)):
                        early.append((s_.test, False))
        x = p_
    return binders, early + guards


# ------------------------------------------------------------------------------------------------- collection
def _resolves_to_split(ctx, fn, e, use, pm, depth=0):
    """Does the list expression e denote the rows returned by random_split (through local aliases)?"""
    if depth > 4:
        return False
    if isinstance(e, ast.Call):
        try:
            return any('random_split' in t.key for t in ctx.flow.rs.resolve_call(fn, e))
        except Exception:
            return False
    if isinstance(e, ast.Name):
        ds = reaching_definitions(fn.node, e.id, use, pm)
        ds = [d for d in ds if d[2] == 'assign' and d[1] is not None]
        # the definition textually closest before the use
        before = [d for d in ds if astq.position(d[0]) < astq.position(use)]
        if before:
            d = max(before, key=lambda d: astq.position(d[0]))
            return _resolves_to_split(ctx, fn, d[1], d[0], pm, depth + 1)
    return False


def summarise(ctx, fn):
    """All message events of fn, with peers, payloads, binders, guards, slots and relational atoms."""
    pm = parents(fn.node)
    events = []
    for n in iter_nodes(fn.node):
        if not (isinstance(n, ast.Call) and isinstance(n.func, ast.Attribute) and n.func.attr in ('_send_message', '_receive_message')
                and isinstance(n.func.value, ast.Name) and n.func.value.id == 'self'):
            continue
        kind = 'send' if n.func.attr == '_send_message' else 'recv'
        ev = Event(kind, n, fn)
        st = enclosing_stmt(n, pm)
        ev.stmt = st
        if not n.args:
            raise AnalysisError(f'routes: message call without a peer argument in {fn.key}')
        ev.peer_raw = n.args[0]
        ev.peer = xp(fn, n.args[0], n, pm)
        if kind == 'send' and len(n.args) > 1:
            ev.payload = n.args[1]
        ev.binders, gs = _context(fn, n, pm)
        ev.guards = [(xp(fn, t, n, pm), tv) for t, tv in gs]
        if kind == 'recv':
            ev.slot = _slot(fn, n, st, pm, ev)
        ev.atoms = _atoms(ctx, fn, ev, pm)
        events.append(ev)
    return events


def _slot(fn, call, st, pm, ev):
    """Where does the Future returned by the receive go?"""
    par = pm.get(id(call))
    # value of `C[idx] = recv(..)` possibly through a conditional expression
    top = call
    while isinstance(par, ast.IfExp) and (par.body is top or par.orelse is top):
        top, par = par, pm.get(id(par))
    if isinstance(par, ast.Assign) and par.value is top and len(par.targets) == 1:
        tg = par.targets[0]
        if isinstance(tg, ast.Subscript) and isinstance(tg.value, ast.Name):
            return ('index', tg.value.id, xp(fn, tg.slice, call, pm), par)
    if isinstance(par, ast.ListComp) and par.elt is top:
        p2 = pm.get(id(par))
        if isinstance(p2, ast.Assign) and p2.value is par and isinstance(p2.targets[0], ast.Name):
            return ('comp', p2.targets[0].id, par, p2)
        # X = await self.gather([recv(..) for ..]): the list of futures is awaited where it is built; X holds the received values
        if isinstance(p2, ast.Call) and attr_tail(p2.func) == 'gather' and len(p2.args) == 1 and isinstance(pm.get(id(p2)), ast.Await):
            p4 = pm.get(id(pm.get(id(p2))))
            if isinstance(p4, ast.Assign) and len(p4.targets) == 1 and isinstance(p4.targets[0], ast.Name):
                ev.gathered = p4
                return ('comp', p4.targets[0].id, par, p4)
        return ('comp', None, par, None)
    if isinstance(par, ast.Call) and attr_tail(par.func) == 'append' and isinstance(par.func.value, ast.Name):
        return ('append', par.func.value.id, None, enclosing_stmt(par, pm))
    return None


def _conj(test, truth):
    return sem._atoms(test, truth) or [(test, truth)]


def _find_binder(ev, name):
    for b in reversed(ev.binders):
        if name in b.names():
            return b
    return None


def _list_key(fn, e, use, pm):
    return cnorm(xp(fn, e, use, pm))


def _mod_parts(e):
    if isinstance(e, ast.BinOp) and isinstance(e.op, ast.Mod):
        return e.left, e.right
    return None


def _shift(base, lo, hi):
    """Normalise {(base + k) % M : lo <= k <= hi} to offset 0: (base + lo, hi - lo)."""
    return base + lo, hi - lo


def _party_of(ctx, fn, ev, e, pm):
    """Describe the party denoted by expression e (already expanded) at event ev:
    ('self',) | ('all',) | ('in', key, binder) | ('off', lo, hi)  (e - self in [lo, hi] mod M) | ('abs', base, n) | None."""
    if is_self(e):
        return ('self',)
    if isinstance(e, ast.Name):
        b = _find_binder(ev, e.id)
        if b is None:
            return None
        if b.kind == 'enum' and e.id == b.pos:
            if b.start == 0 and _resolves_to_split(ctx, fn, b.src, b.node, pm):
                return ('all',)
            return None
        if b.kind in ('enum', 'iter') and e.id == b.elem:
            return ('in', b.src, b)
        if b.kind == 'zip' and e.id in b.elems:
            return ('in', b.src_of(e.id), b)
        if b.kind == 'range':
            # a bare range variable is a party only if the range is [0, M-1]
            if b.lo == Lin(0) and b.hi == Lin.sym('M') - 1:
                return ('all',)
            return None
        return None
    mp = _mod_parts(e)
    if mp is not None and is_M(fn, mp[1], ev.node, pm):
        l = lin(fn, mp[0])
        if l is None or opaque_mentions(l, ['P'] + [x for b in ev.binders for x in b.names()]):
            return None
        rv = [b for b in ev.binders if b.kind == 'range' and l.coef(b.var) != 0]
        if len(rv) > 1:
            return None
        others = [s for s in l.syms() if s not in ('P', 'T', 'M') and not (rv and s == rv[0].var) and _find_binder(ev, s) is not None]
        if others:
            return None
        if rv:
            b = rv[0]
            c = l.coef(b.var)
            rest = l - Lin.sym(b.var) * c
            if c == 1:
                lo, hi = rest + b.lo, rest + b.hi
            elif c == -1:
                lo, hi = rest - b.hi, rest - b.lo
            else:
                return None
        else:
            lo = hi = l
        if lo.coef('P') == 1 and hi.coef('P') == 1:
            return ('off', lo - Lin.sym('P'), hi - Lin.sym('P'))
        if lo.coef('P') == 0 and hi.coef('P') == 0:
            base, n = _shift(Lin(0), lo, hi)
            return ('abs', base, n)
        return None
    return None


def _mentions_party(ev, e):
    for n in ast.walk(e):
        if isinstance(n, ast.Attribute) and norm(n) in SELF_TEXTS:
            return True
        if isinstance(n, ast.Name) and _find_binder(ev, n.id) is not None:
            return True
    return False


def _interval_guard(fn, ev, test, pm):
    """`lo <(=) X % M <(=) hi` -> (X lin, lo, hi) else None."""
    if not isinstance(test, ast.Compare):
        return None
    if len(test.ops) == 1 and isinstance(test.ops[0], (ast.Eq, ast.NotEq)):
        # X % M == c  is [c, c];  X % M != 0  is [1, M - 1]
        a, b = test.left, test.comparators[0]
        if _mod_parts(b) is not None and _mod_parts(a) is None:
            a, b = b, a
        c = const_int(b)
        if _mod_parts(a) is not None and is_M(fn, _mod_parts(a)[1], ev.node, pm) and c is not None and c >= 0:
            inner = lin(fn, _mod_parts(a)[0])
            if inner is None or opaque_mentions(inner, ['P'] + [x for b_ in ev.binders for x in b_.names()]):
                return None
            if isinstance(test.ops[0], ast.Eq):
                return inner, Lin(c), Lin(c)
            if c == 0:
                return inner, Lin(1), Lin.sym('M') - 1
        return None
    terms = [test.left] + list(test.comparators)
    idx = [i for i, t in enumerate(terms) if _mod_parts(t) is not None and is_M(fn, _mod_parts(t)[1], ev.node, pm)]
    if len(idx) != 1:
        return None
    i = idx[0]
    inner = lin(fn, _mod_parts(terms[i])[0])
    if inner is None or opaque_mentions(inner, ['P'] + [x for b in ev.binders for x in b.names()]):
        return None
    lo, hi = Lin(0), Lin.sym('M') - 1
    if i > 1 or len(terms) - 1 - i > 1:
        return None
    if i == 1:
        b = lin(fn, terms[0])
        op = test.ops[0]
        if b is None:
            return None
        if isinstance(op, ast.Lt):
            lo = b + 1
        elif isinstance(op, ast.LtE):
            lo = b
        elif isinstance(op, (ast.Gt, ast.GtE)) and len(terms) == 2:
            hi = b - 1 if isinstance(op, ast.Gt) else b          # b > X % M  /  b >= X % M
        else:
            return None
    if i < len(terms) - 1:
        b = lin(fn, terms[i + 1])
        op = test.ops[i]
        if b is None:
            return None
        if isinstance(op, ast.Lt):
            hi = b - 1
        elif isinstance(op, ast.LtE):
            hi = b
        elif isinstance(op, (ast.Gt, ast.GtE)) and i == 0:
            lo = b + 1 if isinstance(op, ast.Gt) else b
        else:
            return None
    return inner, lo, hi


def _role_name(ev, what):
    """Role symbol of `what` in ('self', 'peer')."""
    if ev.kind == 'send':
        return 'S' if what == 'self' else 'R'
    return 'R' if what == 'self' else 'S'


def _atoms(ctx, fn, ev, pm):
    """Relational atoms of one event (a frozenset-able list of tuples)."""
    atoms = []
    me, peer = _role_name(ev, 'self'), _role_name(ev, 'peer')
    peer_txt = cnorm(ev.peer)
    peer_raw_txt = cnorm(ev.peer_raw)

    def add_party(role, desc, flip):
        """role's party is described by desc relative to the event's own party."""
        if desc is None:
            atoms.append(('Unknown', f'{role} = {peer_txt}'))
        elif desc[0] == 'all':
            pass
        elif desc[0] == 'self':
            atoms.append(('Unknown', f'{role} = self'))
        elif desc[0] == 'in':
            atoms.extend(_membership(ctx, fn, ev, role, desc[1], desc[2], pm))
        elif desc[0] == 'off':
            lo, hi = desc[1], desc[2]         # role - me in [lo, hi]
            if role == 'S':                    # S - R in [lo, hi]  <=>  R - S in [-hi, -lo]
                lo, hi = hi * -1, lo * -1
            atoms.append(('Off', lo, hi))
        elif desc[0] == 'abs':
            atoms.append(('Abs', role, desc[1], desc[2]))

    add_party(peer, _party_of(ctx, fn, ev, ev.peer, pm), False)
    for test, truth in ev.guards:
        for t, tv in _conj(test, truth):
            if not _mentions_party(ev, t):
                continue
            # X == self.pid / X != self.pid
            if isinstance(t, ast.Compare) and len(t.ops) == 1 and isinstance(t.ops[0], (ast.Eq, ast.NotEq)):
                a, b = t.left, t.comparators[0]
                if is_self(b) or is_self(a):
                    other = a if is_self(b) else b
                    eq = isinstance(t.ops[0], ast.Eq) == tv
                    otxt = cnorm(other)
                    if otxt in (peer_txt, peer_raw_txt):
                        atoms.append(('Neq',) if not eq else ('Unknown', 'peer == self'))
                        continue
                    d = _party_of(ctx, fn, ev, other, pm)
                    if d is not None and d[0] == 'in' and eq:
                        atoms.extend(_membership(ctx, fn, ev, me, d[1], d[2], pm))     # self is that member
                        continue
                    if d is not None and d[0] == 'all' and not eq:
                        # `other_pid != self.pid` where other_pid is not the peer: irrelevant for this event only if
                        # the event does not depend on it -- it does (it encloses the event), so record it
                        atoms.append(('Unknown', f'{otxt} != self'))
                        continue
            # self.pid in L
            if isinstance(t, ast.Compare) and len(t.ops) == 1 and isinstance(t.ops[0], (ast.In, ast.NotIn)) and is_self(t.left):
                if isinstance(t.ops[0], ast.In) == tv:
                    atoms.extend(_membership(ctx, fn, ev, me, t.comparators[0], None, pm))
                    continue
            # modular interval (a negated one-sided test is the complementary interval)
            ig = _interval_guard(fn, ev, t, pm)
            if ig is not None and not tv:
                inner_, lo_, hi_ = ig
                top = Lin.sym('M') - 1
                if lo_ == Lin(0) and hi_ != top:
                    ig = (inner_, hi_ + 1, top)
                elif hi_ == top and lo_ != Lin(0):
                    ig = (inner_, Lin(0), lo_ - 1)
                else:
                    ig = None
            if ig is not None:
                inner, lo, hi = ig
                # which parties does inner mention?
                pl = lin(fn, sem.symx(ev.peer))
                cP = inner.coef('P')
                # peer variable (a name bound by a binder) inside inner
                pv = [s for s in inner.syms() if _find_binder(ev, s) is not None]
                if len(pv) == 1 and inner.coef(pv[0]) in (1, -1) and cP == -inner.coef(pv[0]) \
                        and cnorm(ast.Name(id=pv[0], ctx=ast.Load())) in (peer_txt, peer_raw_txt):
                    rest = inner - Lin.sym(pv[0]) * inner.coef(pv[0]) - Lin.sym('P') * cP
                    if inner.coef(pv[0]) == 1:      # peer - me + rest in [lo, hi]
                        dlo, dhi = lo - rest, hi - rest
                    else:                           # me - peer + rest in [lo, hi]  <=> peer - me in [rest - hi, rest - lo]
                        dlo, dhi = rest - hi, rest - lo
                    if peer == 'S':
                        dlo, dhi = dhi * -1, dlo * -1
                    atoms.append(('Off', dlo, dhi))
                    continue
                if not pv and cP == 1:
                    base = (inner - Lin.sym('P')) * -1          # (P - base) % M in [lo, hi]
                    b2, n = _shift(base, lo, hi)
                    atoms.append(('Abs', me, b2, n))
                    continue
            atoms.append(('Unknown', ('' if tv else 'not ') + _role_text(ev, t, peer_txt, peer_raw_txt)))
    return merge_offsets(atoms)


def _leq(a, b):
    """a <= b for linear forms over non-negative symbols, knowing T <= M - 1 (more parties than the threshold)"""
    d = b - a
    cm = d.coef('M')
    d2 = d - Lin.sym('M') * cm + Lin.sym('T') * cm + Lin.sym('M_') * cm + cm      # M = T + 1 + M_ with M_ >= 0
    return d2.nonneg()


def merge_offsets(atoms):
    """Several interval conditions on (R - S) mod M (two one-sided tests, a test plus an enumeration) hold together: intersect them."""
    offs = [a for a in atoms if a[0] == 'Off']
    if len(offs) < 2:
        return atoms
    lo, hi = offs[0][1], offs[0][2]
    for a in offs[1:]:
        if _leq(lo, a[1]):
            lo = a[1]
        elif not _leq(a[1], lo):
            return atoms
        if _leq(a[2], hi):
            hi = a[2]
        elif not _leq(hi, a[2]):
            return atoms
    return [a for a in atoms if a[0] != 'Off'] + [('Off', lo, hi)]


def _role_text(ev, t, peer_txt, peer_raw_txt):
    me, peer = _role_name(ev, 'self'), _role_name(ev, 'peer')
    txt = cnorm(t)
    for s in SELF_TEXTS:
        txt = txt.replace(s, f'<{me}>')
    for p in {peer_txt, peer_raw_txt}:
        if p and not p.startswith('<'):
            txt = txt.replace(p, f'<{peer}>')
    return txt


def _membership(ctx, fn, ev, role, src, binder, pm):
    """Atoms stating that `role` is a member of the list expression src (evaluated at the binder / event)."""
    use = binder.node if binder is not None else ev.node
    other = 'R' if role == 'S' else 'S'
    e = src
    # a name with several definitions in exclusive branches is left symbolic here; split_cases() resolves it
    if isinstance(e, ast.Name):
        ds = [d for d in reaching_definitions(fn.node, e.id, use, pm) if d[2] == 'assign' and d[1] is not None]
        alld = reaching_definitions(fn.node, e.id, use, pm)
        if len(ds) > 1 and len(ds) == len(alld) and all(astq.exclusive(a[0], b[0], pm, stop=fn.node) for a in ds for b in ds if a is not b):
            return [('Case', role, e.id, id(ev))]
        e = xp(fn, e, use, pm)
    return membership_atoms(fn, role, e, _role_name(ev, 'self'))


def membership_atoms(fn, role, e, me):
    """role in e, for the list forms the message layer uses; `me` is the role of the party evaluating e."""
    while isinstance(e, ast.Call) and isinstance(e.func, ast.Name) and e.func.id in ('list', 'tuple') and len(e.args) == 1:
        e = e.args[0]
    # L if <self in L2> else []
    if isinstance(e, ast.IfExp):
        t, a, b = e.test, e.body, e.orelse
        neg = False
        if isinstance(t, ast.UnaryOp) and isinstance(t.op, ast.Not):
            t, neg = t.operand, True
        if isinstance(t, ast.Compare) and len(t.ops) == 1 and isinstance(t.ops[0], (ast.In, ast.NotIn)) and is_self(t.left):
            pos = isinstance(t.ops[0], ast.In) != neg
            yes, no = (a, b) if pos else (b, a)
            if norm(no) in ('[]', '()', 'range(0)'):
                # NB: self is the *other* role here only if role is the peer; callers pass role of the member
                return membership_atoms(fn, role, yes, me) + membership_atoms(fn, me, t.comparators[0], me)
        return [('Unknown', f'{role} in {cnorm(e)}')]
    # [(E(k)) % M for k in range(a, b)]: a window of parties
    if isinstance(e, ast.ListComp) and len(e.generators) == 1 and not e.generators[0].ifs and isinstance(e.generators[0].target, ast.Name):
        g = e.generators[0]
        it = g.iter
        mp = _mod_parts(e.elt)
        if isinstance(it, ast.Call) and isinstance(it.func, ast.Name) and it.func.id == 'range' and len(it.args) in (1, 2) and mp is not None \
                and lin(fn, mp[1]) == Lin.sym('M'):
            rlo = lin(fn, it.args[0]) if len(it.args) == 2 else Lin(0)
            rhi = lin(fn, it.args[-1])
            l = lin(fn, mp[0])
            v = g.target.id
            if rlo is not None and rhi is not None and l is not None and l.coef(v) in (1, -1) and not opaque_mentions(l, ['P', v]) \
                    and not opaque_mentions(rlo, ['P']) and not opaque_mentions(rhi, ['P']):
                rhi = rhi - 1
                c = l.coef(v)
                rest = l - Lin.sym(v) * c
                lo, hi = (rest + rlo, rest + rhi) if c == 1 else (rest - rhi, rest - rlo)
                if lo.coef('P') == 1 and hi.coef('P') == 1 and me != role:
                    lo, hi = lo - Lin.sym('P'), hi - Lin.sym('P')       # role - me in [lo, hi]
                    if role == 'S':                                      # S - R in [lo, hi]  <=>  R - S in [-hi, -lo]
                        lo, hi = hi * -1, lo * -1
                    return [('Off', lo, hi)]
                if lo.coef('P') == 0 and hi.coef('P') == 0:
                    base, n = _shift(Lin(0), lo, hi)
                    return [('Abs', role, base, n)]
    # graph forms
    from .rules_ss import _arc_role
    for g in _graph_names(e):
        r = _arc_role(e, g)
        if r in ('S', 'R'):
            # r == 'S': members are the parties with an arc to self; r == 'R': parties self has an arc to
            member_is_sender = r == 'S'
            if (role == 'S') == member_is_sender:
                return [('Arc', g, _graph_form(e, g))]
            return [('Arc-reversed', g, _graph_form(e, g))]
        if r == '?':
            return [('Unknown', f'{role} in {cnorm(e)}')]
    if isinstance(e, (ast.Name, ast.Attribute)):
        return [('In', role, cnorm(e))]
    if isinstance(e, ast.Call) and isinstance(e.func, ast.Name) and e.func.id == 'range' and len(e.args) == 1:
        l = to_lin(sem.symx(e.args[0]), {}, opaque=False)
        if l is not None and l == Lin.sym('M'):
            return []
    return [('Unknown', f'{role} in {cnorm(e)}')]


def _graph_names(e):
    out = []
    for n in ast.walk(e):
        if isinstance(n, ast.Name) and n.id == 'sender_receivers':
            out.append(n.id)
    return out[:1]


def _graph_form(e, g):
    return 'dict' if ('.items()' in norm(e) or (isinstance(e, ast.Subscript)) or '.get(' in norm(e) or f'{g}[' in norm(e)) else 'pairs'


# ------------------------------------------------------------------------------------------------- case split
def branch_key(fn, st, pm):
    return tuple((cnorm(i.test), br) for i, br in astq.enclosing_ifs(st, pm, stop=fn.node))


def _self_membership_test(t):
    """`self.pid in L` / `self.pid not in L` (possibly negated): a test on the evaluating party itself, not on the form of the arguments"""
    if isinstance(t, ast.UnaryOp) and isinstance(t.op, ast.Not):
        t = t.operand
    return isinstance(t, ast.Compare) and len(t.ops) == 1 and isinstance(t.ops[0], (ast.In, ast.NotIn)) and is_self(t.left)


def case_values(fn, name, use, pm):
    """{branch key: value expr} for a name defined once in each of several exclusive branches."""
    ds = []
    for st, v, how in reaching_definitions(fn.node, name, use, pm):
        if how != 'assign' or v is None:
            return None
        if isinstance(v, ast.List) and not v.elts:
            comp = sem._list_builder(fn, name, st, use, pm)      # `L = []` filled by an append loop: the comprehension it builds
            if comp is not None:
                v = comp
        ds.append((v, st, st))
    # `if C: name = A  else: name = B` (both the only definitions in the two branches of one `if`) is `name = A if C else B`
    # defined where that `if` stands
    changed = True
    while changed:
        changed = False
        for i, (va, sa, pa_) in enumerate(ds):
            for j, (vb, sb, pb_) in enumerate(ds):
                if i < j:
                    qa, qb = pm.get(id(pa_)), pm.get(id(pb_))
                    if qa is qb and isinstance(qa, ast.If) and _self_membership_test(qa.test):
                        ina, inb = any(pa_ is s_ for s_ in qa.body), any(pb_ is s_ for s_ in qa.body)
                        if ina != inb:
                            a, b = (va, vb) if ina else (vb, va)
                            ds[i] = (ast.IfExp(test=qa.test, body=a, orelse=b), qa, qa)
                            del ds[j]
                            changed = True
                            break
            if changed:
                break
    out = {}
    for v, st, at in ds:
        out[branch_key(fn, at, pm)] = (v, st)
    return out


def resolve_cases(fn, events):
    """Expand ('Case', role, name) atoms: returns {branch key: {id(ev): atoms}} over the branch keys common to all case names."""
    pm = parents(fn.node)
    names = {}
    for ev in events:
        for a in ev.atoms:
            if a[0] == 'Case':
                names.setdefault(a[2], case_values(fn, a[2], ev.node, pm))
    if not names:
        return {(): {id(ev): list(ev.atoms) for ev in events}}
    if any(v is None for v in names.values()):
        raise AnalysisError(f'routes: a routing list of {fn.key} has a definition that is not a plain assignment')
    keys = None
    for v in names.values():
        keys = set(v) if keys is None else keys & set(v)
    if not keys or any(set(v) != keys for v in names.values()):
        raise AnalysisError(f'routes: the routing lists of {fn.key} are not defined in the same branches')
    out = {}
    for k in sorted(keys):
        per = {}
        for ev in events:
            at = []
            for a in ev.atoms:
                if a[0] == 'Case':
                    v, st = names[a[2]][k]
                    at.extend(membership_atoms(fn, a[1], sem.expand(fn, v, st, pm), _role_name(ev, 'self')))
                else:
                    at.append(a)
            per[id(ev)] = at
        out[k] = per
    return out
