"""Property -> rules mapping (the per-property decisions of DESIGN.md section 5)."""
from . import rules_pc as pc
from . import rules_cf as cf
from . import rules_sg as sg
from . import rules_fr as fr
from . import rules_lv as lv
from . import rules_ss as ss
from . import rules_mk as mk
from . import rules_pai as pa
from . import rules_fx as fx
from . import rules_op as op
from . import rules_cv as cv
from . import rules_sn as sn


def R(fn, **kw):
    return {'id': fn.__name__.replace('rule_', ''), 'fn': fn, 'kw': kw}


PROPS = {}

# Properties not claimed: no sound structural clause in reach of static analysis (DESIGN.md section 5).
NOT_APPLICABLE = {
    'C05': 'purely numerical error bounds of secure floats over runtime values; no structural clause beyond those decided under C03/C19',
    'C21': 'number-theoretic correctness of square-root algorithms over runtime values; any static rule would freeze a formula',
    'C24': 'correctness of irreducibility tests/search is a statement about polynomial factorisations; needs evaluation, not code shape',
    'C25': 'mathematical correctness of number-theory helpers over runtime integers; needs evaluation against an oracle',
    'C27': 'group laws and curve formulas over runtime values; algebraic identities are not decidable by code-shape rules',
    'C30': 'input/output relations of bit-level circuits (carry networks, prefix search) require enumeration/evaluation',
    'C31': 'agreement of operation histories with Python lists is a relation over runtime values',
    'C32': 'agreement with functools/itertools and logarithmic depth are properties of computed results / recursion over runtime lengths',
    'C33': 'ranges and uniformity of sampled values are distributional properties over runtime randomness',
    'C34': 'agreement with the statistics module is numerical over runtime data',
    'C38': 'value agreement of secure polynomials with gfpx over runtime values; its openings/coroutines are covered under C18/C08',
}

PROPS['C08'] = {
    'rules': [R(pc.rule_PC1), R(pc.rule_PC2), R(pc.rule_PC3), R(pc.rule_PC4), R(pc.rule_PC5), R(pc.rule_PC7),
              R(pc.rule_PC9), R(pc.rule_GA1), R(fr.rule_FR1), R(fr.rule_FR2), R(fr.rule_FR3), R(fr.rule_FR5), R(lv.rule_LV3)],
    'floors': {'PC1': 40, 'PC2': 12, 'PC3': 5, 'PC4': 6, 'PC5': 9, 'PC7': 8, 'PC9': 14, 'GA1': 5, 'FR1': 5, 'FR2': 5,
               'FR3': 5, 'FR5': 4, 'LV3': 7},
    'explanation': 'Decides the code-shape reasons why the label sequence of an MPyC program is schedule independent: '
                   '(PC1) no mpc_coro_no_pc coroutine performs a pc-consuming operation after its first await (callee '
                   'resolution through self./runtime./aliases/operator dunders, fixed-point consumer closure); (PC2) message '
                   'primitives only inside coroutines owning a counter, no callback/Protocol method/spawned task reaches a '
                   'consumer; (PC3) swap-in/save-back/restore pairing of the counter around every coroutine step; (PC4) fork '
                   'freshness and wrapping; (PC5) sender and receiver compute the same label and key their buffers by it; (PC7) '
                   'no pc-advancing operation is control-dependent on party-local data; (PC9) PRSS inputs are fresh and common; '
                   '(GA1) gather tallies are paired so that awaiting already-completed results completes; (FR1-FR5) the stream reader '
                   'is chunking independent (see C10); (LV3) shutdown waits for the started coroutines, installs its completion future before the '
                   'all-party synchronisation and closes only afterwards, so termination does not depend on which party finishes first. Decides these clauses, '
                   'not the behaviour of a run.',
    'assumptions': ['_hop (Python hash of a tuple of ints / sha1) is collision free in practice',
                    'all parties run the same program text with the same public inputs',
                    'asyncio delivers each connection\'s bytes in FIFO order'],
}

PROPS['C09'] = {
    'rules': [R(pc.rule_PC5), R(pc.rule_PC6), R(pc.rule_PC4), R(pc.rule_PC1), R(pc.rule_PC2), R(ss.rule_SS6), R(fr.rule_FR3)],
    'floors': {'PC5': 9, 'PC6': 8, 'PC4': 6, 'PC1': 40, 'SS6': 9, 'FR3': 5},
    'explanation': 'Decides: every message-layer coroutine sends exactly to the parties that wait for it -- the (sender, receiver) relation of its send '
                   'sites equals that of its receive sites (SS6: no message that nobody receives, no receive that is never matched); a delivered '
                   'payload / a waiting receive is removed from the label-keyed rendezvous by the other side (FR3: consumed exactly once, nothing left '
                   'behind); both sides label a message with the same expression and key the rendezvous buffer by it (PC5); '
                   'inside one coroutine epoch no two messages of one direction address the same peer (PC6); sibling forks get '
                   'distinct counters (PC4); labels are taken only under a counter owned by the protocol instance (PC1, PC2).',
    'assumptions': ['_hop is collision free', 'sender/receiver lists passed by the program contain no duplicates (API precondition)'],
}

PROPS['C10'] = {
    'rules': [R(fr.rule_FR1), R(fr.rule_FR2), R(fr.rule_FR3), R(fr.rule_FR5), R(fr.rule_HS1)],
    'floors': {'FR1': 5, 'FR2': 5, 'FR3': 5, 'FR5': 4, 'HS1': 12},
    'explanation': 'Decides the clauses that make the stream reader chunking independent: writer and reader agree on the frame '
                   'format and every header-size literal equals calcsize of it (FR1); on every flag valuation no byte is read or '
                   'consumed before a completeness guard covers it -- symbolic lower bounds on the buffered byte count as linear '
                   'forms (FR2); the label-keyed rendezvous removes entries on both sides and tests absence by identity so that '
                   'empty payloads count (FR3); the frame loop admits a bare header, leaves only on "frame incomplete", consumes '
                   'exactly one frame per iteration and keeps the residue (FR5); handshake writer and reader enumerate the same '
                   'subsets under the role swap with one key width and one pid encoding (HS1).',
    'assumptions': ['the transport delivers the byte stream of one connection in order (TCP)'],
}

PROPS['C16'] = {
    'rules': [R(fr.rule_KEY1), R(fr.rule_HS1), R(fr.rule_FR2)],
    'floors': {'KEY1': 9, 'HS1': 12, 'FR2': 5},
    'explanation': 'Decides: one fresh CSPRNG key per subset, generated only by the lowest member, installed over an empty table with '
                   'the PRF cache invalidated (KEY1); only the setter and the handshake reader write the key table, only the handshake '
                   'writer and prfs() read it (who-may-access, whole package); keys are sent exactly for owned subsets containing the '
                   'peer and stored under the same subset by a reader that mirrors the writer under the role swap (HS1); the owner '
                   'is client of every other member (start() connects to larger pids); the handshake is cut only when complete (FR2).',
    'assumptions': ['connections are authenticated/private (out of scope of the property)'],
}

PROPS['C36'] = {
    'rules': [R(fr.rule_FR2), R(fr.rule_CR2), R(fr.rule_CR3), R(fr.rule_CR4), R(fr.rule_FR3), R(pc.rule_PC5)],
    'floors': {'FR2': 5, 'CR2': 1, 'CR3': 3, 'CR4': 2, 'FR3': 5, 'PC5': 12},
    'explanation': 'Decides necessary conditions only: the message primitives are unconditional -- a missing connection surfaces as an error instead of a '
                   'skipped send or a None "received" (PC5); a partial frame is never read or consumed (FR2), a waiting receive is completed '
                   'only in data_received after the completeness guard (CR2), output recombines only after awaiting one share per '
                   'requested predecessor with no handler/timeout substituting a missing one (CR3), a lost connection is re-raised '
                   '(CR4). Crash schedules themselves are not modelled.',
    'assumptions': ['a crashed party sends a prefix of its byte stream and then nothing'],
}


# ---- what each claimed check assures (level_claimed.text of MANIFEST.json)
PROPS['C08']['level'] = (
    'Static analysis of all of mpyc/ deciding the code-shape clauses behind schedule independence, for every path, m, t and schedule: '
    'no pc-consuming operation after the first await of any mpc_coro_no_pc coroutine (PC1); message primitives and forks only in '
    'contexts that own a counter (PC2); swap/save/restore pairing around each coroutine step (PC3); fresh forks and wrapping (PC4); '
    'identical labels on both sides (PC5); no fork/PRSS step under party-local conditions (PC7); fresh common PRSS inputs (PC9); '
    'gather tallies paired (GA1); chunking-independent stream reader (FR1,FR2,FR3,FR5). These are necessary conditions: breaking any '
    'one makes some legal schedule deadlock or mislabel. It does not execute or model-check schedules, so it does not decide '
    'termination of arbitrary user programs.')
PROPS['C09']['level'] = (
    'Static analysis deciding the label discipline: one label expression on both sides and as buffer key (PC5); per coroutine epoch '
    'at most one message per direction per peer -- peer must vary with every enclosing loop, no while loops, distinct sites exclusive or '
    'separated by a pc advance (PC6); fork freshness (PC4); labels only under an owned counter (PC1,PC2). Necessary conditions of '
    'uniqueness/exactly-once; the matching of sends with receives across parties is decided under C07 (routing duality).')
PROPS['C10']['level'] = (
    'Static analysis of the writer/reader pair in asyncoro.MessageExchanger and the handshake in runtime: format and size-literal '
    'agreement, symbolic byte-count lower bounds before every read/consumption on every flag valuation, rendezvous typestate with '
    'identity test, liveness shape of the frame loop, handshake duality under role swap. Decides exactly the clauses that make the '
    'reader independent of chunking; does not run any chunking.')
PROPS['C16']['level'] = (
    'Static who-may-write / who-may-read analysis of the PRSS key table over the whole package plus structural comparison of the three '
    'subset enumerations (generate / send / receive) under the role swap, key freshness per subset, PRF cache invalidation and client '
    'direction. Necessary and (given private channels) sufficient shape for "members and only members hold the key".')
PROPS['C36']['level'] = (
    'Static necessary conditions for crash safety: no partial frame is ever delivered, receives complete only from complete frames, '
    'output recombines only after all requested shares arrived and nothing substitutes a missing share, disconnects surface. Crash '
    'points and schedules are not enumerated (that would be a different technique).')


PROPS['C35'] = {
    'rules': [R(lv.rule_LV1), R(lv.rule_LV2), R(lv.rule_LV3), R(lv.rule_LV4), R(fr.rule_CR4)],
    'floors': {'LV1': 7, 'LV2': 8, 'LV3': 7, 'LV4': 4, 'CR4': 2},
    'explanation': 'Decides the acquire/release discipline of the pending-coroutine level and the "wait and synchronise before close" '
                   'shape: every exit of the coroutine launcher releases the level or registers the releasing callback on the task it '
                   'schedules (LV1); _reconcile releases first and only launcher/reconciler/constructor write the level (LV2); shutdown '
                   'waits unconditionally with the predicate level > depth, awaits an all-party transfer, closes exactly the '
                   'connections it opened and waits until all are deregistered (LV3); barrier waits with the same predicate unless '
                   'barriers are disabled or evaluation is synchronous (LV4); closed connections deregister (CR4).',
    'assumptions': ['the event loop eventually runs every ready task', 'user programs call barrier/shutdown at top level (depth 0) as documented'],
    'level': 'Static pairing / dominance analysis over asyncoro.mpc_coro, _reconcile, Runtime.barrier/shutdown/start/unset_protocol. Decides the '
             'structural reasons why barrier and shutdown wait for all started coroutines on every schedule; it does not execute schedules.',
}
PROPS['C09']['rules'] += [R(lv.rule_LV3), R(lv.rule_LV1), R(lv.rule_LV2)]
PROPS['C09']['floors'].update({'LV3': 7, 'LV1': 7})
PROPS['C09']['explanation'] += (' No receive is left unmatched at shutdown: shutdown waits unconditionally for all started coroutines '
                                'before synchronising and closing (LV1-LV3).')


# coroutines whose messages must be labelled under a counter of their own, or they are matched with another call's receives
ROUTING = ['Runtime.transfer', 'Runtime.input', 'Runtime._distribute', 'Runtime.output', 'Runtime._reshare']

PROPS['C07'] = {
    'rules': [R(ss.rule_SS6), R(ss.rule_SO1), R(ss.rule_SS4), R(mk.rule_MK4), R(mk.rule_MK3), R(mk.rule_NR1), R(pc.rule_PC6),
              R(pc.rule_PC1, scope=ROUTING)],
    'floors': {'SS6': 8, 'SO1': 4, 'SS4': 9, 'MK4': 6, 'MK3': 8, 'NR1': 1, 'PC6': 8, 'PC1': 5},
    'explanation': 'Decides who sends what to whom: for output, _reshare, transfer and _distribute the (sender, receiver) pairs implied by '
                   'the send guard equal those implied by the receive enumeration, as offset intervals modulo m normalised from the '
                   'expression syntax (SS6); result slots are indexed by the position in the sender list (SO1); the x-coordinate of every '
                   'recombination point is <party received from>+1 (SS4); destinations derive only from the receivers arguments and the '
                   'non-receiver branch yields None without recombining (MK4, NR1); composite types forward the receivers and threshold they were given, and '
                   'the auxiliary zero-indicators of secure floats are computed per element by a receiver (MK3).',
    'assumptions': ['sender/receiver lists contain valid, distinct party ids (API precondition)'],
    'level': 'Static routing-duality analysis (symbolic offset intervals mod m, linear forms) of the four routing coroutines plus provenance of '
             'destinations and slot indices. Decides that every receiver collects exactly the shares sent to it, attributed to the right party '
             'and position, for every m, t and receiver/sender set; payload arithmetic (Lagrange) is not decided here (see C12).',
}
PROPS['C12'] = {
    'rules': [R(ss.rule_SS3), R(ss.rule_SS4), R(ss.rule_SS7)],
    'floors': {'SS3': 9, 'SS4': 9, 'SS7': 8},
    'explanation': 'Convention and sibling clauses only: split evaluates a polynomial with constant term = secret and t further coefficients at the '
                   'points 1..m (in the modulus\' arithmetic), row x-1 <-> point x (SS3, SS4); the recombination vector is the Lagrange basis with '
                   'numerator and denominator oriented alike over all j != i, and list/array variants share it with the same default point (SS7).',
    'assumptions': ['field arithmetic of finfields is correct (C20)'],
    'level': 'Static structural check of thresha: dealer polynomial shape, point convention, Lagrange factor orientation, list/array sibling '
             'agreement. These are necessary conditions for split/recombine being inverse; the Lagrange algebra itself is not proved.',
}
PROPS['C13'] = {
    'rules': [R(ss.rule_SS3)],
    'floors': {'SS3': 9},
    'explanation': 'Dealer-randomness clause: exactly t coefficients per secret, each a direct secrets.randbelow(field.order) draw, drawn afresh '
                   'inside the per-secret loop, every one multiplied by a positive power of the evaluation point, constant term the secret; array '
                   'variant t*n draws reshaped (t, n) under the secret row. Uniformity of any t shares follows from this shape (Vandermonde argument).',
    'assumptions': ['secrets.randbelow is uniform', 'evaluation points 1..m are distinct nonzero field elements (m < field order, C39)'],
    'level': 'Static shape check of the dealer in thresha.random_split / np_random_split. Decides the clause from which perfect secrecy follows '
             'mathematically; it does not enumerate distributions.',
}
PROPS['C14'] = {
    'rules': [R(ss.rule_SS2), R(ss.rule_SS3), R(ss.rule_SS5)],
    'floors': {'SS2': 2, 'SS3': 9, 'SS5': 2},
    'explanation': 'Every protocol dealing (input, resharing) passes the runtime\'s current threshold and party count to the split (reaching '
                   'definitions through local aliases) (SS2); the split draws fresh full-degree coefficients (SS3); the payload of every message of '
                   'a dealing coroutine derives only from the split\'s output (SS5).',
    'assumptions': ['randomness dealt without PRSS goes through Runtime.input (checked: _randoms/_np_randoms/random_bits call self.input)'],
    'level': 'Static provenance analysis (reaching definitions, call resolution through local aliases) of what is dealt and sent by _distribute and '
             '_reshare, plus the dealer shape. Necessary conditions for "full-degree fresh polynomial, nothing in the clear".',
}
PROPS['C15'] = {
    'rules': [R(pc.rule_PC9), R(ss.rule_SS4), R(ss.rule_PR1), R(fr.rule_KEY1), R(fr.rule_HS1)],
    'floors': {'PC9': 14, 'SS4': 9, 'PR1': 12, 'KEY1': 9, 'HS1': 12},
    'explanation': 'Provenance/convention clauses: all parties feed the same fresh common input, their own pid, the party count and PRFs built '
                   'from exactly the held keys (PC9, KEY1); f_S is 1 at 0 and 0 at j+1 for j outside S, evaluated at i+1 (SS4); every subset PRF '
                   'contributes prf_S(uci)*f_S(i); zero-sharings use d = m-|S| values per secret as coefficients of x^1..x^d; list and array variants '
                   'agree on counts (PR1); the keys the PRFs are built from are cut correctly from the handshake (HS1).',
    'assumptions': ['PRF outputs are a deterministic function of key and input (C17)'],
    'level': 'Static provenance and sibling analysis of the PRSS functions and their 16 call sites. Decides the structural reasons for consistency; '
             'the polynomial identity itself is not proved.',
}
PROPS['C19'] = {
    'rules': [R(mk.rule_MK3), R(mk.rule_MK4), R(ss.rule_MK6)],
    'floors': {'MK3': 9, 'MK4': 6, 'MK6': 4},
    'explanation': 'In the graph form of transfer the parties a message is sent to are the heads of the arcs leaving the sender, in the list and '
                   'in the dict representation (MK6). Destinations of output/transfer messages derive only from the receivers arguments (default all parties only under `is None`), '
                   'non-receivers never collect or recombine (MK4); every _output implementation (SecureFloat, secure groups, secure polynomials) '
                   'forwards receivers and threshold unchanged to each nested opening; SecureFloat\'s only extra interaction is a fresh input by a '
                   'receiver and a resharing product (MK3).',
    'assumptions': ['receivers is a collection of party ids'],
    'level': 'Static provenance analysis of message destinations and of the receivers/threshold arguments of nested openings. Decides that no '
             'message of an output/transfer can be addressed to a party outside the receivers.',
}


INT_PROTOCOLS = ['mul', 'prod', 'all', 'in_prod', 'scalar_mul', '_if_else_list', '_if_swap_list', 'matrix_prod', 'sgn', 'lsb', '_mod',
                 'trailing_zeros', 'is_zero_public', '_is_zero', 'gauss', 'schur_prod', 'random_bits', 'to_bits', 'trunc', 'mod', '_convert',
                 'reciprocal', 'output', '_reshare']

PROPS['C11'] = {
    'rules': [R(pa.rule_SS1), R(pa.rule_NL1), R(ss.rule_SS2), R(ss.rule_SS3), R(ss.rule_SS4), R(ss.rule_SS6), R(pc.rule_PC9), R(fr.rule_KEY1), R(ss.rule_PR1),
              R(pc.rule_PC1)],
    'floors': {'SS1': 60, 'NL1': 25, 'SS2': 2, 'SS3': 9, 'SS4': 9, 'SS6': 9, 'PC9': 14, 'KEY1': 9, 'PR1': 12, 'PC1': 40},
    'explanation': 'Degree typestate of every share by abstract interpretation of all protocol coroutines (PUB / SEC / SH(d) with path forking on '
                   'the recurring flags): no value of degree 2t is returned, wrapped as a secure object, truncated or multiplied again without '
                   'passing _reshare, and a degree-2t value is opened only with a threshold covering it (SS1); only field-linear local operations '
                   'are applied to plain shares (NL1); dealing uses the current threshold (SS2); resharing deals from and collects for the same '
                   '2t+1 parties at the right points (SS4, SS6); all parties feed PRSS with the same fresh input, their own id and PRFs of the '
                   'current keys, and zero-sharings have d = t coefficients (PC9, KEY1, PR1); the dealing polynomial has the secret as its '
                   'constant term and t fresh coefficients, evaluated at the points 1..m (SS3); no coroutine without a program counter of its '
                   'own exchanges shares after its first await, where they would be matched with those of another call (PC1).',
    'assumptions': ['secure objects handed to a coroutine are degree-t sharings (induction over the program)',
                    'flags named sh* / isinstance(.., SecureObject) tell whether an operand is shared'],
    'level': 'Static abstract interpretation (no execution) of the protocol coroutines over a degree/randomness lattice, plus provenance and routing '
             'rules. Decides that no degree-2t value is ever stored or used as a degree-t sharing and that dealing/recombination agree on points '
             'and parties -- the structural reasons for consistency, for all m, t, PRSS on/off.',
}
PROPS['C18'] = {
    'rules': [R(pa.rule_MK1), R(pa.rule_MK2), R(pa.rule_MK5), R(pa.rule_SS1), R(pc.rule_PC9), R(ss.rule_PR1), R(sg.rule_TC1), R(sg.rule_SG1), R(mk.rule_RB1)],
    'floors': {'MK1': 40, 'MK2': 12, 'MK5': 6, 'SS1': 60, 'PC9': 14, 'PR1': 12, 'TC1': 10, 'SG1': 10, 'RB1': 1},
    'explanation': 'Scalar and array siblings of the masked-opening protocols draw masks of the same size, open with the same thresholds and re-randomise '
                   'with a fresh PRSS zero-sharing under equivalent conditions (SG1: a sibling that re-randomises one opening less than the other reuses a '
                   'spent mask). For every opening inside library code (runtime, random, statistics, secgroups, seclists, secpols, sectypes) the abstract '
                   'interpreter computes which random sources the opened value depends on: it must be blinded by a field-uniform value, '
                   'statistically masked, a one-time pad of random bits in a binary field, depend on fresh randomness only, or be listed as '
                   'public by design with its reason (MK1). For statistical masks the bound of the random term, followed through shifts and '
                   'public factors as a linear form in (k, l, f, ...), must reach k bits above the power-of-two offset that marks the magnitude '
                   'of the masked value, on every definition of the bound (MK2). Degree-2t openings are re-randomised/covered (SS1), every mask '
                   'uses a fresh common PRSS input and zero-sharings have full degree (PC9, PR1). A buffer of random bits that is split into a head part (the bits of the mask) and a tail part (the sign masks) is large enough for both under every flag valuation (RB1: an overlap would use one secret bit for two maskings).',
    'assumptions': ['inputs respect the documented ranges (l-bit values; a in [0, n) for np_unit_vector)', 'k = options.sec_param'],
    'level': 'Static data-dependence (abstract interpretation) and symbolic bit-length analysis of all ~55 opening sites. Decides that every value '
             'revealed inside a protocol carries a mask of the required kind and size; the resulting statistical distance is not computed. Found two '
             'genuine defects (np_pow mask bound, _mod quotient mask), both repaired.',
}
PROPS['C01'] = {
    'rules': [R(pa.rule_SS1, scope=INT_PROTOCOLS), R(pa.rule_NL1, scope=INT_PROTOCOLS), R(ss.rule_SS4), R(ss.rule_SS6), R(pc.rule_PC9, scope=['Runtime.' + x for x in INT_PROTOCOLS] + ['Runtime._randoms']),
              R(pc.rule_PC1, scope=['Runtime.' + x for x in INT_PROTOCOLS]), R(ss.rule_PR1), R(pa.rule_MK5), R(op.rule_OP6), R(sn.rule_CP1),
              R(sg.rule_AW1, scope='scalar')],
    'floors': {'SS1': 25, 'NL1': 12, 'SS4': 9, 'SS6': 9, 'PC9': 8, 'PC1': 20, 'PR1': 12, 'MK5': 5, 'OP6': 14, 'CP1': 10, 'AW1': 10},
    'explanation': 'Plumbing clauses for the integer protocols (mul, prod, all, in_prod, scalar_mul, if_else/if_swap lists, matrix_prod, sgn, lsb, _mod, '
                   'trailing_zeros, is_zero_public, _is_zero, gauss, ...): every product of two shared values is degree-reduced or opened with 2t '
                   'before reuse (SS1); shares are only combined linearly -- no bitwise or comparison operator is applied to a share as if it were '
                   'the value (NL1); recombination uses the dealt points and each receiver collects exactly the shares sent to it (SS4, SS6); PRSS '
                   'inputs are fresh and common (PC9); each of these coroutines exchanges messages only under a program counter of its own (PC1); '
                   'the PRSS zero-sharings that re-randomise opened products have degree 2t with constant term 0 (PR1); the additive masks of the '
                   'masked-opening protocols are sums of bound // (number of contributions) sized terms, so that masked values do not wrap around the '
                   'modulus (MK5); comparisons and arithmetic reached through NumPy scalars on the left (np.less(10, a)) are delegated in reflected form (OP6). '
                   'These are the parts '
                   'that differ between m = 1 and m > 1. The list operations (sum, prod, all, schur_prod, scalar_mul, vector_add/sub, gauss, ..) do their in-place work on a copy: the parameter is re-bound on every path '
                   'before the first in-place statement, also before it is handed to a private in-place helper (CP1); field-valued results of _random/_randoms, which are '
                   'Futures without PRSS, are awaited under options.no_prss before use (AW1).',
    'assumptions': ['the integer identities of the protocols (Toft comparison, lsb, divsteps) are correct as algorithms: not decided here'],
    'level': 'Static abstract interpretation and routing analysis restricted to the integer protocol coroutines. Decides necessary conditions that the '
             'single-party test suite cannot exercise; does not decide the arithmetic identities.',
}
PROPS['C04'] = {
    'rules': [R(pa.rule_SS1, scope=['reciprocal', 'np_reciprocal', 'is_zero_public', 'np_is_zero_public', 'to_bits', 'np_to_bits', 'random_bits', 'np_random_bits']),
              R(pa.rule_NL1, scope=['reciprocal', 'np_reciprocal', 'is_zero_public', 'np_is_zero_public', 'to_bits', 'np_to_bits', 'random_bits', 'np_random_bits']),
              R(cf.rule_CF2)],
    'floors': {'SS1': 12, 'NL1': 6, 'CF2': 8},
    'explanation': 'Plumbing clauses of the field protocols: reciprocal, public zero test, bit decomposition (characteristic-2 branch) and random bits '
                   'open their degree-2t products only with threshold 2t or after resharing, on every combination of field size class and PRSS option '
                   '(SS1); shares are combined linearly only (NL1); fields with at most m elements are lifted to q**e > m and outputs converted back (CF2).',
    'assumptions': ['field arithmetic is correct (C20)'],
    'level': 'Static abstract interpretation of the field protocol coroutines; the small-field lifting clause is checked under C39.',
}


PROPS['C03'] = {
    'rules': [R(fx.rule_FX1), R(fx.rule_FX2), R(fx.rule_FX3), R(fx.rule_FX4), R(fx.rule_FX5), R(fx.rule_FX6)],
    'floors': {'FX1': 60, 'FX2': 15, 'FX3': 15, 'FX4': 40, 'FX5': 7, 'FX6': 1},
    'explanation': 'The integral flag is a static annotation handed to returnType(); the check compares, by truth tables over the atoms of the '
                   'flag expressions (resolved through reaching definitions, all()/list forms and local helpers), what each of the ~70 declarations '
                   'promises with what the gathered operands guarantee: falsifying any one operand flag must falsify the declaration, with the '
                   'tabled escape atoms (public int factor, shift >= f) false and the selector operands of if_else/if_swap exempt because their '
                   'callers raise for non-integral conditions (FX1). A literal True requires the result to be scaled by 2^f or to be integral by '
                   'construction (FX2). In the product coroutines the exact shift and the truncation are complementary, the exact shift is taken '
                   'only when a factor is flagged integral, and both remove the same number of bits (FX3). Flags are only ever combined by '
                   'conjunction (FX4). The constructors infer the flag exactly (FX5). In the log-round product tree the marks are combined for exactly '
                   'the pairs of positions that are multiplied (FX6).',
    'assumptions': ['lists passed to vector operations are homogeneous in their integral flag (API assumption stated in the code)',
                    'callers do not overwrite .integral of results (np_exp2 sets it after an explicit truncation to integers)'],
    'level': 'Static truth-table analysis of every integrality declaration and of every use of a flag to choose between exact shift and '
             'truncation. This is the property static analysis fits best: the flag never depends on runtime values other than other flags. '
             'Found one genuine defect (np_sum ignores the flag of its initial value), repaired.',
}
PROPS['C02'] = {
    'rules': [R(fx.rule_FX3), R(pa.rule_SS1, scope=['mul', 'np_multiply', 'in_prod', 'prod', 'schur_prod', 'scalar_mul', 'matrix_prod', '_cpx_mul', 'np_matmul',
                                                      'np_outer', 'np_convolve', 'gauss', 'trunc', 'np_trunc']),
              R(pa.rule_MK2, scope=['trunc', 'np_trunc']), R(pa.rule_MK5), R(fx.rule_FX1), R(sg.rule_TC1),
              R(fx.rule_SC1, scope=['_norm', '_rec', 'div', 'np_divide', 'reciprocal', 'np_reciprocal', 'mul', 'np_multiply', 'sincos', 'pow', 'np_pow', 'trunc', 'np_trunc'])],
    'floors': {'FX3': 15, 'SS1': 25, 'MK2': 2, 'MK5': 6, 'FX1': 60, 'TC1': 10, 'SC1': 2},
    'explanation': 'Scale clause only: every product of two scale-f values is brought back to scale f exactly once -- by the exact shift when a factor '
                   'is flagged integral, by probabilistic truncation otherwise, removing the same number of bits on both paths (FX3); the product is '
                   'degree-reduced before it is truncated (SS1); the truncation mask has k bits of slack above the l-bit value (MK2), which is what '
                   'keeps the rounding error within one unit; the flags that choose the path are sound (FX1); a public power-of-two factor whose exponent depends on '
                   'the bit length l is at least one unit 2^-f for every type with l >= 2f, otherwise it is converted to 0 and the normalised operand of '
                   'division / reciprocal vanishes (SC1: a known finding for l > 2f+1, see known_findings.json).',
    'assumptions': ['numeric error bounds of division, sincos and powers are not decided'],
    'level': 'Static scale/flag analysis of the fixed-point product coroutines. Decides the structural part of "within one unit": exactly one scaling '
             'step of the right size per product. Numeric error bounds are not claimed.',
}


PROPS['C17'] = {
    'rules': [R(cf.rule_PF1)],
    'floors': {'PF1': 8},
    'explanation': 'Purity and reduction clauses of thresha.PRF: __call__ reads only key, bound, byte_length and its arguments, writes no attribute '
                   'and touches no entropy/time/global source (effect analysis), expands exactly XOF(key || input), reduces every produced block '
                   'modulo the bound (or yields the constant 0 for bound 1), produces exactly n / prod(shape) values and returns a scalar only for '
                   'n=None; __init__ sizes the block from (bound-1).bit_length() and adds key-length bytes exactly for non powers of two (exact test).',
    'assumptions': ['hashlib.shake_128 is deterministic'],
    'level': 'Static effect and structure analysis of the PRF class. Decides determinism (no state, no entropy) and that every output passes through '
             '`% bound`; statistical closeness of non-power-of-two bounds is not decided.',
}
PROPS['C20'] = {
    'rules': [R(op.rule_OP1, modules=('finfields', 'gfpx')), R(op.rule_OP2), R(op.rule_OP5), R(op.rule_OP10), R(op.rule_SR1, modules=('finfields',))],
    'floors': {'OP1': 15, 'OP2': 20, 'OP5': 4, 'OP10': 4, 'SR1': 1},
    'explanation': 'A negative exponent of matrix_pow is re-bound before its bits are scanned (SR1). Binary and in-place shifts of every class apply the same operation with the same operand expression to the value (OP10). Operator-table clauses: for every class of finfields and gfpx the reflected operator of a non-commutative operation applies the same '
                   'primitive with (other, self) order and is not an alias of the forward one; comparison mirrors swap (OP1). Every in-place '
                   'operator that writes self.value reduces it modulo the field modulus before returning self (or stores the result of the helper the '
                   'forward operator trusts), the constructors reduce, and binary operators build results through the reducing constructor (OP2). '
                   'All exponentiation operators hand the exponent unchanged to the powering primitive (OP5).',
    'assumptions': ['the primitives (_sub, _mod, powmod, invert ...) are correct: field axioms are not decided'],
    'level': 'Static sibling-agreement analysis of the operator tables of the field element, field array and polynomial classes. Decides the '
             'statement\'s clauses "in-place and reflected operators agree with binary ones" and "values stay reduced"; not the field axioms.',
}
PROPS['C22'] = {
    'rules': [R(op.rule_OP3)],
    'floors': {'OP3': 11},
    'explanation': 'Writer/reader agreement of the byte encoding (same width attribute, same byte order, width = ceil(order.bit_length()/8) in both '
                   'field factories), pickle reconstruction arguments matching the factory chain createGF -> pGF/xGF in arity and order, pickled state '
                   'naming the slot `value`, field factories cached without bound (class identity = field identity), signed/unsigned views selected by '
                   'is_signed with the signed representative subtracting the modulus above modulus/2.',
    'assumptions': ['int.to_bytes / int.from_bytes are inverse for equal width and byte order'],
    'level': 'Static writer/reader agreement check over finfields. Decides the structural conditions for round trips for every field and length.',
}
PROPS['C23'] = {
    'rules': [R(op.rule_OP1, modules=('gfpx',)), R(op.rule_OP4), R(op.rule_OP8), R(op.rule_OP9), R(op.rule_SR1, modules=('gfpx',))],
    'floors': {'OP1': 10, 'OP4': 25, 'OP8': 4, 'OP9': 2, 'SR1': 1},
    'explanation': 'A negative exponent of _powmod leaves or is re-bound before its bits are scanned (SR1). Sibling clauses only: reflected polynomial operators apply the same primitive with swapped operands, comparison mirrors swap (OP1); '
                   'every Polynomial primitive that touches the coefficient-list representation is overridden or aliased in BinaryPolynomial, and the '
                   'public wrappers hand their operands to the primitive of the same name in the same order (OP4). In both representations _mod and _divmod '
                   'hand the dividend back unreduced exactly under deg a < deg b, with the degree taken from the representation\'s own _degree (OP8): '
                   'the one clause of "deg r < deg b" that is visible in the shape of the code. The products _mul and _sq of the list representation allocate '
                   'their coefficient list only for non-zero operands, decided over operand lengths 0..3 (OP9): zero keeps its single representation [].',
    'assumptions': ['the primitives themselves implement the ring operations correctly: not decided'],
    'level': 'Static override/agreement analysis of gfpx.Polynomial and BinaryPolynomial. Decides the clause "binary and generic representation agree" '
             'structurally (no primitive silently falls back to list code), operand order of reflected operators and the early-exit guard of the division '
             'algorithm; not the ring laws.',
}
PROPS['C26'] = {
    'rules': [R(cf.rule_CF3), R(cf.rule_CF4), R(cf.rule_CF2)],
    'floors': {'CF3': 3, 'CF4': 3, 'CF2': 7},
    'explanation': 'Secure-type side and Blum clause: the bit length requested for generated primes and the acceptance bound for user primes agree and '
                   'equal l+f+k+2 as linear forms (CF3); every search step in find_prime_root is a multiple of 4 and of 2n and the n <= 2 search '
                   'tests p % 4 != 3, so a requested Blum prime stays 3 mod 4 (CF4); the field of every secure type is compared with the number of '
                   'parties (CF2). Primality and root order are number theory and not decided.',
    'assumptions': ['gmpy2/stub is_prime, prev_prime are correct (C25)'],
    'level': 'Static linear-form / modular-step analysis of sectypes._pfield and finfields.find_prime_root. Decides size agreement and the Blum '
             'invariant of the search loop; not primality.',
}
PROPS['C28'] = {
    'rules': [R(ss.rule_SS4), R(cf.rule_G1), R(pc.rule_PC1), R(op.rule_OP1, modules=('secgroups', 'fingroups')), R(op.rule_ID1)],
    'floors': {'SS4': 9, 'G1': 10, 'PC1': 40, 'OP1': 1, 'ID1': 1},
    'explanation': 'The secure normalize of Weierstrass projective points selects every returned coordinate on the zero test its plain sibling branches on, other than through the divisor (ID1). Convention clauses: both public-base exponentiations weight the local share with the Lagrange coefficient of point pid+1 among 1..m '
                   'at 0 (SS4), collect the contributions of all parties (default input / all-to-all transfer) and combine them with the group '
                   'operation, reduce exponents of lifted fields modulo the characteristic, and run under their own program counter (G1, PC1); '
                   'operators of secure/plain groups apply the group operation in (self, other) order (OP1).',
    'assumptions': ['plain group arithmetic is correct (C27)'],
    'level': 'Static convention analysis of mpyc.secgroups -- exactly the recombination trick the single-party suite cannot exercise.',
}
PROPS['C37'] = {
    'rules': [R(sg.rule_TC1), R(sg.rule_SG1), R(sg.rule_SG2), R(pc.rule_PC1), R(pa.rule_SS1), R(pa.rule_NL1), R(ss.rule_SS3), R(ss.rule_SS7), R(ss.rule_PR1), R(fx.rule_FX1), R(fx.rule_FX3), R(op.rule_OP6), R(op.rule_OP7), R(sg.rule_AW1), R(sn.rule_IP1), R(sn.rule_SN1), R(sn.rule_SN2), R(sn.rule_SN3), R(sg.rule_WK1)],
    'floors': {'OP7': 12, 'AW1': 18, 'IP1': 4, 'TC1': 10, 'SG1': 10, 'SG2': 1, 'PC1': 40, 'SS1': 60, 'NL1': 25, 'SS3': 9, 'SS7': 8, 'PR1': 12, 'FX1': 60, 'FX3': 15, 'OP6': 14, 'SN1': 4, 'SN2': 2, 'SN3': 3},
    'explanation': 'Worker-thread results of the array square root are placed by a look-up from the completed future, never in completion order (WK1). Sibling and plumbing clauses for code the suite cannot even import (no numpy): array coroutines agree with their scalar siblings on '
                   'mask bounds (as linear forms), opening thresholds, option/field-size case splits, PRSS calls and head-room (SG1); a type that is an '
                   'array type is never tested against a scalar secure class (TC1); integral= is passed to polymorphic constructors only under a '
                   'fixed-point guard (SG2); a NumPy ufunc applied to (plain, secure) operands is delegated in reflected form -- mirrored comparison or '
                   '__r<op>__ method, exchanged operands only for symmetric operators (OP6); a scalar operator method establishes what its operand is before handing it to a runtime protocol, so that scalar-with-array broadcasts are answered by the array\'s own method (OP7); field-valued results of the local random sources, which are Futures without PRSS, are awaited under options.no_prss before use (AW1); no in-place operator is applied to a share gathered from a parameter -- it would change the caller\'s value (IP1); np_sort applies the comparator schedule of _sort, exchanges pairs in '
                   'ascending orientation and works on a copy (SN1-SN3); the np_* coroutines satisfy the pc, degree, linearity and flag rules (PC1, SS1, NL1, FX1, FX3); array '
                   'sharing, recombination and PRSS agree with the list versions (SS3, SS7, PR1).',
    'assumptions': ['numpy semantics of the array operations (broadcasting, matmul) are as documented'],
    'level': 'Static sibling-agreement and typestate analysis of the np_* half of the runtime. Found seven genuine defects (np_roll without pc, '
             'integral= for integer arrays, np_trunc head-room, reflected ufunc operands, scalar-vs-array comparisons, np_lsb without PRSS, np_unit_vector in-place shift), all repaired.',
}
PROPS['C39'] = {
    'rules': [R(cf.rule_CF1), R(cf.rule_CF2)],
    'floors': {'CF1': 2, 'CF2': 8},
    'explanation': 'setup() constructs the runtime only after a check that implies 2t < m (compared as linear inequalities, including the //2 forms) and '
                   'the default threshold is (m-1)//2 (CF1); a field is used without lifting only if t == 0 or m < q, the lifted extension degree '
                   'e = ceil(log_q(X)) has X >= m+1 so that q**e > m, lifted types keep the requested field as subfield and convert outputs back '
                   '(scalar and array), SecFld computes order = char**ext_deg, asserts min_order <= order and rejects inconsistent argument '
                   'combinations, and _pfield compares the prime field with the number of parties (CF2).',
    'assumptions': ['interpreter is not run with -O (the threshold guard is an assert): interpreter flags are outside the property\'s quantifier'],
    'level': 'Static guard/dominance analysis with linear-inequality normalisation. Decides that every configuration path reaches the size guards.',
}


PROPS['C06'] = {
    'rules': [R(cv.rule_CV1), R(cv.rule_CV2), R(cv.rule_CV3), R(cv.rule_CV4), R(pa.rule_MK2, scope=['_convert']), R(pa.rule_MK5),
              R(pc.rule_PC9, scope=['Runtime._convert']), R(pc.rule_PC1, scope=['Runtime._convert', 'Runtime.convert'])],
    'floors': {'CV1': 3, 'CV2': 2, 'CV3': 3, 'CV4': 2, 'MK2': 1, 'MK5': 5, 'PC9': 1, 'PC1': 1},
    'explanation': 'Structural clauses of the masked conversion Runtime.convert/_convert, each a necessary condition of "the converted value equals the '
                   'source value": one random mask is shared in BOTH fields -- the two PRSS calls differ in the field only (same PRFs, one common input, '
                   'same count), and without PRSS the senders wrap the same drawn integers in both fields (CV1); what is added before the opening '
                   '(offset, source-field share of the mask) is exactly what is removed after it (target-field share, the same offset), element by element '
                   '(CV2); the scale difference d = f_target - f_source is compensated by a truncation by -d before the opening exactly when d < 0 and by '
                   'a left shift by d after it only when d > 0 (CV3); field-to-field conversion goes through a secure integer type wide enough for both '
                   'orders (CV4); the mask exceeds the converted range by k bits and is the sum of bound//contributions sized terms (MK2, MK5); the '
                   'PRSS input is fresh and common and the coroutine owns its program counter (PC9, PC1).',
    'assumptions': ['converted values fit the target type (the property\'s precondition)',
                    'the modular identities behind "open x + r in the source field, subtract r in the target field" are not re-derived: only their plumbing is decided'],
    'level': 'Static pairing/provenance analysis of the conversion coroutine. Decides that the mask, the offset and the scale are applied and removed '
             'consistently in the two fields; does not evaluate conversions.',
}


PROPS['C29'] = {
    'rules': [R(sn.rule_SN1), R(sn.rule_SN2), R(sn.rule_SN3), R(sn.rule_SN4), R(sn.rule_SN5), R(sn.rule_SN6)],
    'floors': {'SN1': 4, 'SN2': 2, 'SN3': 3, 'SN4': 10, 'SN5': 8, 'SN6': 3},
    'explanation': 'Structural clauses of sorting and selection. (SN2) every compare-exchange of _sort / np_sort writes exactly the two positions it read, the '
                   'smaller element to the lower index -- otherwise the output is not a permutation of the input, or not ascending; (SN1) the list and the '
                   'array implementation apply one and the same comparator schedule (initialisation, both loops, index predicate i & p == r over '
                   'range(n - d), partner i + d, updates of d, q, r, p), as np_sort promises; (SN3) np_sort and sorted() act on a copy of their argument and '
                   'the reverse flag reverses the ascending result; (SN4) min, max, argmin, argmax split the input into two halves covering it once, compare '
                   'the two half results, select value and index under the same condition with the orientation that yields the extreme, offset the index of '
                   'the second half, and resolve ties in favour of the first half (first occurrence); (SN5) every function taking a `key` compares elements through key(..) only; (SN6) min_max moves the smaller element of each pair (i, n-1-i) to position i and then takes the minimum over a prefix and the maximum over a suffix that contain every position where it can be, for every length (slice bounds evaluated for n = 1..11). NOT decided: that the schedule itself is a sorting '
                   'network (0-1 principle over all inputs) -- that needs evaluation of the network, a different technique.',
    'assumptions': ['Batcher\'s merge-exchange schedule (Knuth 5.2.2M) as written in _sort is a sorting network for every n: not decided here',
                    'the secure comparison < is exact (C01/C02)'],
    'level': 'Static sibling cross-check and orientation analysis of the compare-exchange / selection steps. Decides necessary conditions; the 0-1 principle '
             'over all 2^n inputs is out of reach of static analysis.',
}
