"""Rules on top of the protocol abstract interpreter: SS1 (degree typestate), NL1 (only linear local
operations on shares), MK1 (every internal opening is masked or by design), MK2 (mask coverage)."""
import ast

from .core import AnalysisError, iter_nodes, norm
from . import astq
from .astq import definitions, const_int, attr_tail
from .flow import gather_params
from .linform import Lin, to_lin
from .pai import PAI, AV, PUB, secure, flat, Tag

MODULES = ('runtime', 'random', 'statistics', 'secgroups', 'seclists', 'secpols', 'sectypes', 'mpctools')

# parameters that are secure objects wrapping a *public* constant by the API's contract
PUBWRAP = {('runtime::Runtime.mod', 'b'): 'public divisor wrapped by SecureNumber._coerce'}


def pai_events(ctx):
    """Run the PAI over every function of the protocol modules that contains an await / opening /
    share arithmetic; cached on the context."""
    if 'pai' in ctx.cache:
        return ctx.cache['pai']
    out = {}
    rs = ctx.flow.rs
    for k, fn in sorted(ctx.model.funcs.items()):
        if fn.module not in MODULES:
            continue
        interesting = fn.kind in ('pc', 'nopc') or any(
            isinstance(n, ast.Call) and attr_tail(n.func) in ('output', 'is_zero_public', 'np_is_zero_public', 'eq_public', '_reshare')
            for n in iter_nodes(fn.node))
        if not interesting:
            continue
        init = {p: secure() for p in gather_params(fn)}
        if fn.cls and fn.params and fn.params[0] == 'self' and fn.cls.startswith('Secure') or (fn.cls in ('seclist', 'secindex', 'secpoly')):
            init['self'] = secure()
        for (fk, p), why in PUBWRAP.items():
            if fk == k:
                init[p] = AV('SEC', 1, frozenset(), False, typ='pubwrap')
        p = PAI(fn, rs, init)
        try:
            evs = p.run()
        except RecursionError:
            evs = None
        out[k] = (fn, p, evs)
    ctx.cache['pai'] = out
    return out


def _in_scope(fn, scope):
    return scope is None or fn.qualname in scope or fn.key in scope or fn.qualname.split('.')[-1] in scope


# ---------------------------------------------------------------------------------- SS1
def rule_SS1(ctx, rep, scope=None):
    """degree typestate: a product of two shared values (degree 2t) is reshared, or opened with a threshold
    that covers it, before it is returned, wrapped as a secure object, truncated or multiplied again."""
    nprod = 0
    for k, (fn, p, evs) in pai_events(ctx).items():
        if not _in_scope(fn, scope):
            continue
        if evs is None:
            rep.skip('SS1', fn, fn.qualname, 'abstract interpretation did not terminate', fn.node)
            continue
        bynode = {}
        for e in evs:
            if e.kind in ('MUL', 'RETURN', 'CTOR', 'OPEN', 'TRUNC', 'RESHARE'):
                bynode.setdefault((id(e.node), e.kind), []).append(e)
        for (nid, kind), es in bynode.items():
            node = es[0].node
            bad = None
            unk = False
            for e in es:
                v = e.val
                if v is None or v.k == 'TOP':
                    unk = unk or (v is not None and v.k == 'TOP' and kind in ('OPEN',))
                    continue
                d = v.deg if v.k == 'SH' else (1 if v.k == 'SEC' else 0)
                val = ', '.join(f'{a.split("|")[0]}={b}' for a, b in sorted(e.valuation.items()) if 'Secure' in a or a.split('|')[0].isidentifier())[:120]
                if kind == 'MUL':
                    nprod += 1
                    if d >= 3:
                        bad = f'product of degree {d}t: an operand is itself an unreduced product (on the path with {val or "any flags"})'
                elif kind == 'RETURN' and d >= 2:
                    bad = f'a value of degree {d}t is returned as if it were a degree-t sharing: the resharing step is bypassed on the path with {val or "any flags"}'
                elif kind == 'CTOR' and d >= 2:
                    bad = f'a share of degree {d}t is wrapped into a secure object (path with {val or "any flags"})'
                elif kind == 'TRUNC' and d >= 2:
                    bad = f'a share of degree {d}t is handed to trunc, which expects a degree-t sharing (path with {val or "any flags"})'
                elif kind == 'RESHARE' and d >= 3:
                    bad = f'a share of degree {d}t is reshared: 2t+1 dealers cannot reduce it'
                elif kind == 'OPEN' and d >= 2:
                    thr = e.extra.get('thr')
                    if thr is None:
                        bad = f'a share of degree {d}t is opened with the default threshold t: recombination from t+1 points gives a wrong value (path with {val or "any flags"})'
                    elif thr.k == 'PUB' and thr.lin is not None:
                        if not (thr.lin - Lin.sym('T') * d).nonneg():
                            bad = f'a share of degree {d}t is opened with threshold {thr.lin} (T = runtime threshold): too few points (path with {val or "any flags"})'
                    else:
                        unk = True
            if bad:
                rep.bad('SS1', fn, node, bad)
            elif unk:
                rep.skip('SS1', fn, node, 'value/threshold not classified')
            elif kind in ('MUL', 'RESHARE') or (kind == 'OPEN' and any(e.val is not None and e.val.k == 'SH' and e.val.deg >= 2 for e in es)):
                why = {'MUL': 'share product; every sink of it is checked', 'RESHARE': 'degree reduction',
                       'OPEN': 'degree-2t value opened with a covering threshold'}[kind]
                rep.ok('SS1', fn, node, why)
    if scope is None and nprod < 30:
        raise AnalysisError(f'SS1: only {nprod} share products seen by the abstract interpreter (expected >= 30)')


# ---------------------------------------------------------------------------------- NL1
NL1_BY_DESIGN = {
    ('runtime::Runtime.np_reciprocal', 'np.count_nonzero'): 'argument is the opened array ar',
}


def rule_NL1(ctx, rep, scope=None):
    """only field-linear local operations on plain shares (no bitwise/comparison/modular operation on
    a share: such an operation is valid only when the share equals the value, i.e. for t = 0)."""
    n = 0
    for k, (fn, p, evs) in pai_events(ctx).items():
        if not _in_scope(fn, scope) or evs is None:
            continue
        seen = set()
        for e in evs:
            if e.kind in ('NONLINEAR', 'BRANCH') and id(e.node) not in seen:
                seen.add(id(e.node))
                what = e.extra if e.kind == 'NONLINEAR' else 'branch condition'
                rep.bad('NL1', fn, e.node, f'{what}: a non-linear / value-inspecting operation is applied to this party\'s share ({e.val}); '
                        'it commutes with the sharing only when the share equals the secret (threshold 0)')
        lin = sum(1 for e in evs if e.kind in ('MUL', 'RESHARE', 'OPEN'))
        if lin and not seen:
            n += 1
            rep.ok('NL1', fn, f'{fn.qualname} [{lin} share operations]', 'all local operations on shares are field-linear or products', fn.node)
    if scope is None and n < 25:
        raise AnalysisError(f'NL1: only {n} functions with share arithmetic analysed (expected >= 25)')


# ---------------------------------------------------------------------------------- MK1
# Openings that reveal their argument by design; each entry names the function and carries the reason.
MK1_BY_DESIGN = {
    'runtime::Runtime.peek': 'debug facility: logs the value on purpose',
    'runtime::Runtime.indexOf': 'API contract: raises ValueError when the value is absent, so presence is public',
    'runtime::Runtime.np_det': 'opens L*U*A for random unit-triangular L, upper-triangular U (masks A up to its determinant class, [documented TODO cases aside])',
    'seclists::seclist.remove': 'API contract: raises ValueError when the value is absent, so presence is public',
    'seclists::secindex.__index__': 'explicit conversion of a secret index to a public int requested by the caller',
    'statistics::_quickselect': 'the sizes of the partitions around a uniformly random pivot are public by design of the algorithm',
    'statistics::_mode': 'opens only PRIV-bit truncated frequency comparisons as documented',
    'random::sample': 'rejection test on fresh random values only',
    'random::random_derangement': 'rejection test (fixed point present?) on a fresh random permutation',
    'secgroups::SecureFiniteGroup._output': 'forwarder: this *is* the output operation of the type',
    'secpols::secpoly._output': 'forwarder: this *is* the output operation of the type',
    'sectypes::SecureFloat._output': 'forwarder: this *is* the output operation of the type',
    'sectypes::SecureFloat.is_zero_public': 'forwarder of the public zero test to the significand',
    'runtime::Runtime.eq_public': 'forwarder to is_zero_public',
}


def rule_MK1(ctx, rep, scope=None):
    """every value opened inside library code is masked (field-uniform blinding, k-bit statistical mask,
    one-time pad of random bits in a binary field), depends on fresh randomness only, or is a by-design
    public result listed with its reason."""
    n = 0
    for k, (fn, p, evs) in pai_events(ctx).items():
        if not _in_scope(fn, scope) or evs is None:
            continue
        bynode = {}
        for e in evs:
            if e.kind == 'OPEN':
                bynode.setdefault(id(e.node), []).append(e)
        for es in bynode.values():
            node = es[0].node
            n += 1
            verdicts = []
            for e in es:
                v = e.val
                if v is None or v.k == 'TOP':
                    verdicts.append(('unk', 'value not classified'))
                    continue
                if v.k == 'PUB' or not v.inp:
                    verdicts.append(('ok', 'depends on fresh randomness / public data only'))
                    continue
                cls = {t.cls for t in v.rnd}
                if 'U' in cls:
                    verdicts.append(('ok', 'blinded with a field-uniform random value'))
                elif 'K' in cls:
                    verdicts.append(('ok', 'statistically masked (size checked by MK2)'))
                elif 'L' in cls:
                    verdicts.append(('ok', 'masked with locally drawn randomness dealt by t+1 parties (size checked by MK2)'))
                elif 'B' in cls and any(('characteristic == 2' in a or a.startswith('p == 2')) and b for a, b in e.valuation.items()):
                    verdicts.append(('ok', 'one-time pad of uniformly random bits in a binary field'))
                else:
                    verdicts.append(('bad', f'input-dependent value {v} opened without a mask'))
            if any(x[0] == 'bad' for x in verdicts):
                if k in MK1_BY_DESIGN:
                    rep.ok('MK1', fn, node, 'by design: ' + MK1_BY_DESIGN[k])
                else:
                    rep.bad('MK1', fn, node, [x[1] for x in verdicts if x[0] == 'bad'][0] + ': the opened value reveals (a function of) the secret to every party')
            elif all(x[0] == 'unk' for x in verdicts):
                if k in MK1_BY_DESIGN:
                    rep.ok('MK1', fn, node, 'by design: ' + MK1_BY_DESIGN[k])
                else:
                    rep.skip('MK1', fn, node, 'opened value not classified by the abstract interpreter')
            else:
                rep.ok('MK1', fn, node, sorted({x[1] for x in verdicts if x[0] == 'ok'})[0])
    if scope is None and n < 40:
        raise AnalysisError(f'MK1: only {n} opening sites analysed (expected >= 40)')


# ---------------------------------------------------------------------------------- MK2
class M:
    """Mask summary of an expression.
    tops : tuple of groups; a group = frozenset of alternative bit positions (one per definition/path,
           'U' = uniform on the field) reached by ONE bounded random term of the sum;
    offs : exponents of the public power-of-two offsets in the sum;
    exps : alternatives for log2 of the value when it is (about) a public power of two ('U' = field order)."""
    __slots__ = ('tops', 'offs', 'exps')

    def __init__(self, tops=(), offs=(), exps=()):
        self.tops, self.offs, self.exps = tuple(tops), tuple(offs), frozenset(exps)

    def union(self, o):
        return M(tuple(self.tops) + tuple(t for t in o.tops if t not in self.tops), set(self.offs) | set(o.offs), ())


def _shift(group, s):
    return frozenset(('U' if a == 'U' else a + s) for a in group)


MK2_ASSUMED = {
    'runtime::Runtime.np_unit_vector': 'a is assumed in [0, n): (a - r) // n is 0 or -1, so the k-bit R covers it',
    'runtime::Runtime.sincos': 'R carries sec_param bits above the 2k-bit working value (ad hoc type secfxp2); no bit-length symbol to compare with',
}


class MaskEval:
    def __init__(self, fn, knames, before=None):
        self.fn = fn
        self.knames = set(knames)
        self.env = {}
        pos = astq.position
        assigns = []
        for s in iter_nodes(fn.node):
            if before is not None and isinstance(s, ast.stmt) and pos(s) >= before and not isinstance(s, (ast.For, ast.While)):
                continue
            if isinstance(s, ast.Assign):
                for t in s.targets:
                    assigns.append((t, s.value))
            elif isinstance(s, ast.AugAssign):
                assigns.append((s.target, ast.BinOp(left=s.target, op=s.op, right=s.value)))
            elif isinstance(s, (ast.For, ast.comprehension)):
                assigns.append((s.target, ('iter', s.iter)))
            elif isinstance(s, ast.NamedExpr):
                assigns.append((s.target, s.value))
        for s in iter_nodes(fn.node):
            if isinstance(s, ast.Assign) and isinstance(s.value, ast.Attribute) and norm(s.value).endswith('options.sec_param'):
                for t in s.targets:
                    if isinstance(t, ast.Name):
                        self.knames.add(t.id)
        for t, v in assigns:
            m = self.iter_elem(v[1]) if isinstance(v, tuple) else self.ev(v)
            self.bind(t, m)

    def bind(self, t, m):
        if isinstance(t, ast.Name):
            m = self._flat(m)
            old = self.env.get(t.id)
            if old is None:
                self.env[t.id] = m
            else:
                u = old.union(m)
                u.exps = old.exps | m.exps
                self.env[t.id] = u
        elif isinstance(t, (ast.Tuple, ast.List)):
            if isinstance(m, tuple) and len(m) == len(t.elts):
                for x, y in zip(t.elts, m):
                    self.bind(x, y)
            else:
                mm = self._flat(m)
                for x in t.elts:
                    self.bind(x.value if isinstance(x, ast.Starred) else x, mm)
        elif isinstance(t, ast.Subscript):
            base = t.value
            while isinstance(base, ast.Subscript):
                base = base.value
            if isinstance(base, ast.Name):
                self.bind(base, self._flat(m))

    def _flat(self, m):
        if isinstance(m, tuple):
            r = M()
            for x in m:
                r = r.union(self._flat(x))
            return r
        return m

    def iter_elem(self, it):
        if isinstance(it, ast.Call) and isinstance(it.func, ast.Name) and it.func.id == 'zip':
            return tuple(self._flat(self.ev(a.value if isinstance(a, ast.Starred) else a)) for a in it.args)
        if isinstance(it, ast.Call) and isinstance(it.func, ast.Name) and it.func.id == 'enumerate' and it.args:
            return (M(), self._flat(self.ev(it.args[0])))
        if isinstance(it, ast.Call) and isinstance(it.func, ast.Name) and it.func.id in ('reversed', 'list', 'iter') and it.args:
            return self._flat(self.ev(it.args[0]))
        return self._flat(self.ev(it))

    def lin(self, e):
        env = {n: Lin.sym('k') for n in self.knames}
        l = to_lin(e, env, opaque=True)
        if l is None:
            return None
        t = {}
        for s, c in l.t.items():
            key = 'k' if 'sec_param' in s else s
            t[key] = t.get(key, 0) + c
        return Lin(l.c, t)

    def bound_group(self, b):
        mb = self._flat(self.ev(b))
        if mb.exps:
            return frozenset(mb.exps)
        return frozenset({Lin.sym(f'lg({norm(b)})')})

    def ev(self, e):
        if isinstance(e, ast.Name):
            return self.env.get(e.id, M())
        if isinstance(e, ast.Constant):
            if isinstance(e.value, int) and not isinstance(e.value, bool) and e.value > 0 and e.value & (e.value - 1) == 0:
                return M(exps=[Lin(e.value.bit_length() - 1)])
            return M()
        if isinstance(e, (ast.Await, ast.Starred)):
            return self.ev(e.value)
        if isinstance(e, ast.Attribute):
            if e.attr == 'order':
                return M(exps=['U'])
            return self._flat(self.ev(e.value))
        if isinstance(e, ast.Subscript):
            return self._flat(self.ev(e.value))
        if isinstance(e, (ast.Tuple, ast.List)):
            return tuple(self._flat(self.ev(x)) for x in e.elts)
        if isinstance(e, ast.IfExp):
            a, b = self._flat(self.ev(e.body)), self._flat(self.ev(e.orelse))
            u = a.union(b)
            u.exps = a.exps | b.exps
            return u
        if isinstance(e, (ast.ListComp, ast.GeneratorExp)):
            saved = dict(self.env)
            for g in e.generators:
                self.bind(g.target, self.iter_elem(g.iter))
            r = self._flat(self.ev(e.elt))
            self.env = saved
            return r
        if isinstance(e, ast.UnaryOp):
            return self._flat(self.ev(e.operand))
        if isinstance(e, ast.BinOp):
            a, b = self._flat(self.ev(e.left)), self._flat(self.ev(e.right))
            if isinstance(e.op, (ast.Add, ast.Sub)) and const_int(e.right) is not None and a.exps and not a.tops and not a.offs:
                return M((), (), a.exps)     # 2^e + small constant: still about 2^e
            if isinstance(e.op, (ast.Add, ast.Sub)):
                offs = set(a.offs) | set(b.offs)
                for x in (a, b):
                    if x.exps and not x.tops:
                        offs |= {y for y in x.exps if y != 'U'}
                if a.exps and not a.tops and not b.exps and not b.tops and not b.offs and const_int(e.right) is not None:
                    return M(a.tops, a.offs, a.exps)     # 2^e + small constant: still about 2^e
                return M(tuple(a.tops) + tuple(t for t in b.tops if t not in a.tops), offs, ())
            if isinstance(e.op, ast.LShift):
                s = self.lin(e.right)
                if const_int(e.left) == 1:
                    return M(exps=[s] if s is not None else [])
                if s is None:
                    return M()
                return M([_shift(g, s) for g in a.tops], [o + s for o in a.offs], [x if x == 'U' else x + s for x in a.exps])
            if isinstance(e.op, ast.Pow) and const_int(e.left) == 2:
                s = self.lin(e.right)
                return M(exps=[s] if s is not None else [])
            if isinstance(e.op, ast.Mult):
                for x, y, yn in ((a, b, e.right), (b, a, e.left)):
                    if x.tops and not y.tops:
                        if len(y.exps) == 1 and 'U' not in y.exps:
                            (ye,) = tuple(y.exps)
                            return M([_shift(g, ye) for g in x.tops], x.offs, ())
                        if const_int(yn) is not None:
                            return M(x.tops, x.offs, ())
                        return M([_shift(g, Lin.sym(f'lg({norm(yn)})')) for g in x.tops], x.offs, ())
                if len(a.exps) == 1 and len(b.exps) == 1 and 'U' not in (a.exps | b.exps):
                    return M(exps=[tuple(a.exps)[0] + tuple(b.exps)[0]])
                return M(tuple(a.tops) + tuple(b.tops), set(a.offs) | set(b.offs), ())
            if isinstance(e.op, ast.FloorDiv):
                dv = norm(e.right)
                if dv in ('t + 1', 'math.comb(m, t)', 'd', 'self.threshold + 1', 'T + 1') or 'comb(' in dv:
                    return M(a.tops, a.offs, a.exps)  # bound // (number of contributors): their sum has the numerator's bound
                ci = const_int(e.right)
                if ci is not None and ci > 0:
                    sub = Lin((ci).bit_length() - 1)
                elif len(b.exps) == 1 and 'U' not in b.exps:
                    sub = tuple(b.exps)[0]
                else:
                    sub = Lin.sym(f'lg({dv})')
                return M([_shift(g, sub * -1) for g in a.tops], a.offs, [x if x == 'U' else x - sub for x in a.exps])
            if isinstance(e.op, (ast.Mod, ast.Div, ast.RShift)):
                return M()
            return a.union(b)
        if isinstance(e, ast.Call):
            name = attr_tail(e.func)
            if name in ('_random', '_randoms', '_np_randoms'):
                pos = 1 if name == '_random' else 2
                b = e.args[pos] if len(e.args) > pos else next((k.value for k in e.keywords if k.arg == 'bound'), None)
                if b is None:
                    return M(tops=[frozenset({'U'})])
                return M(tops=[self.bound_group(b)])
            if name in ('randbelow',) and e.args:
                return M(tops=[self.bound_group(e.args[0])])
            if name in ('pseudorandom_share', 'np_pseudorandom_share') and len(e.args) > 3:
                mb = self._flat(self.ev(e.args[3]))
                return M(tops=[frozenset(mb.exps)] if mb.exps else [])
            if name == 'prfs' and e.args:
                mb = self._flat(self.ev(e.args[0]))
                return M(exps=mb.exps)
            if name in ('output', 'is_zero_public', 'np_is_zero_public', 'eq_public', 'len', 'range', 'isinstance', 'type', 'bit_length', 'comb'):
                return M()
            r = M()
            if isinstance(e.func, ast.Attribute):
                r = r.union(self._flat(self.ev(e.func.value)))
            for a in e.args:
                r = r.union(self._flat(self.ev(a.value if isinstance(a, ast.Starred) else a)))
            return r
        return M()


def rule_MK2(ctx, rep, scope=None):
    """mask coverage: in every opening that is statistically masked, some bounded random term reaches at
    least k bits above the public power-of-two offset (= assumed magnitude) of the masked value."""
    n = 0
    for k, (fn, p, evs) in pai_events(ctx).items():
        if not _in_scope(fn, scope) or evs is None:
            continue
        opens = {}
        for e in evs:
            if e.kind == 'OPEN' and e.val is not None and e.val.k in ('SH', 'SEC') and e.val.inp and \
                    any(t.cls in ('K', 'L') for t in e.val.rnd) and not any(t.cls == 'U' for t in e.val.rnd):
                opens.setdefault(id(e.node), e)
        if not opens:
            continue
        blnames = set()
        for s in iter_nodes(fn.node):
            if isinstance(s, ast.Assign) and isinstance(s.targets[0], ast.Name) and 'bit_length' in norm(s.value) and '.bit_length()' not in norm(s.value):
                blnames.add(s.targets[0].id)
        pmf = astq.parents(fn.node)
        blsyms = set()
        for x in iter_nodes(fn.node):
            if isinstance(x, ast.Attribute) and x.attr == 'bit_length':
                par = pmf.get(id(x))
                if not (isinstance(par, ast.Call) and par.func is x):
                    blsyms.add('<' + norm(x) + '>')
        for e in opens.values():
            n += 1
            arg = e.extra.get('arg')
            me = MaskEval(fn, p.k_names, before=astq.position(astq.enclosing_stmt(e.node, astq.parents(fn.node))))
            m = me._flat(me.ev(arg)) if arg is not None else M()
            groups = [g for g in m.tops if g]
            cands = list(m.offs) or [Lin.sym(b) for b in sorted(blnames | blsyms)]
            if not groups:
                rep.skip('MK2', fn, e.node, 'size of the mask not recognised')
                continue
            if not cands:
                if k in MK2_ASSUMED:
                    rep.ok('MK2', fn, e.node, 'by assumption: ' + MK2_ASSUMED[k])
                else:
                    rep.skip('MK2', fn, e.node, 'no magnitude (power-of-two offset / bit length) to compare the mask with')
                continue
            K = Lin.sym('k')

            def covered(alt):
                return alt == 'U' or any((alt - c - K).nonneg() for c in cands)
            good = [g for g in groups if all(covered(a) for a in g)]
            if good:
                g = good[0]
                rep.ok('MK2', fn, e.node, f'mask term reaches bit {" | ".join(map(repr, sorted(g, key=repr)))} >= magnitude 2^({" / ".join(map(repr, cands))}) plus k bits, on every definition of its bound')
            elif k in MK2_ASSUMED:
                rep.ok('MK2', fn, e.node, 'by assumption: ' + MK2_ASSUMED[k])
            else:
                worst = [a for g in groups for a in g if not covered(a)]
                rep.bad('MK2', fn, e.node, f'statistical mask too short: the random term reaches only bit {" / ".join(map(repr, worst))} while the masked value has magnitude '
                        f'2^({" / ".join(map(repr, cands))}); it must reach k bits above it, otherwise the opened value depends visibly on the secret')
    if scope is None and n < 12:
        raise AnalysisError(f'MK2: only {n} statistically masked openings analysed (expected >= 12)')


# ---------------------------------------------------------------------------------- MK5
def _count_kind(fn, e, use, pm):
    """What does a divisor count?  'senders' for T+1, 'subsets' for comb(M, T), else None."""
    from . import sem
    l = sem.slin(fn, e, use, pm)
    if l is not None and l == Lin.sym('T') + 1:
        return 'senders'
    e2 = sem.expand(fn, e, use, pm)
    if isinstance(e2, ast.Call) and norm(e2.func) == 'math.comb' and len(e2.args) == 2:
        a, b = sem.slin(fn, e2.args[0]), sem.slin(fn, e2.args[1])
        if a is not None and b is not None and a == Lin.sym('M') and b == Lin.sym('T'):
            return 'subsets'
    return None


def rule_MK5(ctx, rep):
    """contributor count: a bounded random value is the sum of one contribution per sender (t+1 senders without
    PRSS) or per key subset (comb(m, t) subsets with PRSS); each contribution is bounded by bound // that count,
    so that the sum stays below the bound (no wrap-around modulo the field) and above bound/2 in magnitude."""
    from . import sem
    model = ctx.model
    n = 0
    for q in ('_randoms', '_np_randoms', '_convert'):
        fn = model.func('runtime::Runtime.' + q)
        pm = astq.parents(fn.node)
        sites = [x for x in iter_nodes(fn.node) if isinstance(x, ast.BinOp) and isinstance(x.op, ast.FloorDiv) and const_int(x.right) is None]
        found = 0
        for x in sites:
            cs = sem.cases(fn, x.right, x, pm, sem.is_noprss)
            if not any(_count_kind(fn, e, x, pm) for _, e in cs):
                continue      # some other division
            found += 1
            n += 1
            probs = []
            seen = set()
            for flag, e in cs:
                kind = _count_kind(fn, e, x, pm)
                seen.add(flag)
                if flag is None:
                    probs.append(f'the divisor {norm(e)} is used regardless of the PRSS option: without PRSS t+1 senders contribute, with PRSS comb(m, t) key subsets')
                elif flag and kind != 'senders':
                    probs.append(f'without PRSS the contributions are bounded by bound // {norm(e)}, but t+1 senders contribute')
                elif not flag and kind != 'subsets':
                    probs.append(f'with PRSS the contributions are bounded by bound // {norm(e)}, but comb(m, t) key subsets contribute')
            if probs:
                for pr in probs:
                    rep.bad('MK5', fn, x, pr + ': the sum of the contributions exceeds the intended bound (masked values wrap around the modulus) or falls short of it')
            else:
                rep.ok('MK5', fn, x, 'each contribution is bounded by bound // (number of contributions): t+1 senders without PRSS, comb(m, t) key subsets with PRSS')
        if not found:
            rep.bad('MK5', fn, fn.qualname, 'the per-contribution bound is not bound // (t+1 senders | comb(m, t) subsets): the sum of the contributions '
                    'exceeds the intended bound (masked values wrap around the modulus) or falls short of it', fn.node)
            n += 1
        if q == '_convert':
            continue
        # the senders really are t+1 distinct parties
        ins = [c for c in astq.calls_named(fn.node, 'input') if any(k.arg == 'senders' for k in c.keywords)]
        good = False
        site = fn.qualname
        if ins:
            sv = [k.value for k in ins[0].keywords if k.arg == 'senders'][0]
            site = sv
            v = sem.resolve(fn, sv, ins[0], pm)
            if isinstance(v, ast.Call) and isinstance(v.func, ast.Name) and v.func.id in ('tuple', 'list') and len(v.args) == 1:
                v = v.args[0]
            if isinstance(v, (ast.GeneratorExp, ast.ListComp)) and len(v.generators) == 1 and not v.generators[0].ifs:
                from . import routes
                g = v.generators[0]
                b = routes.binder_of(fn, g.target, g.iter, ins[0], pm, v)
                if b is not None and b.kind == 'range':
                    cnt = b.hi - b.lo + 1
                    elt = v.elt
                    inj = False
                    if isinstance(elt, ast.BinOp) and isinstance(elt.op, ast.Mod):
                        mod = sem.slin(fn, elt.right, ins[0], pm)
                        inner = to_lin(sem.symx(elt.left), {}, opaque=True)
                        inj = mod is not None and mod == Lin.sym('M') and inner is not None and abs(inner.coef(b.var)) == 1
                    good = cnt == Lin.sym('T') + 1 and inj
        if good:
            rep.ok('MK5', fn, site, 't+1 distinct senders contribute without PRSS')
        else:
            rep.bad('MK5', fn, site, 'the number of senders without PRSS is not t+1', fn.node)
        # every contribution is added up: an explicit element count of the summed contributions must be the number of senders
        for c in ast.walk(fn.node):
            if isinstance(c, ast.Call) and astq.attr_tail(c.func) == 'fromiter':
                cnt = [k.value for k in c.keywords if k.arg == 'count'] + list(c.args[2:3])
                if not cnt:
                    continue
                ce = cnt[0]
                # names of the enclosing function (closure variables of the nested coroutine)
                class X(ast.NodeTransformer):
                    def visit_Name(self, nm):
                        v = astq.sole_definition(fn.node, nm.id)
                        return v if v is not None and not isinstance(v, (ast.Call, ast.Await)) or (v is not None and norm(v) in ('len(self.parties)',)) else nm
                import copy
                cl = to_lin(sem.symx(X().visit(copy.deepcopy(ce))), {}, opaque=True)
                if cl is not None and cl == Lin.sym('T') + 1:
                    rep.ok('MK5', fn, c, 'the contributions of all t+1 senders are added up')
                else:
                    rep.bad('MK5', fn, c, f'{norm(ce)} contributions are added up although t+1 senders contribute: the mask is the sum of fewer terms than '
                            'intended, so fewer than t+1 parties know it entirely (with t = 1 one party knows the whole mask)')
    if n < 3:       # one divisor site per function at least (the two PRSS cases may share one conditional divisor)
        raise AnalysisError('MK5: contributor-count sites not found')
